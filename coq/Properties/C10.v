(* C10 - Packet-encryption primitives are lossless and exactly invertible (all byte lists, all multiples). *)
From EO Require Import Prelude.Py Model.Encrypt Proofs.Encrypt.
From Coq Require Import Permutation.
Open Scope Z_scope.

(* interleave / deinterleave: position permutations that depend only on the length ... *)
Theorem C10_weave_positions : forall l,
  interleave l = map (fun i => nth (isrc (length l) i) l 0) (seq 0 (length l)) /\
  deinterleave l = map (fun j => nth (dsrc (length l) j) l 0) (seq 0 (length l)).
Proof. intros l. split; reflexivity. Qed.

(* ... whose index maps are mutually inverse bijections of [0,n) *)
Theorem C10_index_maps_inverse : forall n i, (i < n)%nat ->
  (isrc n i < n)%nat /\ (dsrc n i < n)%nat /\ dsrc n (isrc n i) = i /\ isrc n (dsrc n i) = i.
Proof. intros n i H. repeat split; [now apply isrc_lt | now apply dsrc_lt | now apply dsrc_isrc | now apply isrc_dsrc]. Qed.

Theorem C10_weave_inverse : forall l,
  deinterleave (interleave l) = l /\ interleave (deinterleave l) = l /\
  length (interleave l) = length l /\ length (deinterleave l) = length l /\
  Permutation (interleave l) l /\ Permutation (deinterleave l) l.
Proof.
  intros l. repeat split; [apply deinterleave_interleave | apply interleave_deinterleave | apply interleave_length
                          | apply deinterleave_length | apply interleave_perm | apply deinterleave_perm].
Qed.

(* flip_msb: involution on bytes, fixes 0 and 128, is xor 0x80 elsewhere *)
Theorem C10_flip : forall b, 0 <= b <= 255 ->
  flip (flip b) = b /\ 0 <= flip b <= 255 /\ (b mod 128 = 0 -> flip b = b) /\ (b mod 128 <> 0 -> flip b = if b <? 128 then b + 128 else b - 128).
Proof.
  intros b H. destruct (flip_byte b H) as [A [I R]]. repeat split; try assumption; try lia.
  - intros Z0. rewrite A. unfold flip_arith. destruct (b mod 128 =? 0) eqn:E; [reflexivity | lia].
  - intros NZ. rewrite A. unfold flip_arith. destruct (b mod 128 =? 0) eqn:E; [lia | reflexivity].
Qed.
Theorem C10_flip_msb_invol : forall l, bytes_ok l -> flip_msb (flip_msb l) = l /\ length (flip_msb l) = length l.
Proof. intros l H. split; [now apply flip_msb_invol | apply map_length]. Qed.
Example C10_flip_fixed : flip 0 = 0 /\ flip 128 = 128 /\ flip_msb [0;1;127;128;129;254;255] = [0;129;255;128;1;126;127].
Proof. vm_compute. repeat split. Qed.

(* swap_multiples *)
Theorem C10_swap_reject_and_zero : forall l m,
  (m < 0 -> swap_multiples l m = Err EValue) /\ (m = 0 -> swap_multiples l m = Ok l) /\
  (0 <= m -> exists r, swap_multiples l m = Ok r).
Proof.
  intros l m. unfold swap_multiples. repeat split.
  - intros H. destruct (m <? 0) eqn:E; [reflexivity | lia].
  - intros ->. reflexivity.
  - intros H. destruct (m <? 0) eqn:E; [lia|]. destruct (m =? 0); eexists; reflexivity.
Qed.

Theorem C10_swap_positive : forall l m r, 0 < m -> swap_multiples l m = Ok r ->
  swap_multiples r m = Ok l /\ length r = length l /\ Permutation r l /\
  (forall i d, (i < length l)%nat -> nth i l d mod m <> 0 -> nth i r d = nth i l d) /\
  (forall i d, (i < length l)%nat -> nth i l d mod m = 0 -> nth i r d mod m = 0).
Proof.
  intros l m r Hm E. unfold swap_multiples in *.
  destruct (m <? 0) eqn:N; [lia|]. destruct (m =? 0) eqn:Z0; [lia|]. injection E as <-.
  repeat split.
  - now rewrite swap_invol.
  - now rewrite swap_aux_length.
  - apply (swap_aux_perm m l []).
  - intros i d Hi Hn. apply (swap_aux_fixes m l [] i d Hi Hn).
  - intros i d Hi Hz. apply (swap_aux_mult_positions m l [] i d (Forall_nil _) Hi Hz).
Qed.

(* any pipeline is undone exactly by the inverses in reverse order; bytes stay bytes, length is kept *)
Theorem C10_pipeline : forall p l, bytes_ok l ->
  run_ops (map inverse (rev p)) (run_ops p l) = l /\ bytes_ok (run_ops p l).
Proof. intros p l H. split; [now apply pipeline_inverse | now apply run_ops_ok]. Qed.

Example C10_vectors :
  interleave [0;1;2;3;4;5] = [0;5;1;4;2;3] /\ deinterleave [0;1;2;3;4;5] = [0;2;4;5;3;1] /\
  interleave [0;1;2;3;4] = [0;4;1;3;2] /\ swap_multiples [10;21;27] 3 = Ok [10;27;21] /\
  run_ops [Interleave; FlipMsb; Swap 3; Deinterleave] [9;6;3;1;200;255;0] <> [9;6;3;1;200;255;0].
Proof. vm_compute. repeat split; discriminate. Qed.

Print Assumptions C10_weave_positions.
Print Assumptions C10_index_maps_inverse.
Print Assumptions C10_weave_inverse.
Print Assumptions C10_flip.
Print Assumptions C10_flip_msb_invol.
Print Assumptions C10_swap_reject_and_zero.
Print Assumptions C10_swap_positive.
Print Assumptions C10_pipeline.
