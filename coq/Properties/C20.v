From EO Require Import Prelude.Py Model.Spec.
Theorem C20_placeholder : True. Proof. exact I. Qed.
