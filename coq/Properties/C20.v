(* Property C20: after importing the top-level package in any order of first import, every documented module and
   subpackage is reachable by attribute access along its dotted path and is the very module the import system resolves
   for that name; every public name is one and the same object at top level and in its home subpackage.
   Theorems about the operational model of the import system (Model/PyImport.v), universally quantified over import
   programs, worlds (sys.modules) and fuel, and checks by computation on a miniature of the eolib package. *)
From EO Require Import Prelude.Py Model.Spec Model.PyImport Proofs.PyImport.
From Coq Require Import String.
Set Default Timeout 60.
Open Scope string_scope.
Open Scope list_scope.

(* ------------------------------------------------------------------------------------------ *)
(* 1. basic facts about the import system                                                       *)
(* ------------------------------------------------------------------------------------------ *)
Theorem C20_fuel_monotone : forall fuel P w p w',
  import_module fuel P w p = Some w' -> forall fuel', (fuel <= fuel')%nat -> import_module fuel' P w p = Some w'.
Proof. intros fuel P w p w' H fuel' Hle. eapply import_fuel_mono; eauto. Qed.

Theorem C20_exec_fuel_monotone : forall fuel P w cur body w',
  exec_stmts fuel P w cur body = Some w' -> forall fuel', (fuel <= fuel')%nat -> exec_stmts fuel' P w cur body = Some w'.
Proof. intros fuel P w cur body w' H fuel' Hle. eapply exec_fuel_mono; eauto. Qed.

Theorem C20_fresh_run_fuel_monotone : forall fuel P first w,
  fresh_run fuel P first = Some w -> forall fuel', (fuel <= fuel')%nat -> fresh_run fuel' P first = Some w.
Proof.
  unfold fresh_run. intros fuel P first w H fuel' Hle. apply obind_some in H as (w1 & H1 & H2).
  rewrite (import_fuel_mono _ _ _ _ _ _ H1 Hle). simpl. eapply import_fuel_mono; eauto.
Qed.

(* a module already in sys.modules (complete or partially initialised) is not imported again *)
Theorem C20_import_idempotent : forall fuel P w p m, wfind w p = Some m -> import_module (S fuel) P w p = Some w.
Proof. intros fuel P w p m H. rewrite import_module_S. unfold import_step. rewrite H. reflexivity. Qed.

Theorem C20_import_registers : forall fuel P w p w',
  import_module fuel P w p = Some w' -> is_internal P p = true -> exists m, wfind w' p = Some m.
Proof. intros. eapply import_registers; eauto. Qed.

(* nothing is ever removed from sys.modules, and a completed module stays completed *)
Theorem C20_modules_persist : forall fuel P w p w' q m,
  import_module fuel P w p = Some w' -> wfind w q = Some m ->
  exists m', wfind w' q = Some m' /\ (m_done m = true -> m_done m' = true).
Proof. intros fuel P w p w' q m H Hq. exact (import_wle _ _ _ _ _ H _ _ Hq). Qed.

Theorem C20_modules_persist_exec : forall fuel P w cur body w' q m,
  exec_stmts fuel P w cur body = Some w' -> wfind w q = Some m ->
  exists m', wfind w' q = Some m' /\ (m_done m = true -> m_done m' = true).
Proof. intros fuel P w cur body w' q m H Hq. exact (exec_wle _ _ _ _ _ _ H _ _ Hq). Qed.

(* the frame property: an import never touches a module already in sys.modules, except for appending
   `leaf -> that module's own submodule with that leaf` to its namespace (a child that completed).
   __all__ and the completion flag are unchanged. *)
Theorem C20_frame : forall fuel P w p w' cur m,
  import_module fuel P w p = Some w' -> wfind w cur = Some m ->
  exists l, wfind w' cur = Some (mkM (m_ns m ++ l) (m_all m) (m_done m)) /\
            Forall (fun kv => snd kv = OMod (cur ++ "." ++ fst kv)) l.
Proof. intros fuel P w p w' cur m H Hm. exact (import_frame _ _ _ _ _ cur H _ Hm). Qed.

(* the same for the body of another module *)
Theorem C20_frame_exec : forall fuel P w c body w' cur m,
  exec_stmts fuel P w c body = Some w' -> cur <> c -> wfind w cur = Some m ->
  exists l, wfind w' cur = Some (mkM (m_ns m ++ l) (m_all m) (m_done m)) /\
            Forall (fun kv => snd kv = OMod (cur ++ "." ++ fst kv)) l.
Proof. intros fuel P w c body w' cur m H Hne Hm. exact (exec_frame _ _ _ _ _ _ cur H Hne _ Hm). Qed.

(* ------------------------------------------------------------------------------------------ *)
(* 2. the re-binding loop.  Stronger than asked: no NoDup, no is_internal side condition -         *)
(*    duplicates re-bind the same value, and a submodule imported later in the loop can only      *)
(*    append `leaf -> cur.leaf` to cur's namespace (C20_frame), which is the same value again.    *)
(* ------------------------------------------------------------------------------------------ *)
Theorem C20_rebind_binds : forall fuel P w cur names w',
  exec_stmts fuel P w cur [SRebind names] = Some w' ->
  (exists m0, wfind w cur = Some m0) ->
  forall n, In n names ->
  exists m, wfind w' cur = Some m /\ ns_lookup (m_ns m) n = Some (OMod (cur ++ "." ++ n)).
Proof.
  intros fuel P w cur names w' H [m0 Hm0] n Hn.
  apply exec_stmts_single in H as (f & -> & H). unfold exec_stmt in H.
  destruct (rebind_loop _ _ _ _ _ _ _ H Hm0) as (l & Hl & F & Hin).
  exists (mext m0 l). split; [exact Hl|]. simpl.
  apply lookup_child_ext_in; [exact F | apply Hin; exact Hn].
Qed.

(* ... and __all__ / completion flag of the package are untouched, the old namespace is a prefix *)
Theorem C20_rebind_only_appends : forall fuel P w cur names w' m0,
  exec_stmts fuel P w cur [SRebind names] = Some w' -> wfind w cur = Some m0 ->
  exists l, wfind w' cur = Some (mkM (m_ns m0 ++ l) (m_all m0) (m_done m0)) /\
            Forall (fun kv => snd kv = OMod (cur ++ "." ++ fst kv)) l /\ incl names (map fst l).
Proof.
  intros fuel P w cur names w' m0 H Hm0.
  apply exec_stmts_single in H as (f & -> & H). unfold exec_stmt in H.
  exact (rebind_loop _ _ _ _ _ _ _ H Hm0).
Qed.

Theorem C20_rebind_last_wins : forall fuel P w cur pre names w',
  exec_stmts fuel P w cur (pre ++ [SRebind names]) = Some w' ->
  (exists m0, wfind w cur = Some m0) ->
  forall n, In n names ->
  exists m, wfind w' cur = Some m /\ ns_lookup (m_ns m) n = Some (OMod (cur ++ "." ++ n)).
Proof.
  intros fuel P w cur pre names w' H [m0 Hm0] n Hn.
  apply exec_stmts_app in H as (w1 & H1 & H2).
  destruct (exec_wle _ _ _ _ _ _ H1 _ _ Hm0) as (m1 & Hm1 & _).
  eapply C20_rebind_binds; eauto.
Qed.

(* ------------------------------------------------------------------------------------------ *)
(* 3. `from t import *` copies exactly the public names t has at that moment (t may be cur)       *)
(* ------------------------------------------------------------------------------------------ *)
Theorem C20_star_copies : forall fuel P w cur t w',
  exec_stmts fuel P w cur [SStar t] = Some w' ->
  (exists m0, wfind w cur = Some m0) ->
  exists w1, import_module (pred fuel) P w t = Some w1 /\
    (wfind w1 t = None -> w' = w1) /\
    forall mt, wfind w1 t = Some mt ->
      exists m1 m', wfind w1 cur = Some m1 /\ wfind w' cur = Some m' /\
        m_all m' = m_all m1 /\ m_done m' = m_done m1 /\
        (forall k v, In k (public_names mt) -> ns_lookup (m_ns mt) k = Some v -> ns_lookup (m_ns m') k = Some v) /\
        (forall k, ~ In k (public_names mt) -> ns_lookup (m_ns m') k = ns_lookup (m_ns m1) k) /\
        (forall q, q <> cur -> wfind w' q = wfind w1 q).
Proof.
  intros fuel P w cur t w' H [m0 Hm0].
  apply exec_stmts_single in H as (f & -> & H). unfold exec_stmt in H.
  apply obind_some in H as (w1 & H1 & H). exists w1. split; [exact H1|]. split.
  - intros E. rewrite E in H. inversion H; reflexivity.
  - intros mt Hmt. rewrite Hmt in H. inversion H; subst w'; clear H.
    destruct (import_wle _ _ _ _ _ H1 _ _ Hm0) as (m1 & Hm1 & _).
    destruct (star_fold_spec cur mt w1 m1 Hm1) as (m' & Hm' & Ha & Hd & Hc & Hn & Ho).
    exists m1, m'. repeat split; auto.
Qed.

(* The statement first proposed for this property claimed `exists w1 mt, import_module (pred fuel) P w t = Some w1 /\
   wfind w1 t = Some mt /\ ...` under the hypothesis `cur <> t` only.  That is false of the model when t is an
   external module (typing, enum, ...): such a module is opaque and never enters sys.modules. *)
Example C20_star_copies_refuted :
  let P : program := [] in let w : world := [("c", mkM [] None false)] in
  exec_stmts 3 P w "c" [SStar "typing"] = Some w /\ (exists m0, wfind w "c" = Some m0) /\ "c" <> "typing" /\
  forall w1 mt, import_module (pred 3) P w "typing" = Some w1 -> wfind w1 "typing" = Some mt -> False.
Proof.
  cbv zeta. split; [vm_compute; reflexivity|]. split; [eexists; vm_compute; reflexivity|]. split; [discriminate|].
  intros w1 mt H1 H2. vm_compute in H1. inversion H1; subst w1. vm_compute in H2. discriminate.
Qed.

(* the strongest true variant of that shape: the target is one of the program's modules (then it is in sys.modules
   after the import); `cur <> t` is not needed *)
Theorem C20_star_copies_partial : forall fuel P w cur t w',
  exec_stmts fuel P w cur [SStar t] = Some w' ->
  (exists m0, wfind w cur = Some m0) -> is_internal P t = true ->
  exists w1 mt, import_module (pred fuel) P w t = Some w1 /\ wfind w1 t = Some mt /\
    forall k v, In k (public_names mt) -> ns_lookup (m_ns mt) k = Some v ->
                exists m, wfind w' cur = Some m /\ ns_lookup (m_ns m) k = Some v.
Proof.
  intros fuel P w cur t w' H Hm0 Hint.
  destruct (C20_star_copies _ _ _ _ _ _ H Hm0) as (w1 & H1 & _ & Hc).
  destruct (import_registers _ _ _ _ _ H1 Hint) as (mt & Hmt).
  exists w1, mt. split; [exact H1|]. split; [exact Hmt|].
  destruct (Hc _ Hmt) as (m1 & m' & _ & Hm' & _ & _ & Hcopy & _).
  intros k v Hk Hv. exists m'. split; auto.
Qed.

(* ------------------------------------------------------------------------------------------ *)
(* 4. a definition is bound to itself                                                            *)
(* ------------------------------------------------------------------------------------------ *)
Theorem C20_def_binds : forall fuel P w cur n w',
  exec_stmts fuel P w cur [SDef n] = Some w' -> (exists m0, wfind w cur = Some m0) ->
  exists m, wfind w' cur = Some m /\ ns_lookup (m_ns m) n = Some (ODef cur n).
Proof.
  intros fuel P w cur n w' H [m0 Hm0].
  apply exec_stmts_single in H as (f & -> & H). unfold exec_stmt in H. inversion H; subst w'.
  eexists. split; [apply wfind_bind_same; exact Hm0|]. simpl. apply ns_lookup_snoc_same.
Qed.

(* ------------------------------------------------------------------------------------------ *)
(* 5. first-import independence: a dotted module imports its parent package first                *)
(* ------------------------------------------------------------------------------------------ *)
Theorem C20_parent_registered : forall fuel P w p w',
  import_module fuel P w p = Some w' -> wfind w p = None -> is_internal P p = true ->
  parent_of p <> EmptyString -> is_internal P (parent_of p) = true ->
  exists m, wfind w' (parent_of p) = Some m.
Proof.
  intros fuel P w p w' H Hn Hint Hpar Hpint.
  destruct fuel as [|f]; [rewrite import_module_0 in H; discriminate|].
  rewrite import_module_S in H.
  apply import_step_inv in H as [[-> Hs] | (body & w1 & _ & Hp & Himp & Hrest)].
  { destruct Hs as [Hs|Hs]; [contradiction|]. unfold is_internal in Hint. rewrite Hs in Hint. discriminate. }
  destruct (String.eqb (parent_of p) "") eqn:E; [apply String.eqb_eq in E; contradiction|].
  destruct (import_registers _ _ _ _ _ Himp Hpint) as (m1 & Hm1).
  destruct Hrest as [[-> _] | (Hn1 & w3 & He & ->)]; [eauto|].
  assert (L : wle w1 (finish p w3)).
  { eapply wle_trans; [apply wle_wset_new; exact Hn1|].
    eapply wle_trans; [eapply exec_wle; exact He | apply wle_finish]. }
  destruct (L _ _ Hm1) as (m' & Hm' & _). eauto.
Qed.

(* in a fresh interpreter every module an import leaves in sys.modules is completely initialised *)
Theorem C20_fresh_import_all_done : forall fuel P p w' q m,
  import_module fuel P [] p = Some w' -> wfind w' q = Some m -> m_done m = true.
Proof.
  intros fuel P p w' q m H Hq.
  destruct (new_all P (fun _ _ => True)) with (fuel := fuel) as [Hi _]; auto.
  destruct (Hi _ _ _ H q eq_refl _ Hq) as [Hd _]. exact Hd.
Qed.

Theorem C20_parent_first : forall fuel P p w',
  import_module fuel P [] p = Some w' -> is_internal P p = true ->
  parent_of p <> EmptyString -> is_internal P (parent_of p) = true ->
  exists m, wfind w' (parent_of p) = Some m /\ m_done m = true.
Proof.
  intros fuel P p w' H Hint Hpar Hpint.
  destruct (C20_parent_registered _ _ _ _ _ H eq_refl Hint Hpar Hpint) as (m & Hm).
  exists m. split; [exact Hm|]. eapply C20_fresh_import_all_done; eauto.
Qed.

(* ------------------------------------------------------------------------------------------ *)
(* 6. the end-to-end statement for the fix in the source: in a fresh interpreter, whatever module  *)
(*    is imported first, every package whose body ENDS with the re-binding loop has each of the    *)
(*    listed names bound to its own submodule of that name - and nothing run afterwards           *)
(*    (other modules' bodies, later imports) can change that.                                      *)
(* ------------------------------------------------------------------------------------------ *)
Definition rebind_post (P : program) (q : string) (ns : list (string * obj)) : Prop :=
  forall pre names, pfind P q = Some (pre ++ [SRebind names]) ->
  forall n, In n names -> ns_lookup ns n = Some (OMod (q ++ "." ++ n)).

Lemma rebind_post_stable P q ns l :
  rebind_post P q ns -> Forall (child_binding q) l -> rebind_post P q (ns ++ l).
Proof. intros H F pre names Hp n Hn. apply lookup_child_ext_stable; eauto. Qed.

Lemma rebind_post_body P fuel w q body w' m :
  pfind P q = Some body -> wfind w q = Some fresh_mod ->
  exec_stmts fuel P w q body = Some w' -> wfind w' q = Some m -> rebind_post P q (m_ns m).
Proof.
  intros Hp Hw He Hm pre names Hp' n Hn. rewrite Hp in Hp'. inversion Hp'; subst body.
  destruct (C20_rebind_last_wins _ _ _ _ _ _ _ He (ex_intro _ _ Hw) n Hn) as (m' & Hm' & Hl). congruence.
Qed.

Theorem C20_fresh_run_all_done : forall fuel P first w q m,
  fresh_run fuel P first = Some w -> wfind w q = Some m -> m_done m = true.
Proof.
  intros fuel P first w q m H Hq.
  destruct (fresh_run_post P (fun _ _ => True)) with (fuel := fuel) (first := first) (w := w) (q := q) (m := m); auto.
Qed.

Theorem C20_own_submodules : forall fuel P first w,
  fresh_run fuel P first = Some w ->
  forall q pre names m, pfind P q = Some (pre ++ [SRebind names]) -> wfind w q = Some m ->
  forall n, In n names -> ns_lookup (m_ns m) n = Some (OMod (q ++ "." ++ n)).
Proof.
  intros fuel P first w H q pre names m Hp Hq n Hn.
  destruct (fresh_run_post P (rebind_post P) (rebind_post_stable P) (rebind_post_body P) _ _ _ H _ _ Hq) as [_ HQ].
  eapply HQ; eauto.
Qed.

(* the same for any single import into a fresh interpreter *)
Theorem C20_own_submodules_import : forall fuel P p w,
  import_module fuel P [] p = Some w ->
  forall q pre names m, pfind P q = Some (pre ++ [SRebind names]) -> wfind w q = Some m ->
  forall n, In n names -> ns_lookup (m_ns m) n = Some (OMod (q ++ "." ++ n)).
Proof.
  intros fuel P p w H q pre names m Hp Hq n Hn.
  destruct (new_all P (rebind_post P) (rebind_post_stable P) (rebind_post_body P) fuel) as [Hi _].
  destruct (Hi _ _ _ H q eq_refl _ Hq) as [_ HQ]. eapply HQ; eauto.
Qed.

(* attribute access along a dotted path all of whose packages end with the loop *)
Fixpoint rebind_chain (P : program) (w : world) (q : string) (parts : list string) : Prop :=
  match parts with
  | [] => True
  | n :: t => (exists pre names, pfind P q = Some (pre ++ [SRebind names]) /\ In n names) /\
              wfind w (q ++ "." ++ n) <> None /\ rebind_chain P w (q ++ "." ++ n) t
  end.
Fixpoint path_of (q : string) (parts : list string) : string :=
  match parts with [] => q | n :: t => path_of (q ++ "." ++ n) t end.

Theorem C20_getattr_chain : forall fuel P first w,
  fresh_run fuel P first = Some w ->
  forall parts q, wfind w q <> None -> rebind_chain P w q parts ->
  resolve_parts w (OMod q) parts = Some (OMod (path_of q parts)).
Proof.
  intros fuel P first w H parts. induction parts as [|n t IH]; intros q Hq Hc; simpl.
  - reflexivity.
  - destruct Hc as ((pre & names & Hp & Hn) & Hreg & Hc).
    destruct (wfind w q) as [m|] eqn:E; [|contradiction].
    rewrite (C20_own_submodules _ _ _ _ H _ _ _ _ Hp E _ Hn). apply IH; auto.
Qed.

Print Assumptions C20_fuel_monotone.
Print Assumptions C20_exec_fuel_monotone.
Print Assumptions C20_fresh_run_fuel_monotone.
Print Assumptions C20_import_idempotent.
Print Assumptions C20_import_registers.
Print Assumptions C20_modules_persist.
Print Assumptions C20_modules_persist_exec.
Print Assumptions C20_frame.
Print Assumptions C20_frame_exec.
Print Assumptions C20_rebind_binds.
Print Assumptions C20_rebind_only_appends.
Print Assumptions C20_rebind_last_wins.
Print Assumptions C20_star_copies.
Print Assumptions C20_star_copies_partial.
Print Assumptions C20_star_copies_refuted.
Print Assumptions C20_def_binds.
Print Assumptions C20_parent_registered.
Print Assumptions C20_fresh_import_all_done.
Print Assumptions C20_parent_first.
Print Assumptions C20_fresh_run_all_done.
Print Assumptions C20_own_submodules.
Print Assumptions C20_own_submodules_import.
Print Assumptions C20_getattr_chain.

(* ------------------------------------------------------------------------------------------ *)
(* 7. a miniature of the eolib package, by computation                                           *)
(* ------------------------------------------------------------------------------------------ *)
Definition mini (top_rebind : bool) : program :=
  [ ("eolib", [SStar "eolib.data"; SStar "eolib.packet"; SStar "eolib.protocol"]
              ++ (if top_rebind then [SRebind ["data"; "packet"; "protocol"]] else []));
    ("eolib.data", [SStar "eolib.data.eo_reader"]);
    ("eolib.data.eo_reader", [SDef "EoReader"]);
    ("eolib.packet", [SStar "eolib.packet.seq"]);
    ("eolib.packet.seq", [SDef "Sequencer"]);
    ("eolib.protocol", [SStar "eolib.protocol.net"; SRebind ["net"]]);
    ("eolib.protocol.net", [SStar "eolib.protocol.net.packet"; SRebind ["packet"]]);
    ("eolib.protocol.net.packet", [SFrom "eolib.data.eo_reader" [("EoReader", "EoReader")]; SDef "Packet"]) ].

Definition mini_paths : list string := map fst (mini true).
Definition mini_fuel : nat := 40.

Definition is_nil {A} (l : list A) : bool := match l with [] => true | _ => false end.
Definition on_run (top_rebind : bool) (first : string) (chk : world -> bool) : bool :=
  match fresh_run mini_fuel (mini top_rebind) first with Some w => chk w | None => false end.

(* every run completes and leaves all 8 modules in sys.modules *)
Example mini_runs_complete :
  forallb (fun first => on_run true first (fun w => Nat.eqb (List.length w) 8)) mini_paths = true.
Proof. vm_compute. reflexivity. Qed.

(* with the loops: every module is what its dotted path resolves to, whatever is imported first *)
Example mini_paths_ok :
  forallb (fun first => on_run true first (fun w => is_nil (paths_ok w))) mini_paths = true.
Proof. vm_compute. reflexivity. Qed.

Example mini_resolve_all :
  forallb (fun first => on_run true first (fun w =>
    forallb (fun p => match resolve_path w p with Some o => obj_eqb o (OMod p) | None => false end) mini_paths))
    mini_paths = true.
Proof. vm_compute. reflexivity. Qed.

(* every public name is the very object its home module defines: in the home module, in the home subpackage, in every
   package above it and in the top-level package *)
Definition mini_names : list (string * string * string) :=
  [ ("eolib.data.eo_reader", "eolib.data.eo_reader", "EoReader");
    ("eolib.data", "eolib.data.eo_reader", "EoReader");
    ("eolib", "eolib.data.eo_reader", "EoReader");
    ("eolib.packet.seq", "eolib.packet.seq", "Sequencer");
    ("eolib.packet", "eolib.packet.seq", "Sequencer");
    ("eolib", "eolib.packet.seq", "Sequencer");
    ("eolib.protocol.net.packet", "eolib.protocol.net.packet", "Packet");
    ("eolib.protocol.net", "eolib.protocol.net.packet", "Packet");
    ("eolib.protocol", "eolib.protocol.net.packet", "Packet");
    ("eolib", "eolib.protocol.net.packet", "Packet");
    (* the re-exported import of EoReader in eolib.protocol.net.packet is the same object too *)
    ("eolib.protocol.net.packet", "eolib.data.eo_reader", "EoReader");
    ("eolib.protocol.net", "eolib.data.eo_reader", "EoReader");
    ("eolib.protocol", "eolib.data.eo_reader", "EoReader") ].

Example mini_names_ok :
  forallb (fun first => on_run true first (fun w =>
    forallb (fun t => let '(pkg, home, name) := t in name_ok w pkg home name) mini_names)) mini_paths = true.
Proof. vm_compute. reflexivity. Qed.

(* the result does not depend on which module is imported first *)
Example mini_first_import_independent :
  forallb (fun first => match fresh_run mini_fuel (mini true) first, fresh_run mini_fuel (mini true) "eolib" with
                        | Some w, Some w0 =>
                          forallb (fun p => match wfind w p, wfind w0 p with
                                            | Some m, Some m0 =>
                                              forallb (fun k => match ns_lookup (m_ns m) k, ns_lookup (m_ns m0) k with
                                                                | Some a, Some b => obj_eqb a b | None, None => true | _, _ => false end)
                                                      (map fst (m_ns m) ++ map fst (m_ns m0))
                                            | _, _ => false end) mini_paths
                        | _, _ => false end) mini_paths = true.
Proof. vm_compute. reflexivity. Qed.

(* WITHOUT the loop in the top-level package (the defect): eolib.packet is the module eolib.protocol.net.packet,
   for every first import; eolib.packet and eolib.packet.seq are the paths that do not resolve to their module;
   the names themselves are still fine *)
Example mini_defect_packet_shadowed :
  forallb (fun first => on_run false first (fun w =>
    match resolve_path w "eolib.packet" with
    | Some o => obj_eqb o (OMod "eolib.protocol.net.packet") | None => false end)) mini_paths = true.
Proof. vm_compute. reflexivity. Qed.

Example mini_defect_paths :
  forallb (fun first => on_run false first (fun w =>
    match paths_ok w with
    | [a; b] => String.eqb a "eolib.packet" && String.eqb b "eolib.packet.seq"
    | _ => false end)) mini_paths = true.
Proof. vm_compute. reflexivity. Qed.

Example mini_defect_names_still_ok :
  forallb (fun first => on_run false first (fun w =>
    forallb (fun t => let '(pkg, home, name) := t in name_ok w pkg home name) mini_names)) mini_paths = true.
Proof. vm_compute. reflexivity. Qed.

(* the general theorem instantiated: eolib's three subpackages, without computing the run *)
Example mini_own_submodules_by_theorem : forall fuel first w m,
  fresh_run fuel (mini true) first = Some w -> wfind w "eolib" = Some m ->
  ns_lookup (m_ns m) "data" = Some (OMod "eolib.data") /\
  ns_lookup (m_ns m) "packet" = Some (OMod "eolib.packet") /\
  ns_lookup (m_ns m) "protocol" = Some (OMod "eolib.protocol").
Proof.
  intros fuel first w m H Hm.
  pose proof (C20_own_submodules _ _ _ _ H "eolib"
                [SStar "eolib.data"; SStar "eolib.packet"; SStar "eolib.protocol"]
                ["data"; "packet"; "protocol"] m eq_refl Hm) as Hall.
  repeat split; apply Hall; simpl; auto.
Qed.
