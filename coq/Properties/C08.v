(* C08 - EO string encoding is length-preserving, self-inverse and break-safe (all byte lists). *)
From EO Require Import Prelude.Py Model.StringEnc Proofs.StringEnc.
Open Scope Z_scope.

Theorem C08_length : forall l, length (encode_string l) = length l /\ length (decode_string l) = length l.
Proof. intros l. split; [apply encode_length | apply decode_length]. Qed.

(* both compositions return the original at every position whose byte is not 0x7E *)
Theorem C08_roundtrip_pos : forall l i d, (i < length l)%nat -> nth i l d <> 126 ->
  nth i (decode_string (encode_string l)) d = nth i l d /\
  nth i (encode_string (decode_string l)) d = nth i l d.
Proof. intros l i d Hi Hn. split; [apply decode_encode_pos | apply encode_decode_pos]; assumption. Qed.

Theorem C08_roundtrip_no_tilde : forall l, ~ In 126 l ->
  decode_string (encode_string l) = l.
Proof.
  intros l H. rewrite decode_encode_invert. unfold invert. apply rev_invert_from_twice. exact H.
Qed.

(* 0x7E really is lost (so the exclusion above is necessary): non-vacuity *)
Example C08_tilde_lost : decode_string (encode_string [126]) <> [126] /\ decode_string (encode_string [65; 126]) <> [65; 126].
Proof. split; vm_compute; discriminate. Qed.

(* byte order reversed; every output byte is the per-byte reflection of the mirrored input byte *)
Theorem C08_shape : forall l i d, (i < length l)%nat ->
  exists f g,
    nth i (encode_string l) d = inv_byte f (nth (length l - S i) l d) /\
    nth i (decode_string l) d = inv_byte g (nth (length l - S i) l d).
Proof. intros l i d Hi. eexists; eexists; split; [apply encode_shape | apply decode_shape]; exact Hi. Qed.

(* the per-byte map leaves everything outside 0x22..0x7E untouched and maps 0x22..0x7E into 0x21..0x7D *)
Theorem C08_byte_map : forall f c,
  (c < 34 \/ 126 < c -> inv_byte f c = c) /\ (34 <= c <= 126 -> 33 <= inv_byte f c <= 125).
Proof. intros f c. split; [apply inv_byte_outside | apply inv_byte_inside]. Qed.

(* hence no 0x00 / 0xFF byte is ever created or destroyed, in either direction *)
Theorem C08_break_safe : forall l i d b, (b = 0 \/ b = 255) -> (i < length l)%nat ->
  (nth i (encode_string l) d = b <-> nth (length l - S i) l d = b) /\
  (nth i (decode_string l) d = b <-> nth (length l - S i) l d = b).
Proof.
  intros l i d b Hb Hi. split.
  - rewrite encode_shape by exact Hi. apply inv_byte_break_safe. exact Hb.
  - rewrite decode_shape by exact Hi. apply inv_byte_break_safe. exact Hb.
Qed.

(* the "Hello, World!" vector of the existing tests *)
Example C08_vector :
  encode_string [72;101;108;108;111;44;32;87;111;114;108;100;33] = [33;59;97;45;94;72;32;115;94;51;97;58;41] /\
  decode_string [33;59;97;45;94;72;32;115;94;51;97;58;41] = [72;101;108;108;111;44;32;87;111;114;108;100;33].
Proof. split; vm_compute; reflexivity. Qed.

Print Assumptions C08_length.
Print Assumptions C08_roundtrip_pos.
Print Assumptions C08_roundtrip_no_tilde.
Print Assumptions C08_shape.
Print Assumptions C08_byte_map.
Print Assumptions C08_break_safe.
