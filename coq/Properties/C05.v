(* C05 - EoReader: the code model R (cached _next_break) refines the documented chunked-reading model A;
   invariants and read/next_chunk/slice laws of A. *)
From EO Require Import Prelude.Py Model.Number Model.StringEnc Model.Cp1252 Model.Reader Model.ReaderSpec Proofs.Reader.
Open Scope Z_scope.
Set Default Timeout 60.

(* R refines A: step-wise simulation (so any adaptive client sees the same outputs) *)
Definition sim (r : rstate) (a : astate) : Prop :=
  rdata r = adata a /\ rpos r = apos a /\ rchunked r = achunked a /\ rcstart r = acstart a /\
  (rbrk r = find_break (rdata r) (rcstart r) \/ (rbrk r = -1 /\ rchunked r = false)).
Definition sim_opt (x : option rstate) (y : option astate) : Prop :=
  match x, y with Some r, Some a => sim r a | None, None => True | _, _ => False end.

Theorem C05_sim_init : forall d, sim (initR d) (initA d).
Proof. intros d. apply rsim_init. Qed.

Theorem C05_sim_step : forall r a o, sim r a ->
  let '(r', out, nr) := rstep r o in let '(a', out', na) := astep a o in
  out = out' /\ sim r' a' /\ sim_opt nr na.
Proof. intros r a o H. exact (rsim_step r a o H). Qed.

Theorem C05_refines : forall d ops, snd (rrun [initR d] ops) = snd (arun [initA d] ops).
Proof. intros d ops. apply (rsim_run ops). constructor; [apply rsim_init | constructor]. Qed.
(* strengthening: the final pools are pointwise related as well *)
Theorem C05_refines_pools : forall d ops, Forall2 sim (fst (rrun [initR d] ops)) (fst (arun [initA d] ops)).
Proof. intros d ops. apply (rsim_run ops). constructor; [apply rsim_init | constructor]. Qed.

(* invariants of the documented model, for every reachable state *)
Definition op_nonneg (o : rop) : Prop := match o with RBytes n => 0 <= n | _ => True end.
Definition ainv (a : astate) : Prop := 0 <= acstart a <= apos a /\ apos a <= zlen (adata a).

Theorem C05_inv_init : forall d, ainv (initA d).
Proof. intros d. apply a_inv_init. Qed.

(* PARTIAL: the original conjunct `apos a <= apos a'` is FALSE for next_chunk (see C05_position_not_monotone below):
   next_chunk jumps to just past the chunk end even when the position is already further (reachable by over-reading
   in unchunked mode, then switching to chunked mode).  Strongest true variant: position monotonicity holds
   EXACTLY when the op is not a successful next_chunk from more than one byte past the chunk end.
   (op_nonneg is not needed.) *)
Theorem C05_inv_step : forall a o, ainv a ->
  let '(a', _, na) := astep a o in
  ainv a' /\ adata a' = adata a /\
  (apos a <= apos a' <-> (o = RNextChunk -> achunked a = true -> apos a <= chunk_end a + 1)) /\
  (forall n, na = Some n -> ainv n).
Proof.
  intros a o H. pose proof (a_inv_step a o H) as S.
  destruct (astep a o) as [[a' out] na]. exact S.
Qed.

Example C05_position_not_monotone :
  let a := mkA [1;255;2;3;255;4] 4 true 0 in
  op_nonneg RNextChunk /\ ainv a /\ astep a RNextChunk = (mkA [1;255;2;3;255;4] 2 true 2, OUnit, None) /\
  fst (arun [initA [1;255;2;3;255;4]] [(0%nat, RBytes 4); (0%nat, RSetChunked true)]) = [a] /\
  ~ (let '(a', _, na) := astep a RNextChunk in
     ainv a' /\ adata a' = adata a /\ apos a <= apos a' /\ (forall n, na = Some n -> ainv n)).
Proof.
  cbv zeta. split; [exact I|]. split; [unfold ainv; cbn [adata apos acstart]; change (zlen [1;255;2;3;255;4]) with 6; lia|].
  split; [vm_compute; reflexivity|]. split; [vm_compute; reflexivity|].
  intros Hc. change (astep (mkA [1;255;2;3;255;4] 4 true 0) RNextChunk) with (mkA [1;255;2;3;255;4] 2 true 2, OUnit, @None astate) in Hc.
  destruct Hc as [_ [_ [L _]]]. cbn [apos] in L. lia.
Qed.

Theorem C05_reachable : forall d ops, Forall (fun ho => op_nonneg (snd ho)) ops -> Forall ainv (fst (arun [initA d] ops)).
Proof. intros d ops _. apply a_inv_run. constructor; [apply a_inv_init | constructor]. Qed.

Theorem C05_remaining_nonneg : forall a, ainv a -> 0 <= a_remaining a.
Proof. intros a H. apply a_remaining_nonneg. exact H. Qed.

(* the current chunk ends at the first 0xFF at or after its start *)
Theorem C05_chunk_end : forall a, ainv a ->
  acstart a <= chunk_end a <= zlen (adata a) /\
  (forall i, acstart a <= i < chunk_end a -> zget (adata a) i <> 255) /\
  (chunk_end a < zlen (adata a) -> zget (adata a) (chunk_end a) = 255).
Proof.
  intros a H. split; [apply chunk_end_bounds; exact H|].
  split; [intros i Hi; apply chunk_end_no_ff; assumption | apply chunk_end_at; exact H].
Qed.

(* every read returns exactly data[pos, pos') and never passes the chunk end (chunked) / the end of data *)
Theorem C05_read_bounded : forall a n, ainv a -> 0 <= n ->
  let '(a', bs) := a_read a n in
  bs = slice (adata a) (apos a) (apos a') /\ zlen bs = apos a' - apos a /\ apos a' - apos a = Z.min n (a_remaining a) /\
  apos a' <= (if achunked a then Z.max (apos a) (chunk_end a) else zlen (adata a)) /\
  (achunked a = true -> Forall (fun b => b <> 255) bs).
Proof. intros a n H Hn. exact (a_read_bounded a n H Hn). Qed.

(* exhausted reads yield 0 / empty and do not move *)
Theorem C05_exhausted : forall a o, a_remaining a = 0 ->
  match o with
  | RByte | RChar | RShort | RThree | RInt => astep a o = (a, OZ 0, None)
  | RBytes n => 0 <= n -> astep a o = (a, OBytes [], None)
  | RString | REnc => astep a o = (a, OStr [], None)
  | RFixed n p | RFixedEnc n p => 0 <= n -> astep a o = (a, OStr [], None)
  | _ => True end.
Proof. intros a o R. exact (astep_exhausted a o R). Qed.

Theorem C05_next_chunk : forall a a', ainv a -> a_next_chunk a = Ok a' ->
  achunked a = true /\ apos a' = (if chunk_end a <? zlen (adata a) then chunk_end a + 1 else chunk_end a) /\
  acstart a' = apos a' /\ achunked a' = true /\ adata a' = adata a.
Proof. intros a a' _ E. exact (a_next_chunk_spec a a' E). Qed.

Theorem C05_next_chunk_not_chunked : forall a, achunked a = false -> a_next_chunk a = Err ERuntime.
Proof. intros a C. apply a_next_chunk_plain. exact C. Qed.

(* slice: an independent reader over exactly the requested clipped sub-range; parent untouched *)
Theorem C05_slice : forall a i n, 0 <= i -> 0 <= n ->
  astep a (RSlice (Some i) (Some n)) = (a, ONew, Some (initA (firstn (Z.to_nat n) (skipn (Z.to_nat i) (adata a))))).
Proof. intros a i n Hi Hn. cbn [astep]. rewrite (a_slice_some a i n Hi Hn). reflexivity. Qed.

Theorem C05_slice_defaults : forall a, ainv a ->
  astep a (RSlice None None) = (a, ONew, Some (initA (skipn (Z.to_nat (apos a)) (adata a)))).
Proof. intros a [H1 H2]. cbn [astep]. rewrite (a_slice_default a) by lia. reflexivity. Qed.

Theorem C05_slice_negative : forall a i n, i < 0 \/ n < 0 -> astep a (RSlice (Some i) (Some n)) = (a, OErr EValue, None).
Proof. intros a i n H. cbn [astep]. rewrite (a_slice_negative a i n H). reflexivity. Qed.

(* ---- concrete histories: R and A agree and behave as documented ---- *)
Definition ex_data : list Z := [1;255;2;3;255;4].
Definition ex_ops : list (nat * rop) :=
  [(0%nat, RSetChunked true); (0%nat, RBytes 5) (* over-read: stops at the break *); (0%nat, RRemaining); (0%nat, RByte); (0%nat, RInt); (0%nat, RString);
   (0%nat, RNextChunk); (0%nat, RPosition); (0%nat, RBytes 1); (0%nat, RSlice None None) (* reader 1 = [3;255;4] *);
   (1%nat, RBytes 10) (* unchunked: reads through the 0xFF *); (0%nat, RString);
   (1%nat, RSlice (Some 1) (Some 5)) (* slice of slice, clipped: reader 2 = [255;4] *);
   (2%nat, RSetChunked true); (2%nat, RRemaining); (2%nat, RNextChunk); (2%nat, RByte);
   (0%nat, RNextChunk); (0%nat, RInt); (0%nat, RNextChunk); (0%nat, RPosition); (0%nat, RRemaining);
   (5%nat, RByte) (* no such reader *); (1%nat, RNextChunk) (* not chunked *);
   (0%nat, RSlice (Some (-1)) (Some 2)); (0%nat, RSlice (Some 2) (Some (-1))); (0%nat, RSlice (Some 9) (Some 3)) (* reader 3 = [] *);
   (3%nat, RRemaining); (0%nat, RFixed (-1) false)].
Definition ex_outs : list rout :=
  [OUnit; OBytes [1]; OZ 0; OZ 0; OZ 0; OStr []; OUnit; OZ 2; OBytes [2]; ONew; OBytes [3;255;4]; OStr [3]; ONew;
   OUnit; OZ 0; OUnit; OZ 4; OUnit; OZ 3; OUnit; OZ 6; OZ 0; OErr EType; OErr ERuntime; OErr EValue; OErr EValue; ONew;
   OZ 0; OErr EValue].

Example C05_history :
  snd (rrun [initR ex_data] ex_ops) = ex_outs /\ snd (arun [initA ex_data] ex_ops) = ex_outs /\
  fst (arun [initA ex_data] ex_ops) = [mkA ex_data 6 true 6; mkA [3;255;4] 3 false 0; mkA [255;4] 2 true 1; mkA [] 0 false 0] /\
  fst (rrun [initR ex_data] ex_ops) = [mkR ex_data 6 true 6 6; mkR [3;255;4] 3 false 0 (-1); mkR [255;4] 2 true 1 2; mkR [] 0 false 0 (-1)].
Proof. vm_compute. repeat split. Qed.

(* over-reading unchunked, then going chunked: both models send next_chunk BACK to just past the first break *)
Example C05_history_backwards :
  let ops := [(0%nat, RBytes 4); (0%nat, RSetChunked true); (0%nat, RRemaining); (0%nat, RNextChunk); (0%nat, RPosition); (0%nat, RBytes 9)] in
  let outs := [OBytes [1;255;2;3]; OUnit; OZ 0; OUnit; OZ 2; OBytes [2;3]] in
  snd (rrun [initR ex_data] ops) = outs /\ snd (arun [initA ex_data] ops) = outs.
Proof. vm_compute. repeat split. Qed.

(* the cache matters: switching modes back and forth never recomputes it, and it stays right *)
Example C05_history_toggle :
  let ops := [(0%nat, RSetChunked true); (0%nat, RNextChunk); (0%nat, RSetChunked false); (0%nat, RBytes 2); (0%nat, RSetChunked true);
              (0%nat, RRemaining); (0%nat, RNextChunk); (0%nat, RRemaining); (0%nat, RByte); (0%nat, RByte)] in
  let outs := [OUnit; OUnit; OUnit; OBytes [2;3]; OUnit; OZ 0; OUnit; OZ 1; OZ 4; OZ 0] in
  snd (rrun [initR ex_data] ops) = outs /\ snd (arun [initA ex_data] ops) = outs.
Proof. vm_compute. repeat split. Qed.

Print Assumptions C05_sim_init.
Print Assumptions C05_sim_step.
Print Assumptions C05_refines.
Print Assumptions C05_refines_pools.
Print Assumptions C05_inv_init.
Print Assumptions C05_inv_step.
Print Assumptions C05_position_not_monotone.
Print Assumptions C05_reachable.
Print Assumptions C05_remaining_nonneg.
Print Assumptions C05_chunk_end.
Print Assumptions C05_read_bounded.
Print Assumptions C05_exhausted.
Print Assumptions C05_next_chunk.
Print Assumptions C05_next_chunk_not_chunked.
Print Assumptions C05_slice.
Print Assumptions C05_slice_defaults.
Print Assumptions C05_slice_negative.
