(* C04 - EoWriter output read back by EoReader returns the values written
   (all valid item lists in which only the last item may read to the end; sanitisation off; non-chunked reader). *)
From EO Require Import Prelude.Py Model.Limits Model.Number Model.StringEnc Model.Cp1252 Model.Writer Model.Reader Model.Items Proofs.Items.
Open Scope Z_scope.
Set Default Timeout 60.

(* the bytes an item occupies: what its write appends to an empty writer *)

(* every valid item is accepted by the writer in either mode and appends exactly item_bytes *)
Theorem C04_write_ok : forall w it, valid it = true ->
  wstep w (write_op it) = (mkW (wdata w ++ item_bytes (wsan w) it) (wsan w), Ok tt).
Proof. intros w it Hv. exact (wstep_valid_wbytes w it Hv). Qed.

(* one item: at a non-chunked reader positioned at the item's bytes, followed by anything
   (nothing, if the item reads to the end) *)
Theorem C04_read_one : forall pre post it, valid it = true -> (trailing it = true -> post = []) ->
  let r := mkR (pre ++ item_bytes false it ++ post) (zlen pre) false 0 (-1) in
  let '(r', out, nr) := read_item r it in
  out = expected it /\ nr = None /\ r' = mkR (rdata r) (zlen pre + zlen (item_bytes false it)) false 0 (-1).
Proof.
  intros pre post it Hv Ht r. subst r. change (item_bytes false it) with (wbytes false it).
  rewrite (read_item_frame_wbytes pre post it Hv Ht). repeat split.
Qed.

(* the property *)
Theorem C04_roundtrip : forall its, forallb valid its = true -> trailing_last its = true ->
  let '(w, rs) := wrun initW (map write_op its) in
  Forall (fun r => r = Ok tt) rs /\
  let '(r, outs) := read_items (initR (wdata w)) its in
  outs = map expected its /\ rpos r = zlen (wdata w) /\ r_remaining r = 0.
Proof. intros its Hv Htl. exact (roundtrip its Hv Htl). Qed.

(* strings come back as their cp1252 image: unencodable code points become '?', nothing else changes *)
Theorem C04_image : forall c,
  cp_image c = (if cp_encodable c then c else 63) /\ (cp_encodable c = true -> cp_image (cp_image c) = c).
Proof. intros c. split; [apply cp_image_spec | apply cp_image_idem]. Qed.

(* the exclusions are necessary (non-vacuity): these are format limits *)
Example C04_tilde_lost :
  snd (read_items (initR (wdata (fst (wrun initW [write_op (IEncStr [126])])))) [IEncStr [126]])
  <> [expected (IEncStr [126])].
Proof. vm_compute. discriminate. Qed.
Example C04_ff_in_padded_lost :
  snd (read_items (initR (wdata (fst (wrun initW [write_op (IPadded [65;255;66] 5)])))) [IPadded [65;255;66] 5])
  <> [expected (IPadded [65;255;66] 5)].
Proof. vm_compute. discriminate. Qed.

(* a concrete packet: integers of every size at boundary values, a fixed string with a code point outside
   windows-1252 (U+263A comes back as '?' = 63), a euro sign (U+20AC, byte 0x80), padded and encoded strings,
   and a trailing plain string *)
Definition C04_items : list item :=
  [IByte 255; IBytes [0; 254; 255]; IChar 252; IShort 253; IShort 64008; IThree 64009; IThree 16194276;
   IInt 16194277; IInt 4097152080; IChar 0;
   IFixed [72; 9786; 8364; 255]; IPadded [72; 105] 5; IPadded [] 2; IEncFixed [72; 101; 108; 108; 111; 9786];
   IEncPadded [87; 111; 114; 108; 100] 8; IStr [98; 121; 101; 126; 255; 9786]].

Example C04_example_bytes :
  wdata (fst (wrun initW (map write_op C04_items))) =
  [255; 0; 254; 255; 253; 1; 2; 253; 253; 1; 1; 2; 253; 253; 253; 1; 1; 1; 2; 253; 253; 253; 253; 1;
   72; 63; 128; 255; 72; 105; 255; 255; 255; 255; 255; 50; 48; 97; 51; 104; 87;
   255; 255; 255; 59; 97; 45; 94; 72; 98; 121; 101; 126; 255; 63].
Proof. vm_compute. reflexivity. Qed.

Example C04_example_roundtrip :
  snd (wrun initW (map write_op C04_items)) = map (fun _ => Ok tt) C04_items /\
  read_items (initR (wdata (fst (wrun initW (map write_op C04_items))))) C04_items =
  (mkR (wdata (fst (wrun initW (map write_op C04_items)))) 55 false 0 (-1),
   [OZ 255; OBytes [0; 254; 255]; OZ 252; OZ 253; OZ 64008; OZ 64009; OZ 16194276; OZ 16194277; OZ 4097152080; OZ 0;
    OStr [72; 63; 8364; 255]; OStr [72; 105]; OStr []; OStr [72; 101; 108; 108; 111; 63];
    OStr [87; 111; 114; 108; 100]; OStr [98; 121; 101; 126; 255; 63]]) /\
  map expected C04_items = snd (read_items (initR (wdata (fst (wrun initW (map write_op C04_items))))) C04_items) /\
  forallb valid C04_items = true /\ trailing_last C04_items = true.
Proof. vm_compute. repeat split. Qed.

(* the same with a trailing encoded string / trailing raw bytes *)
Example C04_example_trailing :
  let its1 := [IInt 12345; IEncStr [72; 105; 33]] in
  let its2 := [IThree 1; IRest [1; 255; 0; 254]] in
  snd (read_items (initR (wdata (fst (wrun initW (map write_op its1))))) its1) = [OZ 12345; OStr [72; 105; 33]] /\
  snd (read_items (initR (wdata (fst (wrun initW (map write_op its2))))) its2) = [OZ 1; OBytes [1; 255; 0; 254]].
Proof. vm_compute. split; reflexivity. Qed.

Print Assumptions C04_write_ok.
Print Assumptions C04_read_one.
Print Assumptions C04_roundtrip.
Print Assumptions C04_image.
Print Assumptions C04_tilde_lost.
Print Assumptions C04_ff_in_padded_lost.
Print Assumptions C04_example_roundtrip.
