(* C12 - Generated sequence starts are always transmittable and reconstructible.
   `draws` is what the random source returns; randrange (Prelude.Py) yields Err EValue exactly when the
   requested range is empty (CPython's ValueError) and Err EDraw when the script does not respect the
   contract a <= r < b (not a behaviour of the code under test). *)
From EO Require Import Prelude.Py Model.Limits Model.SeqStart Proofs.SeqStart.
Open Scope Z_scope.

(* generation never fails, whatever the random source returns: no requested range is ever empty *)
Theorem C12_never_fails : forall draws,
  account_generate draws <> Err EValue /\ init_generate draws <> Err EValue /\ ping_generate draws <> Err EValue.
Proof.
  intros draws. unfold account_generate, init_generate, ping_generate, rbind. repeat split.
  - destruct (randrange 0 240 draws) as [[r d]|e] eqn:E; [discriminate|].
    intros H. injection H as ->. revert E. apply randrange_not_evalue. lia.
  - destruct (randrange 0 1757 draws) as [[v d]|e] eqn:E.
    + apply randrange_ok in E as [Hv _].
      destruct (randrange 0 (seq1_max v - seq1_min v) d) as [[r d']|e] eqn:E2; [discriminate|].
      intros H. injection H as ->. revert E2. apply randrange_not_evalue. apply init_range_nonempty. exact Hv.
    + intros H. injection H as ->. revert E. apply randrange_not_evalue. lia.
  - destruct (randrange 0 1757 draws) as [[v d]|e] eqn:E.
    + destruct (randrange 0 (CHAR_MAX - 1) d) as [[r d']|e] eqn:E2; [discriminate|].
      intros H. injection H as ->. revert E2. apply randrange_not_evalue. unfold CHAR_MAX. lia.
    + intros H. injection H as ->. revert E. apply randrange_not_evalue. lia.
Qed.

(* every INIT outcome: value in range, both wire values fit 0..252, the peer reconstructs the same start *)
Theorem C12_init : forall draws v s1 s2 rest, init_generate draws = Ok ((v, s1, s2), rest) ->
  0 <= v < 1757 /\ 0 <= s1 <= 252 /\ 0 <= s2 <= 252 /\ init_from_init_values s1 s2 = (v, s1, s2).
Proof.
  intros draws v s1 s2 rest. unfold init_generate, rbind.
  destruct (randrange 0 1757 draws) as [[v' d]|e] eqn:E; [|discriminate].
  destruct (randrange 0 (seq1_max v' - seq1_min v') d) as [[r d']|e] eqn:E2; [|discriminate].
  intros H. injection H as <- <- <- <-.
  apply randrange_ok in E as [Hv _]. apply randrange_ok in E2 as [Hr _].
  split; [exact Hv|]. apply (init_components v' r Hv Hr).
Qed.

(* every PING outcome: a short and a char, reconstructible *)
Theorem C12_ping : forall draws v s1 s2 rest, ping_generate draws = Ok ((v, s1, s2), rest) ->
  0 <= v < 1757 /\ 0 <= s1 < 64009 /\ 0 <= s2 < 253 /\ ping_from_ping_values s1 s2 = (v, s1, s2).
Proof.
  intros draws v s1 s2 rest. unfold ping_generate, rbind.
  destruct (randrange 0 1757 draws) as [[v' d]|e] eqn:E; [|discriminate].
  destruct (randrange 0 (CHAR_MAX - 1) d) as [[r d']|e] eqn:E2; [|discriminate].
  intros H. injection H as <- <- <- <-.
  apply randrange_ok in E as [Hv _]. apply randrange_ok in E2 as [Hr _]. unfold CHAR_MAX in Hr.
  unfold ping_from_ping_values. repeat split; try lia. f_equal. f_equal. lia.
Qed.

(* every ACCOUNT_REPLY outcome: one char, reconstructible *)
Theorem C12_account : forall draws v rest, account_generate draws = Ok (v, rest) ->
  0 <= v < 240 /\ v < 253 /\ account_from_value v = v.
Proof.
  intros draws v rest. unfold account_generate, rbind.
  destruct (randrange 0 240 draws) as [[r d]|e] eqn:E; [|discriminate].
  intros H. injection H as <- <-. apply randrange_ok in E as [Hv _]. unfold account_from_value. lia.
Qed.

(* non-vacuity: every contract-respecting draw script does produce an outcome *)
Theorem C12_init_total : forall v r rest, 0 <= v < 1757 -> 0 <= r < seq1_max v - seq1_min v ->
  exists s1 s2, init_generate (v :: r :: rest) = Ok ((v, s1, s2), rest).
Proof.
  intros v r rest Hv Hr. unfold init_generate, rbind.
  rewrite randrange_total by lia. rewrite randrange_total by lia. eexists; eexists; reflexivity.
Qed.
Example C12_init_example : init_generate [1756; 0] = Ok ((1756, 217, 250), []) /\ init_generate [0; 0] = Ok ((0, 0, 13), []).
Proof. split; vm_compute; reflexivity. Qed.

Print Assumptions C12_never_fails.
Print Assumptions C12_init.
Print Assumptions C12_ping.
Print Assumptions C12_account.
Print Assumptions C12_init_total.
