(* C19 / C02 / C03 (the emitted constructors ARE the constructor models) - way 1 for the generated `__init__` methods.
     tools/py2stmt.py (class IParser) parses, generically and fail-closed, the `__init__` method of every generated class from its
   SOURCE TEXT into the term language of Model/RenderInit.v: keyword-only parameters (required, or defaulting to None) and
   assignments `self._x = e` over parameters, `self._y`, literals, tuple(), len(), `is [not] None` and conditional expressions.
   `exec_init` (on values) and `exec_init_h` (on the object / heap model of Model/ObjModel.v) are its interpreters: the trusted reading
   of Python here (keyword binding, TypeError of tuple() / len() / a missing or unknown keyword, `self._x = x` stores the reference,
   tuple(x) builds a new immutable object).  `render_init : list einstr -> option (iparams * list istmt)` is the generator's
   constructor template as a Coq function, and Model/RenderCheckI.v decides (vm_compute, per generated tree, on every run of
   render_stream) that the parsed constructor of every class equals `render_init` of that class's body in `elab tree`.
     The theorems say what such a clean run means for the three constructor models that were trusted before:
     (a) `ctor_slots` (the private slots the serialize theorems of Properties/C02R.v run on): the slots of every instance the
         constructor returns are ctor_slots of its public fields, lookup by lookup;
     (b) `init_model` (the `ctor` of the deserialize theorems of Properties/C03R.v): the constructor returns what init_model says
         wherever init_model does not abstain (Err EUnexpected), in particular on everything `deserialize` passes - so C03's
         program theorem holds with the PARSED constructors in place of init_model, without a hypothesis on `ctor`;
     (c) `ObjModel.construct` / `frozen` (Properties/C19.v): called with arguments as annotated, the constructor returns a frozen
         instance (array parameters end up copied), whose argument slots are those of `construct`.
     Side conditions, all decided by the run: `init_static_ok` (every slot is assigned once; no parameter is called len / tuple; none
   of the 1142 + generated classes of the validation runs falls outside it); for (a) also Proofs/Shaped.body_static (the hypothesis
   `shape_static` of C02_program_is_ser_struct_on_shaped); for (c) ObjModel.args_typed (C19's own hypothesis).
     Where the models and the text differ is recorded in Proofs/RenderInit.v as examples (`ctor_slots_len_of_none_differs`,
   `init_model_abstains_on_*`, `length_slot_overwrites_public_field_differs`, `unrenderable_and_shadowing_names`, `construct_differs`,
   `alias_when_not_annotated`). *)
From EO Require Import Prelude.Py Model.Reader Model.Writer Model.Spec Model.Elab Model.Ser Model.Deser Model.PyStmt Model.PyStmtR
     Model.RenderDeser Model.RenderCheck Model.RenderCheckD Model.ObjModel Model.RenderInit Model.RenderCheckI
     Proofs.RenderSer Proofs.RenderDeser Proofs.Shaped Proofs.RenderInit.
Open Scope Z_scope.

(* what a clean harness verdict on one class gives: the parsed constructor IS the rendered one, inside the static side condition *)
Theorem C19R_checked_class : forall d parsed_init,
  i_render_class d parsed_init = [] -> render_init (sd_body d) = Some parsed_init /\ init_static_ok (sd_body d) = true.
Proof. exact i_render_class_inv. Qed.
Print Assumptions C19R_checked_class.

(* ... and on a whole generated package: every class of the elaborated tree has its parsed constructor, and nothing else is in it *)
Theorem C19R_checked_package : forall files PI p,
  elab files = Ok p -> render_detail_i files PI = [] -> program_ok_i (pk_env p) PI.
Proof. exact render_detail_i_program. Qed.
Print Assumptions C19R_checked_package.

(* the read-only properties of every class, parsed from the text, are `byte_size` -> _byte_size and x -> _x for every constructor
   parameter x: `public_fields` (the fields of the VObj in (a) and (b)) is what those getters read *)
Theorem C19R_checked_properties : forall files PG p,
  elab files = Ok p -> render_detail_g files PG = [] ->
  forall cls d, env_find (pk_env p) cls = Some d -> assoc PG cls = Some (render_getters (sd_body d)).
Proof. exact render_detail_g_program. Qed.
Print Assumptions C19R_checked_properties.
Theorem C19R_public_fields_are_the_getters : forall is ps sl,
  map fst ps = public_names is -> public_fields ps sl = read_getters (tl (render_getters is)) sl.
Proof. exact public_fields_are_the_getters. Qed.
Print Assumptions C19R_public_fields_are_the_getters.

(* ---------------- (a) the private slots are ctor_slots ---------------- *)
Theorem C19R_slots_are_ctor_slots : forall E c d ps ss args sl,
  env_find E c = Some d -> render_init (sd_body d) = Some (ps, ss) ->
  init_static_ok (sd_body d) = true -> body_static (sd_body d) = true ->
  exec_init ps ss args = Ok sl ->
  map fst (public_fields ps sl) = public_names (sd_body d) /\
  forall k, assoc sl k = assoc (ctor_slots E c (public_fields ps sl)) k.
Proof. exact rendered_init_slots_are_ctor_slots. Qed.
Print Assumptions C19R_slots_are_ctor_slots.

(* for arguments that are the public fields of an instance (the call returns the object made of its own arguments) *)
Theorem C19R_slots_of_public_fields : forall E c d ps ss flds,
  env_find E c = Some d -> render_init (sd_body d) = Some (ps, ss) ->
  init_static_ok (sd_body d) = true -> body_static (sd_body d) = true ->
  new_obj c ps ss flds = Ok (VObj c flds) ->
  exists sl, exec_init ps ss flds = Ok sl /\ forall k, assoc sl k = assoc (ctor_slots E c flds) k.
Proof. exact rendered_init_slots_of_public_fields. Qed.
Print Assumptions C19R_slots_of_public_fields.

(* the object `deserialize` builds carries these slots *)
Theorem C19R_init_model_slots : forall E c d ps ss args flds,
  env_find E c = Some d -> render_init (sd_body d) = Some (ps, ss) ->
  init_static_ok (sd_body d) = true -> body_static (sd_body d) = true ->
  init_model c (sd_body d) args = Ok (VObj c flds) ->
  exists sl, exec_init ps ss args = Ok sl /\ forall k, assoc sl k = assoc (ctor_slots E c flds) k.
Proof. exact init_model_slots. Qed.
Print Assumptions C19R_init_model_slots.

(* ... so C02's program theorem holds with the slots the PARSED constructors assign in place of ctor_slots, on every shape-typed
   object the constructors can have built (`built`: called with the object's own public fields the parsed constructor returns that
   object, hereditarily along the calls of the serializer) *)
Theorem C19R_program_is_ser_struct : forall E enums P PI,
  program_ok E enums P -> program_ok_i E PI -> shape_static E = true ->
  forall fuel cls v w, shapedb fuel E cls v = true -> built E PI fuel cls v ->
  py_serialize P (parsed_slots PI) fuel cls v w = ser_struct fuel E cls v w.
Proof. exact py_serialize_i_correct. Qed.
Print Assumptions C19R_program_is_ser_struct.

(* ---------------- (b) the constructed object is init_model ---------------- *)
Theorem C19R_init_is_init_model : forall cls is ps ss args,
  render_init is = Some (ps, ss) -> init_static_ok is = true ->
  init_model cls is args <> Err EUnexpected ->
  new_obj cls ps ss args = init_model cls is args.
Proof. exact rendered_init_is_init_model. Qed.
Print Assumptions C19R_init_is_init_model.

(* keywords in any order, optional parameters left out: the call with the bound parameters *)
Theorem C19R_init_any_keywords : forall cls is ps ss args,
  render_init is = Some (ps, ss) -> init_static_ok is = true ->
  match bind_args VNone ps args with
  | Ok L => map fst L = public_names is /\ (init_model cls is L <> Err EUnexpected -> new_obj cls ps ss args = init_model cls is L)
  | Err e => new_obj cls ps ss args = Err e
  end.
Proof. exact rendered_init_any_keywords. Qed.
Print Assumptions C19R_init_any_keywords.

(* on the arguments the emitted `deserialize` passes, init_model does not abstain *)
Theorem C19R_init_on_deserialize_args : forall cls is ps ss args,
  render_init is = Some (ps, ss) -> init_static_ok is = true ->
  deser_args is args ->
  new_obj cls ps ss args = init_model cls is args.
Proof. exact rendered_init_on_deserialize_args. Qed.
Print Assumptions C19R_init_on_deserialize_args.

(* C03's method theorem needs the constructor only on those arguments ... *)
Theorem C19R_checked_deserialize_class : forall rec ctor enums d parsed_stmts r,
  d_render_class enums d parsed_stmts = [] ->
  ctor_agrees ctor d ->
  dcall rec ctor parsed_stmts r = deser_body rec d r.
Proof. exact checked_class_correct_d_gen. Qed.
Print Assumptions C19R_checked_deserialize_class.

(* ... so the whole call tree - Cls.deserialize of the parsed program, calling itself for nested structs and case data and the PARSED
   constructors for the results - is deser_struct, on every reader state, with no hypothesis left on the constructors *)
Theorem C19R_program_is_deser_struct : forall E enums P PI,
  program_ok_d E enums P -> program_ok_i E PI ->
  forall fuel cls r, py_deserialize_i P PI fuel cls r = deser_struct fuel E cls r.
Proof. exact py_deserialize_i_correct. Qed.
Print Assumptions C19R_program_is_deser_struct.

Theorem C19R_program_is_deserialize : forall E enums P PI cls data (chunked : bool),
  program_ok_d E enums P -> program_ok_i E PI ->
  py_deserialize_i P PI (S (List.length E)) cls (let r := initR data in if chunked then r_set_chunked r true else r)
  = deserialize E cls data chunked.
Proof. exact py_deserialize_i_bytes. Qed.
Print Assumptions C19R_program_is_deserialize.

(* ---------------- (c) array parameters end up copied ---------------- *)
(* the heap-level run, looked at through the references, is the value-level run *)
Theorem C19R_heap_run_erases : forall h ps ss args,
  exec_init ps ss (dm h args) = rmap (dm h) (exec_init_h h ps ss args).
Proof. exact exec_init_h_erases. Qed.
Print Assumptions C19R_heap_run_erases.

Theorem C19R_init_frozen : forall h cls is ps ss args sl,
  render_init is = Some (ps, ss) -> args_typed is args ->
  exec_init_h h ps ss args = Ok sl ->
  frozenb (mkInst cls sl) = true /\ frozen (mkInst cls sl).
Proof. exact rendered_init_frozen. Qed.
Print Assumptions C19R_init_frozen.

Theorem C19R_init_vs_construct : forall h cls is ps ss args sl,
  render_init is = Some (ps, ss) -> init_static_ok is = true -> args_typed is args ->
  exec_init_h h ps ss args = Ok sl ->
  forall n x, assoc args n = Some x -> hardcoded is n = false ->
              (is_array_field is n = true -> (exists l, deref h x = VList l) \/ deref h x = VNone) ->
              assoc sl n = assoc (i_slots (construct is cls h args)) n.
Proof. exact rendered_init_vs_construct. Qed.
Print Assumptions C19R_init_vs_construct.

(* the property itself, for the instance the emitted constructor returns: between any public operations and any caller-side mutations,
   under any heap, every serialization is that of the object built from what the arguments held when the constructor ran *)
Theorem C19R_constructed_snapshot : forall E h h' cls is ps ss args o ops,
  render_init is = Some (ps, ss) -> args_typed is args ->
  new_inst h cls ps ss args = Ok o ->
  exists sl, exec_init ps ss (dm h args) = Ok sl /\
  forall r bs, In (OBytes r bs) (snd (prun E h' o ops)) ->
    (r, bs) = (snd (serialize E cls (VObj cls sl) false), wdata (fst (serialize E cls (VObj cls sl) false))).
Proof. exact rendered_init_snapshot. Qed.
Print Assumptions C19R_constructed_snapshot.

(* the hypotheses are satisfiable: the two-class program of C03R, with its parsed constructors *)
Example C19R_program_nonvacuous : program_ok_d d_demo_env [] d_demo_prog /\ program_ok_i d_demo_env i_demo_prog.
Proof. exact (conj d_demo_program_ok i_demo_program_ok). Qed.
(* ... and the worked object of C02R is built by its parsed constructors *)
Example C19R_built_nonvacuous :
  program_ok demo_env [] demo_prog /\ program_ok_i demo_env s_demo_iprog /\ built demo_env s_demo_iprog 2 "Outer" demo_obj.
Proof. exact (conj demo_program_ok (conj s_demo_program_ok_i (proj1 s_demo_built))). Qed.
