(* C03 (termination) - generated deserializers terminate on every byte string, for every class accepted by the static
   check `progress_okT` (Model/Progress.v): `Err EFuel` - the model's stand-in for "the emitted loop does not finish" -
   is never the outcome, neither from a `while reader.remaining > 0:` loop nor from the struct-depth fuel.

   What `progress_okT E cls chunked` requires, for every class reachable from cls (with the static mode in force there):
   - nothing of delimited implied-length arrays (each iteration ends with next_chunk(), which moves the chunk start
     strictly forward; the chunk start never moves backwards whatever the element does);
   - nothing of counted arrays (`for` loops) and of remaining/size arrays;
   - of a NON-delimited implied-length array: the element type advances, or always breaks.
     * advances (`adv_type`): a basic type / blob; or a struct in which - skipping `ESetMode`s to the mode already in
       force and "plain" instructions (fields, non-delimited arrays, length fields, dummies of non-struct types: if
       they read nothing they change nothing) - one reaches a field (of a basic type, a blob, a string without length
       or of positive literal length, or again an advancing struct), a length field or a dummy; and whose body never
       moves the position backwards: every break / delimited array inside is reached in a state where the position
       is known not to be beyond the cached break (two-point abstract interpretation `an_*`: reads in chunked mode
       keep that, reads in non-chunked mode lose it, next_chunk() re-establishes it).
     * always breaks (`brk_class`): the body contains, at top level, a break or a required field of a struct that
       always breaks - then every iteration moves the chunk start forward, as for delimited arrays (the POSITION
       may move backwards there).
   Refused: elements that switch the mode before their first read and never break (finding F4: that one really loops
   forever); and - although these shapes may terminate - elements without an unconditional top-level break whose first
   consuming read is an array, a switch, or sits behind a struct field / switch / delimited array, or whose body may
   execute a break after a non-chunked read.
   On the 315 trees of the case corpus that elaborate (1608 well-formed top-level classes) the check refuses exactly
   two classes, both F4 shapes on which the model does return Err EFuel. *)
From EO Require Import Prelude.Py Model.Number Model.Reader Model.Spec Model.Ser Model.Deser Model.WfEnv Model.Progress
  Proofs.Reader Proofs.DeserSafe Proofs.Terminate Properties.C03.
Open Scope Z_scope.
Set Default Timeout 60.

(* the core statement needs neither well-formedness nor a separate depth bound: `progress_okT` (computed with the fuel
   `deserialize` uses) already refuses classes nested deeper than that fuel *)
Theorem C03_terminates_core : forall E cls data chunked,
  progress_okT E cls chunked = true ->
  snd (deserialize E cls data chunked) <> Err EFuel.
Proof.
  intros E cls data chunked P. unfold deserialize. cbv zeta.
  set (r0 := if chunked then r_set_chunked (initR data) true else initR data).
  assert (H0 : r_inv r0) by apply r_inv_init_mode.
  assert (M0 : rchunked r0 = chunked) by (unfold r0; destruct chunked; reflexivity).
  apply nf_deser_struct; [rewrite M0; exact P | exact H0].
Qed.

Theorem C03_terminates : forall E cls data chunked,
  wf_class (S (List.length E)) E cls chunked = true -> progress_okT E cls chunked = true ->
  depth_ok E = true ->
  snd (deserialize E cls data chunked) <> Err EFuel.
Proof. intros E cls data chunked _ P _. apply C03_terminates_core. exact P. Qed.

Corollary C03_only_documented_error : forall E cls data chunked e,
  wf_class (S (List.length E)) E cls chunked = true -> progress_okT E cls chunked = true ->
  depth_ok E = true ->
  snd (deserialize E cls data chunked) = Err e -> e = EValue.
Proof.
  intros E cls data chunked e W P D X.
  destruct (C03_deserialize E cls data chunked) as [_ [_ [_ [_ Er]]]].
  destruct (Er W e X) as [->| ->]; [reflexivity|].
  exfalso. apply (C03_terminates E cls data chunked W P D). exact X.
Qed.

(* the loop fact behind the unconditional acceptance of delimited arrays, for any struct deserializer one level down
   that keeps the reader invariant and never moves the chunk start backwards: whatever the elements read, the loop
   finishes within the fuel (unless an element itself does not finish) *)
Theorem C03_delimited_loop_terminates : forall rec ty acc r,
  (forall n r, r_inv r -> keepsC r (fst (rec n r))) -> (forall n r, rchunked (fst (rec n r)) = rchunked r) ->
  (forall n r1, r_inv r1 -> snd (rec n r1) <> Err EFuel) ->
  r_inv r -> snd (deser_while rec ty true (S (List.length (rdata r))) acc r) <> Err EFuel.
Proof.
  intros rec ty acc r HC HM HE H.
  assert (HB : forall n r1, (fun _ : string => false) n = true -> r_inv r1 -> post (csadv r1) (rec n r1)) by (intros n r1 X; discriminate X).
  apply (nf_while_d rec (fun _ _ => true) (fun _ => false) HC HM HB (fun n r1 _ H1 => HE n r1 H1)).
  - destruct ty; reflexivity.
  - exact H.
  - destruct H as [H1 _]. unfold zlen. lia.
Qed.

(* and the invariant it rests on, for the real thing *)
Theorem C03_chunk_start_monotone : forall fuel E cls r, rinv r ->
  rcstart r <= rcstart (fst (deser_struct fuel E cls r)).
Proof. intros fuel E cls r H. apply (keepsC_deser_struct E fuel cls r H). Qed.

(* ---------------- the struct-depth fuel ---------------- *)
(* `depth_ok E` (decidable): every class of E nests at most length E deep - in particular no class contains itself.
   Then the fuel S (length E) that `deserialize`, `wf_class` and `progress_okT` start with is never what decides:
   with any amount of extra fuel the run and the two checks give the same result. *)
Theorem C03_depth_fuel_irrelevant : forall E cls k r, depth_ok E = true ->
  deser_struct (S (List.length E) + k) E cls r = deser_struct (S (List.length E)) E cls r.
Proof. intros E cls k r D. apply deser_struct_fuel_irrelevant. apply depth_ok_class. exact D. Qed.

Theorem C03_checks_fuel_irrelevant : forall E cls k m, depth_ok E = true ->
  wf_class (S (List.length E) + k) E cls m = wf_class (S (List.length E)) E cls m /\
  prog_class (S (List.length E) + k) E cls m = progress_okT E cls m.
Proof.
  intros E cls k m D. pose proof (depth_ok_class E cls D) as DL. split.
  - apply wf_class_fuel_irrelevant. exact DL.
  - apply prog_class_fuel_irrelevant. exact DL.
Qed.

(* so, under depth_ok, termination holds for every larger depth fuel and from every reader state satisfying the invariant *)
Theorem C03_terminates_any_fuel : forall E cls k r, depth_ok E = true ->
  progress_okT E cls (rchunked r) = true -> rinv r ->
  snd (deser_struct (S (List.length E) + k) E cls r) <> Err EFuel.
Proof.
  intros E cls k r D P H. rewrite (C03_depth_fuel_irrelevant E cls k r D). apply nf_deser_struct; [exact P | exact H].
Qed.

(* the checks are boolean functions, hence decidable *)
Definition C03_progress_dec E cls m : {progress_okT E cls m = true} + {progress_okT E cls m <> true} :=
  Bool.bool_dec (progress_okT E cls m) true.
Definition C03_depth_dec E : {depth_ok E = true} + {depth_ok E <> true} := Bool.bool_dec (depth_ok E) true.

(* ---------------- concrete classes ---------------- *)
Open Scope string_scope. Open Scope Z_scope.
Definition arr (n : string) (ty : etype) (delimited : bool) : einstr := EArray (fld n ty LNone false) delimited false ACWhile.

(* a struct that opens with a chunked section *)
Definition ChElem : sdef := mkSDef "ChElem" [ESetMode true; EField (fld "s" (EStr false) LNone false); ESetMode false].
(* F4: a non-delimited implied-length array of it, in a non-chunked parent *)
Definition F4Parent : sdef := mkSDef "F4Parent" [arr "items" (EStruct "ChElem") false].
(* an element whose consuming read comes after instructions that may read nothing (a zero-length array, an optional) *)
Definition Late : sdef := mkSDef "Late"
  [EArray (fld "z" (EInt TShort) (LLit 0) false) false false ACExpr; EField (fld "k" (EInt TChar) LNone false);
   EField (fld "o" (EInt TChar) LNone true)].
Definition Lates : sdef := mkSDef "Lates" [arr "ls" (EStruct "Late") false].
(* the same array inside a chunked section of the parent is fine *)
Definition ChParent : sdef := mkSDef "ChParent" [ESetMode true; arr "items" (EStruct "ChElem") false; ESetMode false].
(* a struct starting with a length-prefixed string *)
Definition LP : sdef := mkSDef "LP" [ELength "n" TChar 0 false true (Some "s"); EField (fld "s" (EStr false) (LRef "n") false)].
Definition Item : sdef := mkSDef "Item" [EField (fld "k" (EInt TChar) LNone false); EField (fld "name" (EStr false) LNone false)].
(* delimited arrays: of strings, of structs *)
Definition Names : sdef := mkSDef "Names" [ESetMode true; arr "names" (EStr false) true; ESetMode false].
Definition Items : sdef := mkSDef "Items" [ESetMode true; arr "items" (EStruct "Item") true; ESetMode false].
(* non-delimited implied-length arrays of LP: outside a chunked section, and inside one (followed by a break and a tail) *)
Definition LPsPlain : sdef := mkSDef "LPsPlain" [arr "xs" (EStruct "LP") false].
Definition LPsChunked : sdef := mkSDef "LPsChunked"
  [ESetMode true; arr "xs" (EStruct "LP") false; EBreak; EField (fld "t" (EInt TChar) LNone false); ESetMode false].
(* an element with a break inside: accepted in a chunked section (the state is tight there) *)
Definition Brk : sdef := mkSDef "Brk" [EField (fld "k" (EInt TChar) LNone false); EBreak; EField (fld "name" (EStr false) LNone false)].
Definition Brks : sdef := mkSDef "Brks" [ESetMode true; arr "bs" (EStruct "Brk") false; ESetMode false].
(* an element that reads non-chunked, then opens a chunked section with a break in it: next_chunk() may move the
   POSITION backwards there (so the element does not "advance"), but every iteration calls next_chunk(), which moves
   the CHUNK START forward: accepted as "always breaks" *)
Definition Back : sdef := mkSDef "Back"
  [EField (fld "k" (EInt TShort) LNone false); ESetMode true; EField (fld "a" (EStr false) LNone false); EBreak;
   EField (fld "b" (EStr false) LNone false); ESetMode false].
Definition Backs : sdef := mkSDef "Backs" [arr "bs" (EStruct "Back") false].
Definition TEnv : env := [ChElem; F4Parent; ChParent; LP; Item; Names; Items; LPsPlain; LPsChunked; Brk; Brks; Back; Backs; Late; Lates].

Example C03_F4_not_progress_ok :
  progress_okT TEnv "F4Parent" false = false /\
  wf_class (S (List.length TEnv)) TEnv "F4Parent" false = true /\ depth_ok TEnv = true /\
  snd (deserialize TEnv "F4Parent" [2; 255; 1] false) = Err EFuel /\
  snd (deserialize TEnv "F4Parent" [255; 1] false) = Err EFuel.
Proof. vm_compute. repeat split; reflexivity. Qed.

Example C03_progress_examples :
  forallb (fun n => progress_okT TEnv n false && progress_okT TEnv n true && wf_class (S (List.length TEnv)) TEnv n false)
    ["Names"; "Items"; "LPsPlain"; "LPsChunked"; "ChParent"; "Brks"; "Backs"; "Lates"] = true /\
  (* F4's parent is fine when it is itself entered chunked *)
  progress_okT TEnv "F4Parent" true = true.
Proof. vm_compute. repeat split; reflexivity. Qed.

(* the accepted ones on some bytes (hostile or not): they finish *)
Example C03_progress_runs :
  snd (deserialize TEnv "ChParent" [2; 255; 1] false)
    = Ok (VObj "ChParent" [("items", VList [VObj "ChElem" [("s", VStr [2]); ("byte_size", VInt 1)]]); ("byte_size", VInt 1)]) /\
  snd (deserialize TEnv "LPsChunked" [3; 65; 66; 2; 67; 255; 9] false)
    = Ok (VObj "LPsChunked" [("xs", VList [VObj "LP" [("s", VStr [65; 66]); ("byte_size", VInt 3)];
                                           VObj "LP" [("s", VStr [67]); ("byte_size", VInt 2)]]);
                             ("t", VInt 8); ("byte_size", VInt 7)]) /\
  forallb (fun n => forallb (fun d => match snd (deserialize TEnv n d false) with Err EFuel => false | _ => true end)
                      [[]; [255]; [255; 255; 255]; [2; 255; 1]; [1; 255; 255; 7; 8; 255]; [9; 9; 9; 9; 9; 9; 9];
                       [255; 255; 1; 2; 3; 4; 5; 255; 6]])
    ["Names"; "Items"; "LPsPlain"; "LPsChunked"; "ChParent"; "Brks"; "Backs"; "Lates"] = true /\
  (* in "Back" the position does move backwards: 2 bytes are read, then next_chunk() from chunk start 0 lands on 1 *)
  (let r := fst (deser_instrs (deser_struct 3 TEnv) 0 (firstn 1 (sd_body Back)) [] (initR [255; 9; 1; 2; 3])) in (rpos r, rcstart r)) = (2, 0) /\
  (let r := fst (deser_instrs (deser_struct 3 TEnv) 0 (firstn 4 (sd_body Back)) [] (initR [255; 9; 1; 2; 3])) in (rpos r, rcstart r)) = (1, 1).
Proof. vm_compute. repeat split; reflexivity. Qed.

(* a class containing itself: depth_ok refuses the environment, both checks refuse the class, and the run ends in EFuel *)
Definition Cyc : env := [mkSDef "A" [EField (fld "k" (EInt TChar) LNone false); EField (fld "a" (EStruct "A") LNone false)]].
Example C03_cycle_refused :
  depth_ok Cyc = false /\ progress_okT Cyc "A" false = false /\ wf_class (S (List.length Cyc)) Cyc "A" false = false /\
  snd (deserialize Cyc "A" [1; 2; 3] false) = Err EFuel.
Proof. vm_compute. repeat split; reflexivity. Qed.

Print Assumptions C03_terminates_core.
Print Assumptions C03_terminates.
Print Assumptions C03_only_documented_error.
Print Assumptions C03_delimited_loop_terminates.
Print Assumptions C03_chunk_start_monotone.
Print Assumptions C03_depth_fuel_irrelevant.
Print Assumptions C03_checks_fuel_irrelevant.
Print Assumptions C03_terminates_any_fuel.
Print Assumptions C03_F4_not_progress_ok.
Print Assumptions C03_progress_examples.
Print Assumptions C03_progress_runs.
Print Assumptions C03_cycle_refused.
