From EO Require Import Prelude.Py Model.Spec Model.ObjModel.
Theorem C19_placeholder : True. Proof. exact I. Qed.
