(* C19 - An instance of any generated struct, packet or case-data class cannot be changed through its public
   interface: assigning to any field or to byte_size raises AttributeError, and array fields are tuples that are
   unaffected by later changes to the iterable they were built from. Serializing the same instance twice therefore
   always yields identical bytes, for constructed and deserialized instances alike. *)
From EO Require Import Prelude.Py Model.Writer Model.Spec Model.Ser Model.Deser Model.ObjModel Proofs.ObjModel.
Set Default Timeout 60.
Open Scope Z_scope.

(* ---------------- assignments are rejected; the instance never changes ---------------- *)

Theorem C19_set_rejected : forall E h o f x, pstep E h o (PSet f x) = (h, o, OAttrError).
Proof. intros E h o f x. reflexivity. Qed.

(* ... at any position of any history *)
Theorem C19_set_rejected_in_history : forall E ops1 f x ops2 h o,
  nth_error (snd (prun E h o (ops1 ++ PSet f x :: ops2))) (List.length ops1) = Some OAttrError.
Proof. exact prun_set_rejected. Qed.

Theorem C19_construct_frozen : forall body cls h args, args_typed body args -> frozen (construct body cls h args).
Proof. exact construct_frozen. Qed.

Theorem C19_deserialized_frozen : forall v, frozen (of_value v).
Proof. exact of_value_frozen. Qed.

(* stronger: no slot at all (even a shadowed one) is a cell, and the view is exactly the deserialized value *)
Theorem C19_deserialized_frozenb : forall v, frozenb (of_value v) = true.
Proof. exact of_value_frozenb. Qed.
Theorem C19_deserialized_view : forall h c flds, view h (of_value (VObj c flds)) = VObj c flds.
Proof. exact of_value_view. Qed.

Theorem C19_instance_never_changes : forall E ops h o, let '(_, o', _) := prun E h o ops in o' = o.
Proof.
  intros E ops h o. pose proof (prun_inst E ops h o) as Hp.
  destruct (prun E h o ops) as [[h' o'] outs]. exact Hp.
Qed.

(* ---------------- heap independence ---------------- *)

(* C19_view_heap_independent AS STATED IS FALSE OF THE MODEL: `frozen` speaks about name lookup (assoc, first binding
   wins) while `view` maps over ALL slots, so a shadowed duplicate slot that aliases a cell satisfies `frozen` but
   makes the raw view depend on the heap.  Refuting input: *)
Definition cx_o : inst := mkInst "S" [("a"%string, HImm VNone); ("a"%string, HCell 0)].
Example C19_view_heap_independent_refuted :
  frozen cx_o /\ view [VNone] cx_o <> view [VInt 1] cx_o.
Proof.
  split.
  - intros n c. unfold cx_o. cbn [i_slots assoc]. destruct (String.eqb "a" n); discriminate.
  - vm_compute. discriminate.
Qed.

(* strongest true variant under the same hypothesis: the two views agree on every field lookup, hence on everything
   the serializer (of any class, in any entry mode) computes from them *)
Theorem C19_view_heap_independent_lookups : forall h h' o, frozen o ->
  (forall n, assoc (vfields h o) n = assoc (vfields h' o) n) /\
  (view h o = VObj (i_cls o) (vfields h o) /\ view h' o = VObj (i_cls o) (vfields h' o)) /\
  (forall E cls san, serialize E cls (view h o) san = serialize E cls (view h' o) san).
Proof.
  intros h h' o Hfr. split; [exact (frozen_fields_eq h h' o Hfr)|].
  split; [split; reflexivity|]. intros E cls san. apply frozen_serialize_heap_independent. exact Hfr.
Qed.

(* the statement itself holds when slot names are distinct (always so in Python: keyword arguments / attributes
   cannot repeat), and for the decidable all-slots form of frozen *)
Theorem C19_view_heap_independent_nodup : forall h h' o, NoDup (map fst (i_slots o)) -> frozen o -> view h o = view h' o.
Proof. intros h h' o Hnd Hfr. apply frozenb_view. apply frozen_nodup_frozenb; assumption. Qed.
Theorem C19_view_heap_independent_frozenb : forall h h' o, frozenb o = true -> view h o = view h' o.
Proof. exact frozenb_view. Qed.

(* ---------------- the property ---------------- *)

(* between any public operations and any caller-side mutations, every serialization of a frozen instance gives the
   same result *)
Theorem C19_snapshot : forall E ops h o, frozen o ->
  let '(_, _, outs) := prun E h o ops in
  forall r bs, In (OBytes r bs) outs ->
    (r, bs) = (snd (serialize E (i_cls o) (view h o) false), wdata (fst (serialize E (i_cls o) (view h o) false))).
Proof.
  intros E ops h o Hfr. pose proof (prun_snapshot E o h Hfr ops h) as Hp.
  destruct (prun E h o ops) as [[h' o'] outs]. exact Hp.
Qed.

(* stronger: ... and that result is the one computed under ANY heap whatsoever (e.g. the heap at construction time) *)
Theorem C19_snapshot_any_heap : forall E ops h h0 o, frozen o ->
  let '(_, _, outs) := prun E h o ops in
  forall r bs, In (OBytes r bs) outs ->
    (r, bs) = (snd (serialize E (i_cls o) (view h0 o) false), wdata (fst (serialize E (i_cls o) (view h0 o) false))).
Proof.
  intros E ops h h0 o Hfr. pose proof (prun_snapshot E o h0 Hfr ops h) as Hp.
  destruct (prun E h o ops) as [[h' o'] outs]. exact Hp.
Qed.

Lemma C19_frozen_outs_agree : forall E ops h o, frozen o ->
  let '(_, _, outs) := prun E h o ops in
  forall r1 b1 r2 b2, In (OBytes r1 b1) outs -> In (OBytes r2 b2) outs -> (r1, b1) = (r2, b2).
Proof.
  intros E ops h o Hfr. pose proof (C19_snapshot E ops h o Hfr) as Hs.
  destruct (prun E h o ops) as [[h' o'] outs]. intros r1 b1 r2 b2 H1 H2.
  rewrite (Hs r1 b1 H1), (Hs r2 b2 H2). reflexivity.
Qed.

Corollary C19_constructed_snapshot : forall E body cls h args ops, args_typed body args ->
  let o := construct body cls h args in
  let '(_, _, outs) := prun E h o ops in
  forall r1 b1 r2 b2, In (OBytes r1 b1) outs -> In (OBytes r2 b2) outs -> (r1, b1) = (r2, b2).
Proof.
  intros E body cls h args ops Hty o.
  exact (C19_frozen_outs_agree E ops h o (construct_frozen body cls h args Hty)).
Qed.

(* stronger: the instance may be used under a heap h' unrelated to the one it was constructed in *)
Corollary C19_constructed_snapshot_any_heap : forall E body cls h h' args ops, args_typed body args ->
  let o := construct body cls h args in
  let '(_, _, outs) := prun E h' o ops in
  forall r1 b1 r2 b2, In (OBytes r1 b1) outs -> In (OBytes r2 b2) outs -> (r1, b1) = (r2, b2).
Proof.
  intros E body cls h h' args ops Hty o.
  exact (C19_frozen_outs_agree E ops h' o (construct_frozen body cls h args Hty)).
Qed.

Corollary C19_deserialized_snapshot : forall E v h ops,
  let '(_, _, outs) := prun E h (of_value v) ops in
  forall r1 b1 r2 b2, In (OBytes r1 b1) outs -> In (OBytes r2 b2) outs -> (r1, b1) = (r2, b2).
Proof. intros E v h ops. exact (C19_frozen_outs_agree E ops h (of_value v) (of_value_frozen v)). Qed.

(* stronger: every serialization of a deserialized instance is the serialization of the deserialized value itself *)
Corollary C19_deserialized_snapshot_value : forall E c flds h ops,
  let '(_, _, outs) := prun E h (of_value (VObj c flds)) ops in
  forall r bs, In (OBytes r bs) outs ->
    (r, bs) = (snd (serialize E c (VObj c flds) false), wdata (fst (serialize E c (VObj c flds) false))).
Proof.
  intros E c flds h ops. pose proof (C19_snapshot E ops h (of_value (VObj c flds)) (of_value_frozen _)) as Hs.
  rewrite of_value_view in Hs. exact Hs.
Qed.

(* ---------------- array fields are copies ---------------- *)

(* C19_array_copy AS STATED IS FALSE OF THE MODEL, for the same reason: args_typed constrains only the FIRST binding
   of each parameter name, so an argument list that repeats a name can smuggle a cell into a shadowed slot.
   Refuting input (not expressible in Python: a keyword argument cannot be repeated): *)
Definition cx_body : list einstr :=
  [EArray (mkField (Some "xs"%string) (EInt TShort) LNone false false true None 0) false false (ACRemaining 2)].
Definition cx_args : list (string * hval) :=
  [("xs"%string, HCell 0); ("b"%string, HImm VNone); ("b"%string, HCell 0)].
Example C19_array_copy_refuted :
  assoc cx_args "xs" = Some (HCell 0) /\ is_array_field cx_body "xs" = true /\ args_typed cx_body cx_args /\
  view (heap_set [VList []] 0 (VList [VInt 1])) (construct cx_body "S" [VList []] cx_args)
    <> view [VList []] (construct cx_body "S" [VList []] cx_args).
Proof.
  split; [reflexivity|]. split; [reflexivity|]. split.
  - intros n c. unfold cx_args. cbn [assoc]. destruct (String.eqb "xs" n) eqn:Hxs.
    + apply String.eqb_eq in Hxs. subst n. intros _. reflexivity.
    + destruct (String.eqb "b" n); discriminate.
  - vm_compute. discriminate.
Qed.

(* strongest true variant under the same hypotheses: after the caller mutates the iterable, every field lookup on the
   instance gives what it gave before, the array field still holds the content the iterable had at construction
   time, and every serializer computes the same thing *)
Theorem C19_array_copy_lookups : forall body cls h args n c content, assoc args n = Some (HCell c) -> is_array_field body n = true ->
  args_typed body args ->
  let o := construct body cls h args in
  (forall m, assoc (vfields (heap_set h c content) o) m = assoc (vfields h o) m) /\
  (forall h', assoc (vfields h' o) n = Some (nth c h VNone)) /\
  assoc (i_slots o) n = Some (HImm (nth c h VNone)) /\
  (forall E cls' san, serialize E cls' (view (heap_set h c content) o) san = serialize E cls' (view h o) san).
Proof.
  intros body cls h args n c content Ha Harr Hty o.
  pose proof (construct_frozen body cls h args Hty) as Hfr. fold o in Hfr.
  assert (Hslot : assoc (i_slots o) n = Some (HImm (nth c h VNone))).
  { unfold o. rewrite construct_assoc, Ha. cbn [option_map]. unfold ctor_slot. rewrite Harr. reflexivity. }
  split; [exact (frozen_fields_eq _ _ o Hfr)|]. split.
  - intros h'. rewrite vfields_assoc, Hslot. reflexivity.
  - split; [exact Hslot|]. intros E cls' san. apply frozen_serialize_heap_independent. exact Hfr.
Qed.

(* the statement itself holds when parameter names are distinct (always so in Python), for ANY later heap *)
Theorem C19_array_copy_nodup : forall body cls h h' args, NoDup (map fst args) -> args_typed body args ->
  view h' (construct body cls h args) = view h (construct body cls h args).
Proof. intros body cls h h' args Hnd Hty. apply frozenb_view. apply construct_frozenb; assumption. Qed.

(* ---------------- getters ---------------- *)

(* getters never hand out a reference to a mutable cell of a frozen instance *)
Theorem C19_get_immutable : forall E h o f, frozen o -> forall c, pstep E h o (PGet f) <> (h, o, OVal (Some (HCell c))).
Proof.
  intros E h o f Hfr c Heq. cbn [pstep] in Heq. apply (f_equal snd) in Heq. cbn [snd] in Heq.
  injection Heq as Ha. exact (Hfr f c Ha).
Qed.

(* ... anywhere in a history *)
Theorem C19_get_immutable_in_history : forall E ops h o c, frozen o -> ~ In (OVal (Some (HCell c))) (snd (prun E h o ops)).
Proof. intros E ops h o c Hfr. exact (prun_get_immutable E o Hfr ops h c). Qed.

Print Assumptions C19_set_rejected.
Print Assumptions C19_set_rejected_in_history.
Print Assumptions C19_construct_frozen.
Print Assumptions C19_deserialized_frozen.
Print Assumptions C19_deserialized_frozenb.
Print Assumptions C19_deserialized_view.
Print Assumptions C19_instance_never_changes.
Print Assumptions C19_view_heap_independent_refuted.
Print Assumptions C19_view_heap_independent_lookups.
Print Assumptions C19_view_heap_independent_nodup.
Print Assumptions C19_view_heap_independent_frozenb.
Print Assumptions C19_snapshot.
Print Assumptions C19_snapshot_any_heap.
Print Assumptions C19_constructed_snapshot.
Print Assumptions C19_constructed_snapshot_any_heap.
Print Assumptions C19_deserialized_snapshot.
Print Assumptions C19_deserialized_snapshot_value.
Print Assumptions C19_array_copy_refuted.
Print Assumptions C19_array_copy_lookups.
Print Assumptions C19_array_copy_nodup.
Print Assumptions C19_get_immutable.
Print Assumptions C19_get_immutable_in_history.

(* ---------------- examples ---------------- *)
Section Examples.
  Open Scope string_scope.
  Definition ex_fld (n : string) (ty : etype) : fieldspec := mkField (Some n) ty LNone false false true None 0.
  (* struct S { char c; short xs[]; blob data } *)
  Definition ex_body : list einstr :=
    [EField (ex_fld "c" (EInt TChar)); EArray (ex_fld "xs" (EInt TShort)) false false (ACRemaining 2); EField (ex_fld "data" EBlob)].
  Definition ex_env : env := [mkSDef "S" ex_body].
  (* the caller owns a list (cell 0) and a bytearray (cell 1) *)
  Definition ex_heap : heap := [VList [VInt 1; VInt 300]; VBytes [7; 8]].
  Definition ex_args : list (string * hval) := [("c", HImm (VInt 5)); ("xs", HCell 0); ("data", HImm (VBytes [9; 10]))].
  Definition ex_o : inst := construct ex_body "S" ex_heap ex_args.

  Example C19_ex_args_typed : args_typed ex_body ex_args.
  Proof.
    intros n c. unfold ex_args. cbn [assoc]. destruct (String.eqb "c" n); [discriminate|].
    destruct (String.eqb "xs" n) eqn:Hxs.
    - apply String.eqb_eq in Hxs. subst n. intros _. reflexivity.
    - destruct (String.eqb "data" n); discriminate.
  Qed.

  (* the array slot is a tuple (an immutable copy), not the caller's list *)
  Example C19_ex_slots :
    i_slots ex_o = [("c", HImm (VInt 5)); ("xs", HImm (VList [VInt 1; VInt 300])); ("data", HImm (VBytes [9; 10]))].
  Proof. vm_compute. reflexivity. Qed.
  Example C19_ex_frozenb : frozenb ex_o = true.
  Proof. vm_compute. reflexivity. Qed.

  (* serialize; the caller appends to / overwrites its list; assignments are refused; serialize again: same bytes *)
  Example C19_ex_snapshot :
    snd (prun ex_env ex_heap ex_o
           [PSerialize; PMutate 0 (VList [VInt 2; VInt 2; VInt 2]); PSet "xs" (HCell 0); PSet "byte_size" (HImm (VInt 0));
            PGet "xs"; PSerialize])
    = [OBytes (Ok tt) [6; 2; 254; 48; 2; 9; 10]; ONone; OAttrError; OAttrError;
       OVal (Some (HImm (VList [VInt 1; VInt 300]))); OBytes (Ok tt) [6; 2; 254; 48; 2; 9; 10]].
  Proof. vm_compute. reflexivity. Qed.

  (* a fresh instance built from the mutated list does serialize differently: the copy, not luck, is what protects *)
  Example C19_ex_new_instance_differs :
    snd (prun ex_env ex_heap (construct ex_body "S" (heap_set ex_heap 0 (VList [VInt 2; VInt 2; VInt 2])) ex_args) [PSerialize])
    = [OBytes (Ok tt) [6; 3; 254; 3; 254; 3; 254; 9; 10]].
  Proof. vm_compute. reflexivity. Qed.

  (* the annotation of non-array parameters matters: a bytearray passed for the NON-array blob parameter is stored
     as is, args_typed fails, and two serializations of the same instance differ after the caller mutates it *)
  Definition bad_args : list (string * hval) := [("c", HImm (VInt 5)); ("xs", HCell 0); ("data", HCell 1)].
  Example C19_alias_necessary :
    ~ args_typed ex_body bad_args /\
    ~ frozen (construct ex_body "S" ex_heap bad_args) /\
    snd (prun ex_env ex_heap (construct ex_body "S" ex_heap bad_args) [PSerialize; PMutate 1 (VBytes [99]); PSerialize])
    = [OBytes (Ok tt) [6; 2; 254; 48; 2; 7; 8]; ONone; OBytes (Ok tt) [6; 2; 254; 48; 2; 99]].
  Proof.
    split; [|split].
    - intros Hty. specialize (Hty "data" 1%nat eq_refl). vm_compute in Hty. discriminate.
    - intros Hfr. apply (Hfr "data" 1%nat). vm_compute. reflexivity.
    - vm_compute. reflexivity.
  Qed.

  (* a deserialized instance: whatever the heap does, it serializes to the same bytes *)
  Example C19_ex_deserialized :
    snd (prun ex_env ex_heap (of_value (VObj "S" [("c", VInt 5); ("xs", VList [VInt 1; VInt 300]); ("data", VBytes [9; 10])]))
           [PSerialize; PMutate 0 VNone; PMutate 1 VNone; PSerialize])
    = [OBytes (Ok tt) [6; 2; 254; 48; 2; 9; 10]; ONone; ONone; OBytes (Ok tt) [6; 2; 254; 48; 2; 9; 10]].
  Proof. vm_compute. reflexivity. Qed.
End Examples.
