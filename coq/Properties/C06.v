(* C06 - Chunk framing isolates chunks from over- and under-reads. *)
From EO Require Import Prelude.Py Model.Limits Model.Number Model.StringEnc Model.Cp1252 Model.Writer Model.Reader Model.Items Proofs.Chunks.
Open Scope Z_scope.
Set Default Timeout 60.

(* why it holds: with sanitisation on, no chunk field contains the break byte *)
Theorem C06_no_break_in_fields : forall it, chunk_field it = true -> ~ In 255 (item_bytes true it).
Proof. intros it H. apply item_bytes_no255. exact H. Qed.

(* ... hence no chunk written as a sequence of such fields does *)
Theorem C06_no_break_in_chunk : forall its, Forall (fun it => chunk_field it = true) its ->
  ~ In 255 (concat (map (item_bytes true) its)).
Proof.
  intros its H. apply concat_no255. apply Forall_forall. intros l Hl.
  apply in_map_iff in Hl as [it [<- Hit]]. rewrite Forall_forall in H. apply item_bytes_no255. apply H. exact Hit.
Qed.

(* the reader side, for ARBITRARY chunk contents without 0xFF and ARBITRARY plans (any reads, any number of surplus reads):
   what each plan observes is exactly what it would observe on a stand-alone reader over that chunk's bytes alone *)
Theorem C06_isolation : forall chunks plans,
  Forall (fun c => ~ In 255 c) chunks -> length plans = length chunks ->
  Forall (fun p => forallb plan_op p = true) plans ->
  run_chunks (r_set_chunked (initR (join_chunks chunks)) true) plans
  = map (fun cp => snd (run_plan (initR (fst cp)) (snd cp))) (combine chunks plans).
Proof. intros chunks plans Hc Hl Hp. exact (run_chunks_isolated chunks plans Hc Hl Hp). Qed.

(* consequence spelled out: changing the plans of OTHER chunks does not change what chunk k's plan sees *)
Theorem C06_independent : forall chunks plans plans' k,
  Forall (fun c => ~ In 255 c) chunks -> length plans = length chunks -> length plans' = length chunks ->
  Forall (fun p => forallb plan_op p = true) plans -> Forall (fun p => forallb plan_op p = true) plans' ->
  nth k plans [] = nth k plans' [] ->
  nth k (run_chunks (r_set_chunked (initR (join_chunks chunks)) true) plans) [] =
  nth k (run_chunks (r_set_chunked (initR (join_chunks chunks)) true) plans') [].
Proof.
  intros chunks plans plans' k Hc Hl Hl' Hp Hp' Hk.
  rewrite (run_chunks_isolated chunks plans Hc Hl Hp), (run_chunks_isolated chunks plans' Hc Hl' Hp').
  rewrite (nth_alone_out chunks plans k Hl), (nth_alone_out chunks plans' k Hl'), Hk. reflexivity.
Qed.

(* the reader never leaves the chunk during a plan: position stays within [chunk start, break] *)
Theorem C06_confined : forall pre c post p, ~ In 255 c -> forallb plan_op p = true -> (post = [] \/ exists t, post = 255 :: t) ->
  let r := mkR (pre ++ c ++ post) (zlen pre) true (zlen pre) (zlen pre + zlen c) in
  let r' := fst (run_plan r p) in
  zlen pre <= rpos r' <= zlen pre + zlen c /\ rcstart r' = zlen pre /\ rbrk r' = zlen pre + zlen c /\ rchunked r' = true /\ rdata r' = rdata r.
Proof.
  intros pre c post p _ Hp _. cbv zeta. rewrite inchunk_start.
  pose proof (zlen_nonneg c) as Hz. apply (run_plan_confined pre c post p 0 Hp). lia.
Qed.

(* the state C06_confined starts from is the one the reader is really in: after switching the mode on ... *)
Theorem C06_start_state : forall c chunks, ~ In 255 c ->
  r_set_chunked (initR (join_chunks (c :: chunks))) true =
  mkR ([] ++ c ++ tail_of chunks) (zlen (@nil Z)) true (zlen (@nil Z)) (zlen (@nil Z) + zlen c).
Proof. intros c chunks Hc. rewrite (set_chunked_init c chunks Hc). reflexivity. Qed.

(* ... and after every next_chunk, wherever inside chunk c the previous plan stopped (offset q) *)
Theorem C06_next_state : forall pre c c' post' q, ~ In 255 c' -> (post' = [] \/ exists t, post' = 255 :: t) ->
  r_next_chunk (mkR (pre ++ c ++ 255 :: c' ++ post') (zlen pre + q) true (zlen pre) (zlen pre + zlen c)) =
  Ok (let pre' := pre ++ c ++ [255] in mkR (pre' ++ c' ++ post') (zlen pre') true (zlen pre') (zlen pre' + zlen c')).
Proof.
  intros pre c c' post' q Hc Hp. cbv zeta. rewrite inchunk_start. exact (next_chunk_in pre c c' post' q Hc Hp).
Qed.

(* ---- examples --------------------------------------------------------------------------------- *)
(* three chunks written with sanitisation on: (char 5, short 1000, "abc") | (int 70000, "xÿz" -> "xyz") | (three 64010, enc "hi") *)
Definition ex_chunks : list (list Z) :=
  [ concat (map (item_bytes true) [IChar 5; IShort 1000; IStr [97;98;99]]);
    concat (map (item_bytes true) [IInt 70000; IStr [120;255;122]]);
    concat (map (item_bytes true) [IThree 64010; IEncStr [104;105]]) ].

Example C06_ex_bytes :
  ex_chunks = [[6;242;4;97;98;99]; [173;24;2;254;120;121;122]; [2;1;2;100;55]] /\
  join_chunks ex_chunks = [6;242;4;97;98;99; 255; 173;24;2;254;120;121;122; 255; 2;1;2;100;55].
Proof. vm_compute. split; reflexivity. Qed.

(* under-read chunk 0 (only the char), over-read chunk 1 (int, string, then many surplus reads of every kind),
   read chunk 2 exactly *)
Definition ex_plans : list (list rop) :=
  [ [RChar];
    [RInt; RString; RChar; RShort; RThree; RInt; RByte; RBytes 10; RString; REnc; RFixed 7 true; RFixedEnc 3 false;
     RRemaining; RFixed (-2) false; RByte; RByte; RInt];
    [RThree; REnc; RRemaining] ].

Example C06_ex_run :
  run_chunks (r_set_chunked (initR (join_chunks ex_chunks)) true) ex_plans =
  [ [OZ 5];
    [OZ 70000; OStr [120;121;122]; OZ 0; OZ 0; OZ 0; OZ 0; OZ 0; OBytes []; OStr []; OStr []; OStr []; OStr [];
     OZ 0; OErr EValue; OZ 0; OZ 0; OZ 0];
    [OZ 64010; OStr [104;105]; OZ 0] ].
Proof. vm_compute. reflexivity. Qed.

(* the same chunk-2 plan sees the same values when chunks 0 and 1 are read exactly, or not at all *)
Example C06_ex_other_plans :
  nth 2 (run_chunks (r_set_chunked (initR (join_chunks ex_chunks)) true) [[RChar; RShort; RString]; [RInt; RString]; [RThree; REnc; RRemaining]]) []
    = [OZ 64010; OStr [104;105]; OZ 0] /\
  nth 2 (run_chunks (r_set_chunked (initR (join_chunks ex_chunks)) true) [[]; []; [RThree; REnc; RRemaining]]) []
    = [OZ 64010; OStr [104;105]; OZ 0].
Proof. vm_compute. split; reflexivity. Qed.

(* get_bytes with a NEGATIVE length is outside the model's domain (the model answers OErr EUnexpected and does not
   move, on both readers, so the theorems above hold for it trivially); the Python code has no such guard:
   get_bytes(-1) returns b'' and moves the position BACK by one, so there confinement fails for that call *)
Example C06_ex_negative_bytes :
  run_chunks (r_set_chunked (initR (join_chunks ex_chunks)) true) [[RChar; RBytes (-1); RByte]; []; []]
  = [[OZ 5; OErr EUnexpected; OZ 242]; []; []].
Proof. vm_compute. reflexivity. Qed.

(* empty chunks and the empty packet *)
Example C06_ex_empty :
  run_chunks (r_set_chunked (initR (join_chunks [[]; []; [6]])) true) [[RChar; RString]; [RByte]; [RChar; RChar]]
    = [[OZ 0; OStr []]; [OZ 0]; [OZ 5; OZ 0]] /\
  run_chunks (r_set_chunked (initR (join_chunks [])) true) [] = [] /\
  run_chunks (r_set_chunked (initR (join_chunks [[6]; []])) true) [[RChar]; [RChar; RRemaining]] = [[OZ 5]; [OZ 0; OZ 0]].
Proof. vm_compute. repeat split; reflexivity. Qed.

(* the hypothesis is needed: WITHOUT sanitisation the string "xÿz" carries a 0xFF, the second chunk is cut short
   and the third plan reads "z" instead of its own chunk *)
Example C06_ex_unsanitised :
  let chunks := [ [6]; concat (map (item_bytes false) [IInt 70000; IStr [120;255;122]]); [2;1;2] ] in
  run_chunks (r_set_chunked (initR (join_chunks chunks)) true) [[RChar]; [RInt; RString]; [RThree]]
  = [[OZ 5]; [OZ 70000; OStr [120]]; [OZ 121]].
Proof. vm_compute. reflexivity. Qed.

Print Assumptions C06_no_break_in_fields.
Print Assumptions C06_no_break_in_chunk.
Print Assumptions C06_isolation.
Print Assumptions C06_independent.
Print Assumptions C06_confined.
Print Assumptions C06_start_state.
Print Assumptions C06_next_state.
