(* C14 - Constructing a protocol enum from any integer never fails; unknown ordinals become unregistered
   "Unrecognized(n)" instances carrying n, and the declared members never change. *)
From EO Require Import Prelude.Py Model.Spec Model.EnumMeta Proofs.EnumMeta.
Set Default Timeout 60.
Open Scope Z_scope.

(* for EVERY declaration (any names, any ordinals, duplicates allowed) and EVERY integer *)
Theorem C14_declared : forall decl n, In n (map snd decl) ->
  exists i nm, snd (ecall (mk_class decl) n) = Member i /\
    nth_error (ec_members (mk_class decl)) i = Some (nm, n) /\
    (* it is the FIRST declaration of that ordinal (later ones are aliases) *)
    (exists pre post, decl = pre ++ (nm, n) :: post /\ ~ In n (map snd pre)) /\
    e_int (mk_class decl) (Member i) = n /\ e_name (mk_class decl) (Member i) = nm.
Proof.
  intros decl n Hin. destruct (ecall_declared decl n Hin) as [i [nm [Hc [Hnth [_ Hfirst]]]]].
  exists i, nm. split; [exact Hc|]. split; [exact Hnth|]. split; [exact Hfirst|].
  split; [exact (e_int_member _ _ _ _ Hnth) | exact (e_name_member _ _ _ _ Hnth)].
Qed.

(* after any history of other constructions, constructing n again gives the same result *)
Theorem C14_same_member_every_time : forall decl n ns,
  let c := mk_class decl in
  snd (ecall (fst (ecalls c ns)) n) = snd (ecall c n).
Proof. intros decl n ns c. rewrite ecalls_fst. reflexivity. Qed.

(* stronger: for ANY class state (not only freshly created ones), and the whole stream of results of a history
   is just the per-call result on the original class *)
Theorem C14_same_result_any_class : forall c n ns, snd (ecall (fst (ecalls c ns)) n) = snd (ecall c n).
Proof. intros c n ns. rewrite ecalls_fst. reflexivity. Qed.

Theorem C14_history_pointwise : forall c ns, snd (ecalls c ns) = map (fun n => snd (ecall c n)) ns.
Proof. intros c ns. apply ecalls_snd. Qed.

Theorem C14_unrecognised : forall decl n, ~ In n (map snd decl) ->
  snd (ecall (mk_class decl) n) = Unrecognized n /\
  e_name (mk_class decl) (Unrecognized n) = ("Unrecognized(" ++ dec n ++ ")")%string /\
  e_int (mk_class decl) (Unrecognized n) = n.
Proof.
  intros decl n Hn. split; [exact (ecall_undeclared decl n Hn)|]. split; reflexivity.
Qed.

(* the converse directions: the kind of the result decides whether the ordinal was declared *)
Theorem C14_member_iff_declared : forall decl n,
  (exists i, snd (ecall (mk_class decl) n) = Member i) <-> In n (map snd decl).
Proof.
  intros decl n. split.
  - intros [i Hc]. destruct (in_dec Z.eq_dec n (map snd decl)) as [Hin | Hn]; [exact Hin|].
    rewrite (ecall_undeclared _ _ Hn) in Hc. discriminate.
  - intros Hin. destruct (ecall_declared decl n Hin) as [i [nm [Hc _]]]. exists i. exact Hc.
Qed.

Theorem C14_value_kept : forall decl n, e_int (mk_class decl) (snd (ecall (mk_class decl) n)) = n.
Proof.
  intros decl n. destruct (in_dec Z.eq_dec n (map snd decl)) as [Hin | Hn].
  - destruct (C14_declared decl n Hin) as [i [nm [Hc [_ [_ [Hint _]]]]]]. rewrite Hc. exact Hint.
  - rewrite (ecall_undeclared decl n Hn). reflexivity.
Qed.

(* never fails / total: every call yields either a member inside the member list or Unrecognized n itself *)
Theorem C14_total : forall decl n,
  (exists i nm, snd (ecall (mk_class decl) n) = Member i /\ nth_error (ec_members (mk_class decl)) i = Some (nm, n)) \/
  snd (ecall (mk_class decl) n) = Unrecognized n.
Proof.
  intros decl n. destruct (in_dec Z.eq_dec n (map snd decl)) as [Hin | Hn].
  - left. destruct (ecall_declared decl n Hin) as [i [nm [Hc [Hnth _]]]]. exists i, nm. split; assumption.
  - right. exact (ecall_undeclared decl n Hn).
Qed.

Theorem C14_members_unchanged : forall c ns, fst (ecalls c ns) = c.
Proof. intros c ns. apply ecalls_fst. Qed.

Theorem C14_distinct_members : forall decl, NoDup (map snd (ec_members (mk_class decl))).
Proof. intros decl. rewrite mk_class_members. apply canon_members_NoDup. Qed.

Theorem C14_members_are_declared : forall decl nm n, In (nm, n) (ec_members (mk_class decl)) -> In (nm, n) decl.
Proof. intros decl nm n Hin. rewrite mk_class_members in Hin. exact (canon_members_sub _ _ _ _ Hin). Qed.

(* and every declared ordinal has a member (so the members' ordinals are exactly the declared ordinals) *)
Theorem C14_member_ordinals_exact : forall decl n,
  In n (map snd (ec_members (mk_class decl))) <-> In n (map snd decl).
Proof. intros decl n. rewrite mk_class_members. apply canon_members_snd_iff. Qed.

Theorem C14_unrecognised_names_distinct : forall n m, dec n = dec m -> n = m.
Proof. exact dec_inj. Qed.

(* stronger: the full names "Unrecognized(n)" are distinct for distinct integers *)
Theorem C14_unrecognised_full_names_distinct : forall c n m,
  e_name c (Unrecognized n) = e_name c (Unrecognized m) -> n = m.
Proof. exact unrecognized_name_inj. Qed.

(* ---- examples -------------------------------------------------------------------------- *)
(* 5 declared names, one called "None", and "Alias" duplicating ordinal 1 *)
Definition ex_decl : list (string * Z) :=
  [("None", 0); ("Male", 1); ("Alias", 1); ("Other", 7); ("Big", 252)]%string.
Definition ex_cls := mk_class ex_decl.

Example C14_ex_members : ec_members ex_cls = [("None", 0); ("Male", 1); ("Other", 7); ("Big", 252)]%string.
Proof. vm_compute. reflexivity. Qed.

Example C14_ex_declared :
  map (fun n => e_obs ex_cls (snd (ecall ex_cls n))) [0; 1; 7; 252] =
  [(true, 0, "None", 0); (true, 1, "Male", 1); (true, 2, "Other", 7); (true, 3, "Big", 252)]%string.
Proof. vm_compute. reflexivity. Qed.

Example C14_ex_unrecognised :
  map (fun n => e_obs ex_cls (snd (ecall ex_cls n))) [253; 2; 2147483648; -1; -2147483649] =
  [(false, -1, "Unrecognized(253)", 253); (false, -1, "Unrecognized(2)", 2);
   (false, -1, "Unrecognized(2147483648)", 2147483648); (false, -1, "Unrecognized(-1)", -1);
   (false, -1, "Unrecognized(-2147483649)", -2147483649)]%string.
Proof. vm_compute. reflexivity. Qed.

(* a class without ordinal 0: E(0) is unrecognised and named "Unrecognized(0)" *)
Example C14_ex_zero :
  e_obs (mk_class [("A", 1); ("B", 2)]%string) (snd (ecall (mk_class [("A", 1); ("B", 2)]%string) 0)) =
  (false, -1, "Unrecognized(0)"%string, 0).
Proof. vm_compute. reflexivity. Qed.

(* a history mixing declared and undeclared ordinals: same object every time, class untouched *)
Example C14_ex_history :
  ecalls ex_cls [1; 253; 1; 2147483648; 0; -5; 1] =
  (ex_cls, [Member 1; Unrecognized 253; Member 1; Unrecognized 2147483648; Member 0; Unrecognized (-5); Member 1]).
Proof. vm_compute. reflexivity. Qed.

(* read-then-write: the integer written back is the integer read *)
Example C14_ex_round : map (fun n => e_int ex_cls (snd (ecall ex_cls n))) [0; 1; 7; 252; 253; 2147483648; -3] =
  [0; 1; 7; 252; 253; 2147483648; -3].
Proof. vm_compute. reflexivity. Qed.

Print Assumptions C14_declared.
Print Assumptions C14_same_member_every_time.
Print Assumptions C14_same_result_any_class.
Print Assumptions C14_history_pointwise.
Print Assumptions C14_unrecognised.
Print Assumptions C14_member_iff_declared.
Print Assumptions C14_value_kept.
Print Assumptions C14_total.
Print Assumptions C14_members_unchanged.
Print Assumptions C14_distinct_members.
Print Assumptions C14_members_are_declared.
Print Assumptions C14_member_ordinals_exact.
Print Assumptions C14_unrecognised_names_distinct.
Print Assumptions C14_unrecognised_full_names_distinct.
