#!/bin/bash
# seed_rerun.sh [ID-prefix] : re-confirm every stored seeded change in a scratch worktree of /repo's HEAD and run the property's quick
# check against it (VERIF_REPO points the check at the patched worktree, /repo itself is not touched); rewrites seeded/*/meta.json
WT=/tmp/seed/rerun-wt-${1:-all}
git -C /repo worktree remove --force $WT 2>/dev/null; git -C /repo worktree add -q --detach $WT HEAD || exit 2
trap 'git -C /repo worktree remove --force $WT 2>/dev/null' EXIT
for S in /verif/seeded/${1}*; do
  N=$(basename $S); ID=${N%%-*}
  [ -f $S/patch.diff ] || continue
  git -C $WT checkout -q -- . ; git -C $WT clean -fdq
  /venv/bin/python $S/demo.py $WT >/dev/null 2>&1; P0=$?
  if ! git -C $WT apply $S/patch.diff 2>/dev/null; then
    echo "$N APPLY-FAILED (tree changed since the seed was made)"
    /venv/bin/python - "$S" <<'PY'
import json, sys, os
p = os.path.join(sys.argv[1], 'meta.json')
m = json.load(open(p)) if os.path.exists(p) else {}
m.update(detected=False, check_output='patch.diff does not apply to the current /repo HEAD: rebase it (see notes.md of other seeds) and re-run')
json.dump(m, open(p, 'w'), indent=1)
PY
    continue
  fi
  T=$(cd $WT && PYTHONPATH=$WT/src /venv/bin/python -m pytest -q -p no:cacheprovider --continue-on-collection-errors 2>&1 | grep -v condarc | tail -1)
  /venv/bin/python $S/demo.py $WT >/dev/null 2>&1; P1=$?
  OUT=$(cd /verif && VERIF_REPO=$WT ./bin/check $ID quick 2>/dev/null | grep -E "^(OK|VIOLATION)" | tail -3)
  V=$(echo "$OUT" | grep -c "^VIOLATION")
  echo "$N demo pristine=$P0 patched=$P1 tests: $T | check: $(echo "$OUT" | tail -1 | cut -c1-120)"
  /venv/bin/python - "$S" "$ID" "$N" "$V" "$OUT" "$P0" "$P1" "$T" <<'PY'
import json, sys, os
S, ID, N, V, OUT, P0, P1, T = sys.argv[1:9]
notes = open(os.path.join(S, 'notes.md')).read() if os.path.exists(os.path.join(S, 'notes.md')) else ''
import subprocess
head = subprocess.run(['git', '-C', '/repo', 'rev-parse', '--short', 'HEAD'], capture_output=True, text=True).stdout.strip()
vhead = subprocess.run(['git', '-C', '/verif', 'rev-parse', '--short', 'HEAD'], capture_output=True, text=True).stdout.strip()
json.dump(dict(property=ID, name=N, repo_commit=head, verif_commit_at_least=vhead, needs_to_manifest=notes[:1500],
               confirmed=dict(tests_with_patch=T.strip(), demo_pristine_exit=int(P0), demo_patched_exit=int(P1),
                              how="scratch git worktree of /repo HEAD: demo.py; git apply patch.diff; pytest; demo.py"),
               ran=f"./bin/check {ID} quick against the patched tree (VERIF_REPO=<worktree>; equivalent to git -C /repo apply patch.diff; ./bin/check {ID} quick; git -C /repo checkout -- .)",
               detected=bool(int(V)), check_output=OUT[-600:]), open(os.path.join(S, 'meta.json' if os.environ.get('VERIF_SEED', '0') in ('', '0') else f"meta-seed{os.environ['VERIF_SEED']}.json"), 'w'), indent=1)
PY
done
