"""py2stmt - a GENERIC, fail-closed parser from the `serialize` method of generated classes to `pstmt` terms of coq/Model/PyStmt.v.

Input : the text of the files the real generator wrote ({relative path: source}); the code is never imported or run.
Output: for every class (top-level or nested, named by its dotted path `Outer.Inner`) that defines `serialize`:
        the list of statements of the function body as Coq terms (list pstmt), docstring dropped.

The parser knows NOTHING about the generator's templates: it maps Python `ast` nodes one-to-one to the constructors of
Model/PyStmt.v (the table is `expr` / `stmt` below) and raises `Unparsed` on every node, operator, call or name outside that
subset.  Which statements a class SHOULD consist of is decided in Coq (`render_serialize` of Model/RenderSer.v, compared by
Model/RenderCheck.v); what they MEAN is decided by the interpreter of Model/PyStmt.v.

Conventions (the only interpretation done here):
  data._x                                   PSlot "x"           (attribute of the parameter `data` whose name starts with '_')
  writer.string_sanitization_mode           PWriterMode / SSetMode
  len(writer)                               PWriterLen
  writer.add_<m>(e) / add_fixed_*(e, n, b)  SAdd / SAddFixed    (b a literal True / False)
  A.B.serialize(writer, e)                  SSerialize "A.B" e
  E.M  (E an IntEnum class of the package)  PConst "E" "M" z    (z read off `M = <int>` in the enum class; Coq re-checks it
                                                                 against pk_enums of the elaborated specification)
  x: T = e                                  SAssign x e         (annotation must be a plain name; it has no run-time effect)
  raise SerializationError(<message>)       SRaise              (the message expression is not translated)
  `data` / `writer` may only occur in the positions above and may not be assigned.
"""
import ast

WMETH = {'add_byte': 'MByte', 'add_char': 'MChar', 'add_short': 'MShort', 'add_three': 'MThree', 'add_int': 'MInt',
         'add_string': 'MString', 'add_encoded_string': 'MEncString', 'add_bytes': 'MBytes'}
FIXED = {'add_fixed_string': 'false', 'add_fixed_encoded_string': 'true'}
CMP = {ast.Eq: 'CEq', ast.NotEq: 'CNe', ast.Gt: 'CGt', ast.Lt: 'CLt', ast.GtE: 'CGe'}
RESERVED = ('data', 'writer')


class Unparsed(Exception):
    def __init__(self, cls, lineno, dump, why=''):
        self.cls, self.lineno, self.dump, self.why = cls, lineno, dump, why
        super().__init__(f"Unparsed({cls}, line {lineno}): {why} :: {dump[:300]}")


def cs(s):
    if not all(32 <= ord(c) < 127 for c in s):
        raise ValueError(f"non-ASCII text: {s!r}")
    return '"' + s.replace('"', '""') + '"'


def cz(n):
    return str(n) if n >= 0 else f"({n})"


def dotted(e):
    if isinstance(e, ast.Name):
        return e.id
    if isinstance(e, ast.Attribute):
        b = dotted(e.value)
        return None if b is None else b + '.' + e.attr
    return None


def is_doc(s):
    return isinstance(s, ast.Expr) and isinstance(s.value, ast.Constant) and isinstance(s.value.value, str)


class Parser:
    def __init__(self, cls, enums):
        self.cls, self.enums = cls, enums

    def fail(self, node, why):
        raise Unparsed(self.cls, getattr(node, 'lineno', 0), ast.dump(node) if isinstance(node, ast.AST) else repr(node), why)

    def clsname(self, e):
        d = dotted(e)
        if d is None or d.split('.')[0] in RESERVED:
            self.fail(e, 'class name expected')
        return d

    # ---- expressions
    def expr(self, e):
        X = self.expr
        if isinstance(e, ast.Constant):
            v = e.value
            if v is None:
                return "PNone"
            if type(v) is bool:
                return f"(PBool {'true' if v else 'false'})"
            if type(v) is int:
                return f"(PInt {cz(v)})"
            if type(v) is str:
                try:
                    return f"(PStr {cs(v)})"
                except ValueError as ex:
                    self.fail(e, str(ex))
            self.fail(e, 'constant')
        if isinstance(e, ast.Name):
            if e.id in RESERVED:
                self.fail(e, f'bare {e.id}')
            return f"(PVar {cs(e.id)})"
        if isinstance(e, ast.Attribute):
            if isinstance(e.value, ast.Name) and e.value.id == 'data':
                if e.attr.startswith('_') and len(e.attr) > 1:
                    return f"(PSlot {cs(e.attr[1:])})"
                self.fail(e, 'public attribute of data')
            if isinstance(e.value, ast.Name) and e.value.id == 'writer':
                if e.attr == 'string_sanitization_mode':
                    return "PWriterMode"
                self.fail(e, 'attribute of writer')
            if isinstance(e.value, ast.Name) and e.value.id in self.enums:
                mem = dict(self.enums[e.value.id])
                if e.attr in mem:
                    return f"(PConst {cs(e.value.id)} {cs(e.attr)} {cz(mem[e.attr])})"
                self.fail(e, 'no such enum member')
            self.fail(e, 'attribute')
        if isinstance(e, ast.Subscript):
            return f"(PIndex {X(e.value)} {X(e.slice)})"
        if isinstance(e, ast.Call):
            if e.keywords or not isinstance(e.func, ast.Name):
                self.fail(e, 'call')
            f, a = e.func.id, e.args
            if f == 'len' and len(a) == 1:
                if isinstance(a[0], ast.Name) and a[0].id == 'writer':
                    return "PWriterLen"
                return f"(PLen {X(a[0])})"
            if f == 'int' and len(a) == 1:
                return f"(PIntOf {X(a[0])})"
            if f == 'isinstance' and len(a) == 2:
                return f"(PIsInstance {X(a[0])} {cs(self.clsname(a[1]))})"
            if f == 'cast' and len(a) == 2:
                return f"(PCast {cs(self.clsname(a[0]))} {X(a[1])})"
            self.fail(e, 'call')
        if isinstance(e, ast.Compare):
            if len(e.ops) != 1:
                self.fail(e, 'chained comparison')
            op, l, r = e.ops[0], e.left, e.comparators[0]
            if isinstance(op, (ast.Is, ast.IsNot)):
                if not (isinstance(r, ast.Constant) and r.value is None):
                    self.fail(e, '`is` with something other than None')
                return f"({'PIsNone' if isinstance(op, ast.Is) else 'PIsNotNone'} {X(l)})"
            if type(op) in CMP:
                return f"(PCmp {CMP[type(op)]} {X(l)} {X(r)})"
            self.fail(e, 'comparison operator')
        if isinstance(e, ast.UnaryOp) and isinstance(e.op, ast.Not):
            return f"(PNot {X(e.operand)})"
        if isinstance(e, ast.BinOp) and isinstance(e.op, (ast.Add, ast.Sub)):
            return f"(PBin {'BAdd' if isinstance(e.op, ast.Add) else 'BSub'} {X(e.left)} {X(e.right)})"
        if isinstance(e, ast.IfExp):
            return f"(PIfElse {X(e.body)} {X(e.test)} {X(e.orelse)})"
        if isinstance(e, ast.BoolOp) and isinstance(e.op, ast.Or) and len(e.values) == 2:
            return f"(POr {X(e.values[0])} {X(e.values[1])})"
        self.fail(e, 'expression')

    # ---- statements
    def local(self, node, name):
        if name in RESERVED or name in self.enums or name in ('len', 'int', 'isinstance', 'cast', 'range', 'SerializationError'):
            self.fail(node, f'assignment to {name}')
        return cs(name)

    def block(self, stmts):
        return "[" + "; ".join(self.stmt(s) for s in stmts) + "]"

    def stmt(self, s):
        X = self.expr
        if isinstance(s, ast.Expr) and isinstance(s.value, ast.Call) and not s.value.keywords and isinstance(s.value.func, ast.Attribute):
            c = s.value
            base, meth, a = c.func.value, c.func.attr, c.args
            if isinstance(base, ast.Name) and base.id == 'writer':
                if meth in WMETH and len(a) == 1:
                    return f"SAdd {WMETH[meth]} {X(a[0])}"
                if meth in FIXED and len(a) == 3 and isinstance(a[2], ast.Constant) and type(a[2].value) is bool:
                    return f"SAddFixed {FIXED[meth]} {X(a[0])} {X(a[1])} {'true' if a[2].value else 'false'}"
                self.fail(s, 'writer method')
            if meth == 'serialize' and len(a) == 2 and isinstance(a[0], ast.Name) and a[0].id == 'writer':
                return f"SSerialize {cs(self.clsname(base))} {X(a[1])}"
            self.fail(s, 'call statement')
        if isinstance(s, ast.Assign) and len(s.targets) == 1 and s.type_comment is None:
            t = s.targets[0]
            if isinstance(t, ast.Name):
                return f"SAssign {self.local(s, t.id)} {X(s.value)}"
            if isinstance(t, ast.Attribute) and isinstance(t.value, ast.Name) and t.value.id == 'writer' and t.attr == 'string_sanitization_mode':
                return f"SSetMode {X(s.value)}"
            self.fail(s, 'assignment target')
        if isinstance(s, ast.AnnAssign) and s.simple == 1 and isinstance(s.target, ast.Name) and s.value is not None and isinstance(s.annotation, ast.Name):
            return f"SAssign {self.local(s, s.target.id)} {X(s.value)}"
        if isinstance(s, ast.If):
            return f"SIf {X(s.test)} {self.block(s.body)} {self.block(s.orelse)}"
        if isinstance(s, ast.For) and not s.orelse and s.type_comment is None and isinstance(s.target, ast.Name):
            it = s.iter
            if isinstance(it, ast.Call) and isinstance(it.func, ast.Name) and it.func.id == 'range' and len(it.args) == 1 and not it.keywords:
                return f"SFor {self.local(s, s.target.id)} {X(it.args[0])} {self.block(s.body)}"
            self.fail(s, 'for loop not over range(e)')
        if isinstance(s, ast.Raise) and s.cause is None and isinstance(s.exc, ast.Call) and isinstance(s.exc.func, ast.Name) \
                and s.exc.func.id == 'SerializationError' and len(s.exc.args) == 1 and not s.exc.keywords:
            return "SRaise"
        if isinstance(s, ast.Try) and not s.handlers and not s.orelse and s.finalbody:
            return f"STryFinally {self.block(s.body)} {self.block(s.finalbody)}"
        self.fail(s, 'statement')

    def function(self, fn):
        a = fn.args
        if not (len(fn.decorator_list) == 1 and isinstance(fn.decorator_list[0], ast.Name) and fn.decorator_list[0].id == 'staticmethod'):
            self.fail(fn, 'serialize is not a plain staticmethod')
        if a.posonlyargs or a.vararg or a.kwarg or a.defaults or a.kwonlyargs or [x.arg for x in a.args] != ['writer', 'data']:
            self.fail(fn, 'signature of serialize')
        body = fn.body[1:] if fn.body and is_doc(fn.body[0]) else fn.body
        return self.block(body)


def enums_of(mods):
    """IntEnum classes of the package: {class name: [(member, value)]}; a name defined twice is dropped (fail closed at its uses)"""
    out, twice = {}, set()
    for tree in mods.values():
        for cd in tree.body:
            if isinstance(cd, ast.ClassDef) and any(isinstance(b, ast.Name) and b.id == 'IntEnum' for b in cd.bases):
                vals, ok = [], True
                for s in cd.body:
                    if is_doc(s):
                        continue
                    if isinstance(s, ast.Assign) and len(s.targets) == 1 and isinstance(s.targets[0], ast.Name):
                        v = s.value
                        if isinstance(v, ast.Constant) and type(v.value) is int:
                            vals.append((s.targets[0].id, v.value))
                            continue
                        if isinstance(v, ast.UnaryOp) and isinstance(v.op, ast.USub) and isinstance(v.operand, ast.Constant) and type(v.operand.value) is int:
                            vals.append((s.targets[0].id, -v.operand.value))
                            continue
                    ok = False
                if cd.name in out or cd.name in twice or not ok or len(set(n for n, _ in vals)) != len(vals):
                    twice.add(cd.name)
                    out.pop(cd.name, None)
                else:
                    out[cd.name] = vals
    return out


def parse_sources(sources):
    """{relative path: text} -> dict(classes=[(dotted class name, coq term of type list pstmt)], unparsed=[Unparsed])"""
    mods, unparsed = {}, []
    for path in sorted(sources):
        if not path.endswith('.py'):
            continue
        try:
            mods[path] = ast.parse(sources[path])
        except SyntaxError as ex:
            unparsed.append(Unparsed(path, ex.lineno or 0, path, 'syntax error'))
    enums = enums_of(mods)
    classes = []

    def walk(cd, prefix):
        full = prefix + cd.name
        fns = [s for s in cd.body if isinstance(s, ast.FunctionDef) and s.name == 'serialize']
        if len(fns) > 1:
            unparsed.append(Unparsed(full, cd.lineno, full, 'serialize defined twice'))
        elif fns:
            try:
                classes.append((full, Parser(full, enums).function(fns[0])))
            except Unparsed as u:
                unparsed.append(u)
        for s in cd.body:
            if isinstance(s, ast.ClassDef):
                walk(s, full + '.')
    for path, tree in mods.items():
        for s in tree.body:
            if isinstance(s, ast.ClassDef):
                walk(s, '')
    return dict(classes=classes, unparsed=unparsed, enums=enums)


def coq_parsed(classes):
    return "[" + ";\n   ".join(f"({cs(n)},\n    {t})" for n, t in classes) + "]"


if __name__ == '__main__':
    import os
    import sys
    root = sys.argv[1]
    srcs = {}
    for dp, _, fs in os.walk(root):
        for f in fs:
            if f.endswith('.py'):
                p = os.path.join(dp, f)
                srcs[os.path.relpath(p, root)] = open(p, encoding='utf-8').read()
    r = parse_sources(srcs)
    for u in r['unparsed']:
        print('UNPARSED', u)
    for n, t in r['classes']:
        print(n, '\n   ', t)
    print(len(r['classes']), 'classes,', len(r['unparsed']), 'unparsed')
