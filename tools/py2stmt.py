"""py2stmt - a GENERIC, fail-closed parser from the `serialize` method of generated classes to `pstmt` terms of coq/Model/PyStmt.v.

Input : the text of the files the real generator wrote ({relative path: source}); the code is never imported or run.
Output: for every class (top-level or nested, named by its dotted path `Outer.Inner`) that defines `serialize`:
        the list of statements of the function body as Coq terms (list pstmt), docstring dropped.

The parser knows NOTHING about the generator's templates: it maps Python `ast` nodes one-to-one to the constructors of
Model/PyStmt.v (the table is `expr` / `stmt` below) and raises `Unparsed` on every node, operator, call or name outside that
subset.  Which statements a class SHOULD consist of is decided in Coq (`render_serialize` of Model/RenderSer.v, compared by
Model/RenderCheck.v); what they MEAN is decided by the interpreter of Model/PyStmt.v.

Conventions (the only interpretation done here):
  data._x                                   PSlot "x"           (attribute of the parameter `data` whose name starts with '_')
  writer.string_sanitization_mode           PWriterMode / SSetMode
  len(writer)                               PWriterLen
  writer.add_<m>(e) / add_fixed_*(e, n, b)  SAdd / SAddFixed    (b a literal True / False)
  A.B.serialize(writer, e)                  SSerialize "A.B" e
  E.M  (E an IntEnum class of the package)  PConst "E" "M" z    (z read off `M = <int>` in the enum class; Coq re-checks it
                                                                 against pk_enums of the elaborated specification)
  x: T = e                                  SAssign x e         (annotation must be a plain name; it has no run-time effect)
  raise SerializationError(<message>)       SRaise              (the message expression is not translated)
  `data` / `writer` may only occur in the positions above and may not be assigned.

The `deserialize` method of the same classes is parsed by `DParser` (same principles) into `dstmt` terms of coq/Model/PyStmtR.v:
  reader.get_<m>() / get_fixed_*(e, b) / get_bytes(e)     DGet / DGetFixed / DGetBytes     (b a literal True / False)
  reader.remaining / .position / .chunked_reading_mode      DRemaining / DPosition / DMode;   `= e` on the last one: DSSetMode
  reader.next_chunk()                                       DSNextChunk
  bytes(e), int(a / b), [], E(e)                            DBytesOf, DIntDiv, DEmptyList, DEnumOf "E"  (E an IntEnum class of the
                                                            package declared with metaclass=ProtocolEnumMeta)
  A.B.deserialize(reader)                                   DDeser "A.B"
  A.B(kw1=x1, kw2=x2)  (keywords only, local variables)     DNew "A.B" [(kw1, x1); (kw2, x2)]
  xs.append(e)                                              DSAppend "xs" e
  x._byte_size = e                                          DSSetByteSize "x" e
  x = e  /  x: <any annotation> = e                         DSAssign x e   (the annotation of a local variable is not evaluated)
  an expression statement                                   DSExpr e
  `reader` may only occur in the positions above; no name that the method uses as a global (a class, an enum, int, bytes,
  range) or `reader` may be assigned anywhere in the method (an assignment would make it a local of the whole function).

The `__init__` method of the same classes is parsed by `IParser` (same principles) into `iparams * list istmt` of coq/Model/RenderInit.v:
  def __init__(self, *, a: T, b: U = None)                  [("a", false); ("b", true)]   (keyword-only parameters after `self, *`; the only
                                                            default accepted is the literal None; annotations are not evaluated by a call)
  self._x = e                                               ISetSelf "x" e              (x may not start with another underscore: name mangling)
  a parameter name / self._x                                IVar / ISelf                (every other bare name is refused)
  None, True / False, <int>, "<ASCII text>"                 INone, IBool, IInt, IStr
  tuple(e), len(e)                                          ITuple, ILen                (refused when a parameter is called `tuple` / `len`:
                                                            the call would not reach the builtin)
  e is None, e is not None, a if c else b                   IIsNone, IIsNotNone, IIfElse
  nothing else: no other statement, no decorator, no positional parameter, no *args / **kwargs.
The read-only properties of the same classes (`getters_of`): every `@property def x(self): [docstring] return self._y` gives ("x", "y");
  a method decorated with anything but `property` / `staticmethod` (a setter, a deleter), a property of another shape, or a
  method that intercepts attribute access (__setattr__, __getattr__, __getattribute__, __delattr__) or `__slots__` is refused.
"""
import ast

WMETH = {'add_byte': 'MByte', 'add_char': 'MChar', 'add_short': 'MShort', 'add_three': 'MThree', 'add_int': 'MInt',
         'add_string': 'MString', 'add_encoded_string': 'MEncString', 'add_bytes': 'MBytes'}
FIXED = {'add_fixed_string': 'false', 'add_fixed_encoded_string': 'true'}
CMP = {ast.Eq: 'CEq', ast.NotEq: 'CNe', ast.Gt: 'CGt', ast.Lt: 'CLt', ast.GtE: 'CGe'}
RESERVED = ('data', 'writer')


class Unparsed(Exception):
    def __init__(self, cls, lineno, dump, why=''):
        self.cls, self.lineno, self.dump, self.why = cls, lineno, dump, why
        super().__init__(f"Unparsed({cls}, line {lineno}): {why} :: {dump[:300]}")


def cs(s):
    if not all(32 <= ord(c) < 127 for c in s):
        raise ValueError(f"non-ASCII text: {s!r}")
    return '"' + s.replace('"', '""') + '"'


def cz(n):
    return str(n) if n >= 0 else f"({n})"


def dotted(e):
    if isinstance(e, ast.Name):
        return e.id
    if isinstance(e, ast.Attribute):
        b = dotted(e.value)
        return None if b is None else b + '.' + e.attr
    return None


def is_doc(s):
    return isinstance(s, ast.Expr) and isinstance(s.value, ast.Constant) and isinstance(s.value.value, str)


class Parser:
    def __init__(self, cls, enums):
        self.cls, self.enums = cls, enums

    def fail(self, node, why):
        raise Unparsed(self.cls, getattr(node, 'lineno', 0), ast.dump(node) if isinstance(node, ast.AST) else repr(node), why)

    def clsname(self, e):
        d = dotted(e)
        if d is None or d.split('.')[0] in RESERVED:
            self.fail(e, 'class name expected')
        return d

    # ---- expressions
    def expr(self, e):
        X = self.expr
        if isinstance(e, ast.Constant):
            v = e.value
            if v is None:
                return "PNone"
            if type(v) is bool:
                return f"(PBool {'true' if v else 'false'})"
            if type(v) is int:
                return f"(PInt {cz(v)})"
            if type(v) is str:
                try:
                    return f"(PStr {cs(v)})"
                except ValueError as ex:
                    self.fail(e, str(ex))
            self.fail(e, 'constant')
        if isinstance(e, ast.Name):
            if e.id in RESERVED:
                self.fail(e, f'bare {e.id}')
            return f"(PVar {cs(e.id)})"
        if isinstance(e, ast.Attribute):
            if isinstance(e.value, ast.Name) and e.value.id == 'data':
                if e.attr.startswith('_') and len(e.attr) > 1:
                    return f"(PSlot {cs(e.attr[1:])})"
                self.fail(e, 'public attribute of data')
            if isinstance(e.value, ast.Name) and e.value.id == 'writer':
                if e.attr == 'string_sanitization_mode':
                    return "PWriterMode"
                self.fail(e, 'attribute of writer')
            if isinstance(e.value, ast.Name) and e.value.id in self.enums:
                mem = dict(self.enums[e.value.id])
                if e.attr in mem:
                    return f"(PConst {cs(e.value.id)} {cs(e.attr)} {cz(mem[e.attr])})"
                self.fail(e, 'no such enum member')
            self.fail(e, 'attribute')
        if isinstance(e, ast.Subscript):
            return f"(PIndex {X(e.value)} {X(e.slice)})"
        if isinstance(e, ast.Call):
            if e.keywords or not isinstance(e.func, ast.Name):
                self.fail(e, 'call')
            f, a = e.func.id, e.args
            if f == 'len' and len(a) == 1:
                if isinstance(a[0], ast.Name) and a[0].id == 'writer':
                    return "PWriterLen"
                return f"(PLen {X(a[0])})"
            if f == 'int' and len(a) == 1:
                return f"(PIntOf {X(a[0])})"
            if f == 'isinstance' and len(a) == 2:
                return f"(PIsInstance {X(a[0])} {cs(self.clsname(a[1]))})"
            if f == 'cast' and len(a) == 2:
                return f"(PCast {cs(self.clsname(a[0]))} {X(a[1])})"
            self.fail(e, 'call')
        if isinstance(e, ast.Compare):
            if len(e.ops) != 1:
                self.fail(e, 'chained comparison')
            op, l, r = e.ops[0], e.left, e.comparators[0]
            if isinstance(op, (ast.Is, ast.IsNot)):
                if not (isinstance(r, ast.Constant) and r.value is None):
                    self.fail(e, '`is` with something other than None')
                return f"({'PIsNone' if isinstance(op, ast.Is) else 'PIsNotNone'} {X(l)})"
            if type(op) in CMP:
                return f"(PCmp {CMP[type(op)]} {X(l)} {X(r)})"
            self.fail(e, 'comparison operator')
        if isinstance(e, ast.UnaryOp) and isinstance(e.op, ast.Not):
            return f"(PNot {X(e.operand)})"
        if isinstance(e, ast.BinOp) and isinstance(e.op, (ast.Add, ast.Sub)):
            return f"(PBin {'BAdd' if isinstance(e.op, ast.Add) else 'BSub'} {X(e.left)} {X(e.right)})"
        if isinstance(e, ast.IfExp):
            return f"(PIfElse {X(e.body)} {X(e.test)} {X(e.orelse)})"
        if isinstance(e, ast.BoolOp) and isinstance(e.op, ast.Or) and len(e.values) == 2:
            return f"(POr {X(e.values[0])} {X(e.values[1])})"
        self.fail(e, 'expression')

    # ---- statements
    def local(self, node, name):
        if name in RESERVED or name in self.enums or name in ('len', 'int', 'isinstance', 'cast', 'range', 'SerializationError'):
            self.fail(node, f'assignment to {name}')
        return cs(name)

    def block(self, stmts):
        return "[" + "; ".join(self.stmt(s) for s in stmts) + "]"

    def stmt(self, s):
        X = self.expr
        if isinstance(s, ast.Expr) and isinstance(s.value, ast.Call) and not s.value.keywords and isinstance(s.value.func, ast.Attribute):
            c = s.value
            base, meth, a = c.func.value, c.func.attr, c.args
            if isinstance(base, ast.Name) and base.id == 'writer':
                if meth in WMETH and len(a) == 1:
                    return f"SAdd {WMETH[meth]} {X(a[0])}"
                if meth in FIXED and len(a) == 3 and isinstance(a[2], ast.Constant) and type(a[2].value) is bool:
                    return f"SAddFixed {FIXED[meth]} {X(a[0])} {X(a[1])} {'true' if a[2].value else 'false'}"
                self.fail(s, 'writer method')
            if meth == 'serialize' and len(a) == 2 and isinstance(a[0], ast.Name) and a[0].id == 'writer':
                return f"SSerialize {cs(self.clsname(base))} {X(a[1])}"
            self.fail(s, 'call statement')
        if isinstance(s, ast.Assign) and len(s.targets) == 1 and s.type_comment is None:
            t = s.targets[0]
            if isinstance(t, ast.Name):
                return f"SAssign {self.local(s, t.id)} {X(s.value)}"
            if isinstance(t, ast.Attribute) and isinstance(t.value, ast.Name) and t.value.id == 'writer' and t.attr == 'string_sanitization_mode':
                return f"SSetMode {X(s.value)}"
            self.fail(s, 'assignment target')
        if isinstance(s, ast.AnnAssign) and s.simple == 1 and isinstance(s.target, ast.Name) and s.value is not None and isinstance(s.annotation, ast.Name):
            return f"SAssign {self.local(s, s.target.id)} {X(s.value)}"
        if isinstance(s, ast.If):
            return f"SIf {X(s.test)} {self.block(s.body)} {self.block(s.orelse)}"
        if isinstance(s, ast.For) and not s.orelse and s.type_comment is None and isinstance(s.target, ast.Name):
            it = s.iter
            if isinstance(it, ast.Call) and isinstance(it.func, ast.Name) and it.func.id == 'range' and len(it.args) == 1 and not it.keywords:
                return f"SFor {self.local(s, s.target.id)} {X(it.args[0])} {self.block(s.body)}"
            self.fail(s, 'for loop not over range(e)')
        if isinstance(s, ast.Raise) and s.cause is None and isinstance(s.exc, ast.Call) and isinstance(s.exc.func, ast.Name) \
                and s.exc.func.id == 'SerializationError' and len(s.exc.args) == 1 and not s.exc.keywords:
            return "SRaise"
        if isinstance(s, ast.Try) and not s.handlers and not s.orelse and s.finalbody:
            return f"STryFinally {self.block(s.body)} {self.block(s.finalbody)}"
        self.fail(s, 'statement')

    def function(self, fn):
        a = fn.args
        if not (len(fn.decorator_list) == 1 and isinstance(fn.decorator_list[0], ast.Name) and fn.decorator_list[0].id == 'staticmethod'):
            self.fail(fn, 'serialize is not a plain staticmethod')
        if a.posonlyargs or a.vararg or a.kwarg or a.defaults or a.kwonlyargs or [x.arg for x in a.args] != ['writer', 'data']:
            self.fail(fn, 'signature of serialize')
        body = fn.body[1:] if fn.body and is_doc(fn.body[0]) else fn.body
        return self.block(body)


RMETH = {'get_byte': 'GByte', 'get_char': 'GChar', 'get_short': 'GShort', 'get_three': 'GThree', 'get_int': 'GInt',
         'get_string': 'GString', 'get_encoded_string': 'GEncString'}
RFIXED = {'get_fixed_string': 'false', 'get_fixed_encoded_string': 'true'}
RATTR = {'remaining': 'DRemaining', 'position': 'DPosition', 'chunked_reading_mode': 'DMode'}


class DParser:
    """the `deserialize` method -> list dstmt (coq/Model/PyStmtR.v)"""

    def __init__(self, cls, enums, open_enums):
        self.cls, self.enums, self.open_enums = cls, enums, open_enums
        self.assigned, self.globals_used = set(), set()

    def fail(self, node, why):
        raise Unparsed(self.cls, getattr(node, 'lineno', 0), ast.dump(node) if isinstance(node, ast.AST) else repr(node), why)

    def clsname(self, e):
        d = dotted(e)
        if d is None or d.split('.')[0] == 'reader':
            self.fail(e, 'class name expected')
        self.globals_used.add(d.split('.')[0])
        return d

    def is_reader(self, e):
        return isinstance(e, ast.Name) and e.id == 'reader'

    # ---- expressions
    def expr(self, e):
        X = self.expr
        if isinstance(e, ast.Constant):
            v = e.value
            if v is None:
                return "DNone"
            if type(v) is bool:
                return f"(DBool {'true' if v else 'false'})"
            if type(v) is int:
                return f"(DInt {cz(v)})"
            self.fail(e, 'constant')
        if isinstance(e, ast.Name):
            if e.id == 'reader':
                self.fail(e, 'bare reader')
            return f"(DVar {cs(e.id)})"
        if isinstance(e, ast.Attribute):
            if self.is_reader(e.value):
                if e.attr in RATTR:
                    return RATTR[e.attr]
                self.fail(e, 'attribute of reader')
            if isinstance(e.value, ast.Name) and e.value.id in self.enums:
                mem = dict(self.enums[e.value.id])
                if e.attr in mem:
                    self.globals_used.add(e.value.id)
                    return f"(DConst {cs(e.value.id)} {cs(e.attr)} {cz(mem[e.attr])})"
                self.fail(e, 'no such enum member')
            self.fail(e, 'attribute')
        if isinstance(e, ast.List) and not e.elts:
            return "DEmptyList"
        if isinstance(e, ast.Call):
            f, a, kw = e.func, e.args, e.keywords
            if isinstance(f, ast.Attribute) and self.is_reader(f.value):
                if kw:
                    self.fail(e, 'reader method with keywords')
                if f.attr in RMETH and not a:
                    return f"(DGet {RMETH[f.attr]})"
                if f.attr in RFIXED and len(a) == 2 and isinstance(a[1], ast.Constant) and type(a[1].value) is bool:
                    return f"(DGetFixed {RFIXED[f.attr]} {X(a[0])} {'true' if a[1].value else 'false'})"
                if f.attr == 'get_bytes' and len(a) == 1:
                    return f"(DGetBytes {X(a[0])})"
                self.fail(e, 'reader method')
            if isinstance(f, ast.Attribute) and f.attr == 'deserialize' and not kw and len(a) == 1 and self.is_reader(a[0]):
                return f"(DDeser {cs(self.clsname(f.value))})"
            if isinstance(f, ast.Name) and not kw:
                if f.id == 'bytes' and len(a) == 1:
                    self.globals_used.add('bytes')
                    return f"(DBytesOf {X(a[0])})"
                if f.id == 'int' and len(a) == 1 and isinstance(a[0], ast.BinOp) and isinstance(a[0].op, ast.Div):
                    self.globals_used.add('int')
                    return f"(DIntDiv {X(a[0].left)} {X(a[0].right)})"
                if f.id in self.open_enums and len(a) == 1:
                    self.globals_used.add(f.id)
                    return f"(DEnumOf {cs(f.id)} {X(a[0])})"
            if not a and dotted(f) is not None and not (isinstance(f, ast.Name) and f.id in self.enums):
                # Cls(kw=var, ...)
                args = []
                for k in kw:
                    if k.arg is None or not isinstance(k.value, ast.Name) or k.value.id == 'reader':
                        self.fail(e, 'constructor argument that is not kw=<local variable>')
                    args.append(f"({cs(k.arg)}, {cs(k.value.id)})")
                if dotted(f) in ('int', 'bytes', 'range', 'len', 'bool', 'str', 'list', 'tuple', 'dict', 'set'):
                    self.fail(e, 'builtin called as a constructor')
                return f"(DNew {cs(self.clsname(f))} [{'; '.join(args)}])"
            self.fail(e, 'call')
        if isinstance(e, ast.Compare):
            if len(e.ops) != 1:
                self.fail(e, 'chained comparison')
            op, l, r = e.ops[0], e.left, e.comparators[0]
            if type(op) in CMP:
                return f"(DCmp {CMP[type(op)]} {X(l)} {X(r)})"
            self.fail(e, 'comparison operator')
        if isinstance(e, ast.BinOp) and isinstance(e.op, (ast.Add, ast.Sub)):
            return f"(DBin {'BAdd' if isinstance(e.op, ast.Add) else 'BSub'} {X(e.left)} {X(e.right)})"
        self.fail(e, 'expression')

    # ---- statements
    def local(self, node, name):
        if name == 'reader':
            self.fail(node, 'assignment to reader')
        self.assigned.add(name)
        return cs(name)

    def block(self, stmts):
        return "[" + "; ".join(self.stmt(s) for s in stmts) + "]"

    def stmt(self, s):
        X = self.expr
        if isinstance(s, ast.Expr):
            c = s.value
            if isinstance(c, ast.Call) and not c.keywords and isinstance(c.func, ast.Attribute):
                base, meth, a = c.func.value, c.func.attr, c.args
                if self.is_reader(base) and meth == 'next_chunk' and not a:
                    return "DSNextChunk"
                if isinstance(base, ast.Name) and not self.is_reader(base) and meth == 'append' and len(a) == 1:
                    return f"DSAppend {cs(base.id)} {X(a[0])}"
            return f"DSExpr {X(c)}"
        if isinstance(s, ast.Assign) and len(s.targets) == 1 and s.type_comment is None:
            t = s.targets[0]
            if isinstance(t, ast.Name):
                return f"DSAssign {self.local(s, t.id)} {X(s.value)}"
            if isinstance(t, ast.Attribute) and self.is_reader(t.value) and t.attr == 'chunked_reading_mode':
                return f"DSSetMode {X(s.value)}"
            if isinstance(t, ast.Attribute) and isinstance(t.value, ast.Name) and not self.is_reader(t.value) and t.attr == '_byte_size':
                return f"DSSetByteSize {cs(t.value.id)} {X(s.value)}"
            self.fail(s, 'assignment target')
        if isinstance(s, ast.AnnAssign) and s.simple == 1 and isinstance(s.target, ast.Name) and s.value is not None:
            return f"DSAssign {self.local(s, s.target.id)} {X(s.value)}"
        if isinstance(s, ast.If):
            return f"DSIf {X(s.test)} {self.block(s.body)} {self.block(s.orelse)}"
        if isinstance(s, ast.For) and not s.orelse and s.type_comment is None and isinstance(s.target, ast.Name):
            it = s.iter
            if isinstance(it, ast.Call) and isinstance(it.func, ast.Name) and it.func.id == 'range' and len(it.args) == 1 and not it.keywords:
                self.globals_used.add('range')
                return f"DSFor {self.local(s, s.target.id)} {X(it.args[0])} {self.block(s.body)}"
            self.fail(s, 'for loop not over range(e)')
        if isinstance(s, ast.While) and not s.orelse:
            return f"DSWhile {X(s.test)} {self.block(s.body)}"
        if isinstance(s, ast.Return) and s.value is not None:
            return f"DSReturn {X(s.value)}"
        if isinstance(s, ast.Try) and not s.handlers and not s.orelse and s.finalbody:
            return f"DSTryFinally {self.block(s.body)} {self.block(s.finalbody)}"
        self.fail(s, 'statement')

    def function(self, fn):
        a = fn.args
        if not (len(fn.decorator_list) == 1 and isinstance(fn.decorator_list[0], ast.Name) and fn.decorator_list[0].id == 'staticmethod'):
            self.fail(fn, 'deserialize is not a plain staticmethod')
        if a.posonlyargs or a.vararg or a.kwarg or a.defaults or a.kwonlyargs or [x.arg for x in a.args] != ['reader']:
            self.fail(fn, 'signature of deserialize')
        body = fn.body[1:] if fn.body and is_doc(fn.body[0]) else fn.body
        for n in ast.walk(fn):
            if isinstance(n, (ast.Global, ast.Nonlocal, ast.Lambda, ast.FunctionDef, ast.ClassDef, ast.NamedExpr, ast.ListComp, ast.Delete,
                              ast.Import, ast.ImportFrom, ast.With, ast.AugAssign)) and n is not fn:
                self.fail(n, 'scope-changing construct')
        out = self.block(body)
        clash = self.assigned & (self.globals_used | {'reader'})
        if clash:
            self.fail(fn, f'a name used as a global is assigned in the method: {sorted(clash)}')
        return out


class IParser:
    """the `__init__` method -> iparams * list istmt (coq/Model/RenderInit.v)"""

    def __init__(self, cls):
        self.cls = cls
        self.params = []

    def fail(self, node, why):
        raise Unparsed(self.cls, getattr(node, 'lineno', 0), ast.dump(node) if isinstance(node, ast.AST) else repr(node), why)

    def slot(self, e):
        """self._x -> x, else None"""
        if isinstance(e, ast.Attribute) and isinstance(e.value, ast.Name) and e.value.id == 'self':
            if len(e.attr) > 1 and e.attr[0] == '_' and e.attr[1] != '_':
                return e.attr[1:]
            self.fail(e, 'attribute of self that is not a single-underscore slot')
        return None

    def expr(self, e):
        X = self.expr
        if isinstance(e, ast.Constant):
            v = e.value
            if v is None:
                return "INone"
            if type(v) is bool:
                return f"(IBool {'true' if v else 'false'})"
            if type(v) is int:
                return f"(IInt {cz(v)})"
            if type(v) is str:
                try:
                    return f"(IStr {cs(v)})"
                except ValueError as ex:
                    self.fail(e, str(ex))
            self.fail(e, 'constant')
        if isinstance(e, ast.Name):
            if e.id in self.params:
                return f"(IVar {cs(e.id)})"
            self.fail(e, 'a bare name that is not a parameter')
        if isinstance(e, ast.Attribute):
            x = self.slot(e)
            if x is not None:
                return f"(ISelf {cs(x)})"
            self.fail(e, 'attribute')
        if isinstance(e, ast.Call):
            if e.keywords or not isinstance(e.func, ast.Name) or len(e.args) != 1 or isinstance(e.args[0], ast.Starred):
                self.fail(e, 'call')
            f = e.func.id
            if f in ('tuple', 'len'):
                if f in self.params:
                    self.fail(e, f'call of {f} while a parameter has that name')
                return f"({'ITuple' if f == 'tuple' else 'ILen'} {X(e.args[0])})"
            self.fail(e, 'call')
        if isinstance(e, ast.Compare):
            if len(e.ops) != 1:
                self.fail(e, 'chained comparison')
            op, l, r = e.ops[0], e.left, e.comparators[0]
            if isinstance(op, (ast.Is, ast.IsNot)) and isinstance(r, ast.Constant) and r.value is None:
                return f"({'IIsNone' if isinstance(op, ast.Is) else 'IIsNotNone'} {X(l)})"
            self.fail(e, 'comparison')
        if isinstance(e, ast.IfExp):
            return f"(IIfElse {X(e.body)} {X(e.test)} {X(e.orelse)})"
        self.fail(e, 'expression')

    def stmt(self, s):
        if isinstance(s, ast.Assign) and len(s.targets) == 1 and s.type_comment is None:
            x = self.slot(s.targets[0])
            if x is None:
                self.fail(s, 'assignment target')
            return f"ISetSelf {cs(x)} {self.expr(s.value)}"
        self.fail(s, 'statement')

    def function(self, fn):
        a = fn.args
        if fn.decorator_list:
            self.fail(fn, '__init__ is decorated')
        if a.posonlyargs or a.vararg or a.kwarg or a.defaults or [x.arg for x in a.args] != ['self']:
            self.fail(fn, 'signature of __init__')
        ps = []
        for k, d in zip(a.kwonlyargs, a.kw_defaults):
            if d is None:
                dflt = 'false'
            elif isinstance(d, ast.Constant) and d.value is None:
                dflt = 'true'
            else:
                self.fail(fn, f'default of {k.arg} is not None')
            if k.arg == 'self' or k.arg in self.params:
                self.fail(fn, f'parameter {k.arg} twice')
            self.params.append(k.arg)
            ps.append(f"({cs(k.arg)}, {dflt})")
        body = fn.body[1:] if fn.body and is_doc(fn.body[0]) else fn.body
        return "([" + "; ".join(ps) + "], [" + "; ".join(self.stmt(s) for s in body) + "])"



ATTR_HOOKS = ('__setattr__', '__getattr__', '__getattribute__', '__delattr__', '__set__', '__get__')


def getters_of(full, cd):
    """the properties of class `cd` -> Coq term of type list (string * string): (property name, slot it returns)"""
    def fail(node, why):
        raise Unparsed(full, getattr(node, 'lineno', 0), ast.dump(node)[:600] if isinstance(node, ast.AST) else repr(node), why)
    out, seen = [], set()
    for s in cd.body:
        if isinstance(s, (ast.Assign, ast.AnnAssign)):
            ts = s.targets if isinstance(s, ast.Assign) else [s.target]
            if any(isinstance(t, ast.Name) and t.id == '__slots__' for t in ts):
                fail(s, '__slots__')
        if isinstance(s, ast.AsyncFunctionDef):
            fail(s, 'async method')
        if not isinstance(s, ast.FunctionDef):
            continue
        decs = []
        for d in s.decorator_list:
            if not (isinstance(d, ast.Name) and d.id in ('property', 'staticmethod')):
                fail(s, 'decorator')
            decs.append(d.id)
        if s.name in ATTR_HOOKS:
            fail(s, 'attribute hook')
        if s.name in seen:
            fail(s, f'{s.name} defined twice')
        seen.add(s.name)
        if 'property' not in decs:
            continue
        a = s.args
        if decs != ['property'] or a.posonlyargs or a.vararg or a.kwarg or a.defaults or a.kwonlyargs or [x.arg for x in a.args] != ['self']:
            fail(s, 'property signature')
        body = s.body[1:] if s.body and is_doc(s.body[0]) else s.body
        if len(body) == 1 and isinstance(body[0], ast.Return):
            v = body[0].value
            if isinstance(v, ast.Attribute) and isinstance(v.value, ast.Name) and v.value.id == 'self' \
                    and len(v.attr) > 1 and v.attr[0] == '_' and v.attr[1] != '_':
                out.append(f"({cs(s.name)}, {cs(v.attr[1:])})")
                continue
        fail(s, 'property body')
    return "[" + "; ".join(out) + "]"


def open_enums_of(mods):
    """names of the IntEnum classes declared `class E(IntEnum, metaclass=ProtocolEnumMeta)` (E(<any int>) succeeds)"""
    out = set()
    for tree in mods.values():
        for cd in tree.body:
            if isinstance(cd, ast.ClassDef) and any(isinstance(b, ast.Name) and b.id == 'IntEnum' for b in cd.bases) \
                    and any(k.arg == 'metaclass' and isinstance(k.value, ast.Name) and k.value.id == 'ProtocolEnumMeta' for k in cd.keywords):
                out.add(cd.name)
    return out


def enums_of(mods):
    """IntEnum classes of the package: {class name: [(member, value)]}; a name defined twice is dropped (fail closed at its uses)"""
    out, twice = {}, set()
    for tree in mods.values():
        for cd in tree.body:
            if isinstance(cd, ast.ClassDef) and any(isinstance(b, ast.Name) and b.id == 'IntEnum' for b in cd.bases):
                vals, ok = [], True
                for s in cd.body:
                    if is_doc(s):
                        continue
                    if isinstance(s, ast.Assign) and len(s.targets) == 1 and isinstance(s.targets[0], ast.Name):
                        v = s.value
                        if isinstance(v, ast.Constant) and type(v.value) is int:
                            vals.append((s.targets[0].id, v.value))
                            continue
                        if isinstance(v, ast.UnaryOp) and isinstance(v.op, ast.USub) and isinstance(v.operand, ast.Constant) and type(v.operand.value) is int:
                            vals.append((s.targets[0].id, -v.operand.value))
                            continue
                    ok = False
                if cd.name in out or cd.name in twice or not ok or len(set(n for n, _ in vals)) != len(vals):
                    twice.add(cd.name)
                    out.pop(cd.name, None)
                else:
                    out[cd.name] = vals
    return out


def parse_sources(sources):
    """{relative path: text} -> dict(classes=[(dotted class name, coq term of type list pstmt)], unparsed=[Unparsed])"""
    mods, unparsed = {}, []
    for path in sorted(sources):
        if not path.endswith('.py'):
            continue
        try:
            mods[path] = ast.parse(sources[path])
        except SyntaxError as ex:
            unparsed.append(Unparsed(path, ex.lineno or 0, path, 'syntax error'))
    enums = enums_of(mods)
    opened = open_enums_of(mods) & set(enums)
    classes, dclasses, dunparsed = [], [], []
    iclasses, iunparsed = [], []
    gclasses, gunparsed = [], []

    def walk(cd, prefix):
        full = prefix + cd.name
        fns = [s for s in cd.body if isinstance(s, ast.FunctionDef) and s.name == 'serialize']
        if len(fns) > 1:
            unparsed.append(Unparsed(full, cd.lineno, full, 'serialize defined twice'))
        elif fns:
            try:
                classes.append((full, Parser(full, enums).function(fns[0])))
            except Unparsed as u:
                unparsed.append(u)
        dfns = [s for s in cd.body if isinstance(s, ast.FunctionDef) and s.name == 'deserialize']
        if len(dfns) > 1:
            dunparsed.append(Unparsed(full, cd.lineno, full, 'deserialize defined twice'))
        elif dfns:
            try:
                dclasses.append((full, DParser(full, enums, opened).function(dfns[0])))
            except Unparsed as u:
                dunparsed.append(u)
        ifns = [s for s in cd.body if isinstance(s, ast.FunctionDef) and s.name == '__init__']
        if len(ifns) > 1:
            iunparsed.append(Unparsed(full, cd.lineno, full, '__init__ defined twice'))
        elif ifns:
            try:
                iclasses.append((full, IParser(full).function(ifns[0])))
            except Unparsed as u:
                iunparsed.append(u)
            except ValueError as ex:          # a name that is not ASCII
                iunparsed.append(Unparsed(full, ifns[0].lineno, full, str(ex)))
            try:
                gclasses.append((full, getters_of(full, cd)))
            except Unparsed as u:
                gunparsed.append(u)
            except ValueError as ex:
                gunparsed.append(Unparsed(full, cd.lineno, full, str(ex)))
        for s in cd.body:
            if isinstance(s, ast.ClassDef):
                walk(s, full + '.')
    for path, tree in mods.items():
        for s in tree.body:
            if isinstance(s, ast.ClassDef):
                walk(s, '')
    return dict(classes=classes, unparsed=unparsed, enums=enums, dclasses=dclasses, dunparsed=dunparsed, iclasses=iclasses, iunparsed=iunparsed,
                gclasses=gclasses, gunparsed=gunparsed)


def coq_parsed(classes):
    return "[" + ";\n   ".join(f"({cs(n)},\n    {t})" for n, t in classes) + "]"


if __name__ == '__main__':
    import os
    import sys
    root = sys.argv[1]
    srcs = {}
    for dp, _, fs in os.walk(root):
        for f in fs:
            if f.endswith('.py'):
                p = os.path.join(dp, f)
                srcs[os.path.relpath(p, root)] = open(p, encoding='utf-8').read()
    r = parse_sources(srcs)
    for u in r['unparsed']:
        print('UNPARSED', u)
    for u in r['dunparsed']:
        print('UNPARSED(deserialize)', u)
    for n, t in r['classes']:
        print(n, '\n   ', t)
    for n, t in r['dclasses']:
        print(n, '(deserialize)\n   ', t)
    for u in r['iunparsed']:
        print('UNPARSED(__init__)', u)
    for n, t in r['iclasses']:
        print(n, '(__init__)\n   ', t)
    for u in r['gunparsed']:
        print('UNPARSED(properties)', u)
    for n, t in r['gclasses']:
        print(n, '(properties)\n   ', t)
    print(len(r['classes']), 'classes,', len(r['unparsed']), 'unparsed;', len(r['dclasses']), 'deserialize methods,', len(r['dunparsed']), 'unparsed;',
          len(r['iclasses']), '__init__ methods,', len(r['iunparsed']), 'unparsed')
