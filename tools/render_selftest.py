"""Self-test of the statement-level tie (tools/py2stmt.py + coq/Model/RenderCheck.v, RenderCheckD.v, RenderCheckI.v): single-token changes of the SOURCE TEXT of
generated `serialize`, `deserialize` and `__init__` methods must never pass silently - each is either Unparsed (outside the statement subset) or reported
by Coq as a class whose statements differ from `render_serialize` of the model's body.

usage: render_selftest.py [n_random_trees=6]"""
import json
import os
import re
import sys
import time
sys.path.insert(0, os.path.dirname(os.path.abspath(__file__)))
from vlib import *
from genharness import *
from gencheck import *
import minieo

# (label, regex on one line of a serialize body, replacement)
MUTATIONS = [
    ('writer-method', r'writer\.add_char\(', 'writer.add_short('),
    ('writer-method-2', r'writer\.add_string\(', 'writer.add_encoded_string('),
    ('fixed-padded-flag', r', False\)$', ', True)'),
    ('length-op', r'(if len\(data\._\w+\)) > ', r'\1 >= '),
    ('length-op-2', r'(if len\(data\._\w+\)) != ', r'\1 > '),
    ('length-bound', r'(if len\(data\._\w+\) (?:>|!=) )(\d+):', lambda m: f"{m.group(1)}{int(m.group(2)) + 1}:"),
    ('none-check', r'(if data\._\w+) is None:', r'\1 is not None:'),
    ('break-byte', r'0xFF', '0xFE'),
    ('range', r'for i in range\(', 'for i in range(1 + '),
    ('loop-index', r'\[i\]', '[0]'),
    ('delimiter-guard', r'if i > 0:', 'if i > 1:'),
    ('or-to-and', r'reached_missing_optional or data', 'reached_missing_optional and data'),
    ('rmo-drop-or', r'= reached_missing_optional or (data\._\w+ is None)', r'= \1'),
    ('rmo-guard', r'if not reached_missing_optional:', 'if reached_missing_optional:'),
    ('raise-to-pass', r'raise SerializationError\(.*\)$', 'pass'),
    ('raise-other', r'raise SerializationError\(', 'raise ValueError('),
    ('mode-value', r'string_sanitization_mode = True', 'string_sanitization_mode = False'),
    ('restore-mode', r'string_sanitization_mode = old_string_sanitization_mode', 'string_sanitization_mode = False'),
    ('offset-sign', r'(data\._\w+\)?) - (\d+)\)', r'\1 + \2)'),
    ('offset-value', r'(data\._\w+\)?) - (\d+)\)', lambda m: f"{m.group(1)} - {int(m.group(2)) + 1})"),
    ('isinstance-neg', r'if not isinstance\(', 'if isinstance('),
    ('case-op', r'(if data\._\w+) == ', r'\1 != '),
    ('case-data-check', r'(if data\._\w+_data) is not None:', r'\1 is None:'),
    ('dummy-guard', r'if len\(writer\) == old_writer_length:', 'if len(writer) != old_writer_length:'),
    ('old-length', r'old_writer_length: int = len\(writer\)', 'old_writer_length: int = 0'),
    ('rmo-init', r'reached_missing_optional: bool = False', 'reached_missing_optional: bool = True'),
    ('bool-expr', r'\(1 if (.*) else 0\)', r'(0 if \1 else 1)'),
    ('int-call', r'\(int\((.*)\)\)$', r'(\1)'),
    ('serialize-target', r'(\w+)\.serialize\(writer, (data\._\w+)', r'\1.serialize(writer, \2 or \2'),
    ('slot-name', r'writer\.add_(\w+)\(data\._(\w+)\)', r'writer.add_\1(data._\2x)'),
    ('drop-statement', r'^(\s*)writer\.add_\w+\(data\._\w+\)$', r'\1writer.string_sanitization_mode = writer.string_sanitization_mode'),
]


# (label, regex on one line of a deserialize body, replacement)
DMUTATIONS = [
    ('d-reader-method', r'reader\.get_char\(\)', 'reader.get_short()'),
    ('d-reader-method-2', r'reader\.get_string\(\)', 'reader.get_encoded_string()'),
    ('d-fixed-padded-flag', r', False\)$', ', True)'),
    ('d-fixed-encoded', r'reader\.get_fixed_string\(', 'reader.get_fixed_encoded_string('),
    ('d-fixed-length', r'(reader\.get_fixed_\w+\()(\d+),', lambda m: f"{m.group(1)}{int(m.group(2)) + 1},"),
    ('d-optional-guard', r'if reader\.remaining > 0:', 'if reader.remaining >= 0:'),
    ('d-optional-init', r'(: Optional\[.*\]) = None$', r'\1 = 0'),
    ('d-while-to-if', r'while reader\.remaining > 0:', 'if reader.remaining > 0:'),
    ('d-while-cond', r'while reader\.remaining > 0:', 'while reader.remaining > 1:'),
    ('d-range', r'for i in range\(', 'for i in range(1 + '),
    ('d-separator-guard', r'if i \+ 1 < ', 'if i + 2 < '),
    ('d-separator-guard-op', r'(if i \+ 1) < ', r'\1 > '),
    ('d-drop-next-chunk', r'reader\.next_chunk\(\)', 'reader.remaining'),
    ('d-remaining-size', r'int\(reader\.remaining / (\d+)\)', lambda m: f"int(reader.remaining / {int(m.group(1)) + 1})"),
    ('d-remaining-floor', r'int\(reader\.remaining / (\d+)\)', r'reader.remaining - \1'),
    ('d-mode-value', r'chunked_reading_mode = True', 'chunked_reading_mode = False'),
    ('d-restore-mode', r'chunked_reading_mode = old_chunked_reading_mode', 'chunked_reading_mode = False'),
    ('d-save-mode', r'old_chunked_reading_mode: bool = reader\.chunked_reading_mode', 'old_chunked_reading_mode: bool = False'),
    ('d-bool-conv', r'\(\) != 0$', '() == 0'),
    ('d-enum-conv-dropped', r'= \w+\((reader\.get_\w+\(\))\)$', r'= \1'),
    ('d-offset-sign', r'(reader\.get_\w+\(\)) \+ (\d+)', r'\1 - \2'),
    ('d-offset-value', r'(reader\.get_\w+\(\)) ([+-]) (\d+)', lambda m: f"{m.group(1)} {m.group(2)} {int(m.group(3)) + 1}"),
    ('d-dummy-guard', r'if reader\.position == reader_start_position:', 'if reader.position != reader_start_position:'),
    ('d-start-position', r'reader_start_position: int = reader\.position', 'reader_start_position: int = 0'),
    ('d-byte-size', r'reader\.position - reader_start_position', 'reader.position'),
    ('d-byte-size-target', r'result\._byte_size = ', 'result._byte_sizes = '),
    ('d-case-op', r'^(\s*(?:el)?if \w+) == ', r'\1 != '),
    ('d-case-value', r'^(\s*(?:el)?if \w+ == )(\d+):', lambda m: f"{m.group(1)}{int(m.group(2)) + 1}:"),
    ('d-case-data-none', r'^(\s*\w+_data) = None$', r'\1 = 0'),
    ('d-ctor-arg', r'(result = [\w.]+\()(\w+)=(\w+), (\w+)=(\w+)', r'\1\2=\5, \4=\3'),
    ('d-ctor-arg-dropped', r'(result = [\w.]+\()(\w+)=(\w+), ', r'\1'),
    ('d-return', r'return result', 'return None'),
    ('d-blob-bytes', r'bytes\((reader\.get_bytes\(reader\.remaining\))\)', r'\1'),
    ('d-blob-length', r'reader\.get_bytes\(reader\.remaining\)', 'reader.get_bytes(reader.position)'),
    ('d-callee', r'(\w+)\.deserialize\(reader\)', r'\1x.deserialize(reader)'),
    ('d-append-to-assign', r'^(\s*)(\w+)\.append\((.*)\)$', r'\1\2 = \3'),
    ('d-list-init', r'^(\s*\w+) = \[\]$', r'\1 = None'),
    ('d-drop-read', r'^(\s*)reader\.get_\w+\(\)$', r'\1reader.position'),
]

# (label, regex on one line of an __init__ method (the `def` line included), replacement)
IMUTATIONS = [
    ('i-drop-copy', r'= tuple\((\w+)\)$', r'= \1'),
    ('i-opt-drop-copy', r'= None if (\w+) is None else tuple\((\w+)\)$', r'= \2'),
    ('i-opt-test', r'= None if (\w+) is None else', r'= None if \1 is not None else'),
    ('i-opt-branches', r'= None if (\w+) is None else (tuple\(\w+\))$', r'= \2 if \1 is None else None'),
    ('i-copy-to-list', r'= tuple\((\w+)\)$', r'= list(\1)'),
    ('i-len-of-param', r'= len\(self\._(\w+)\)', r'= len(\1)'),
    ('i-len-guard', r' if self\._(\w+) is not None else None$', r' if self._\1 is None else None'),
    ('i-len-drop-guard', r'(= len\(self\._\w+\)) if self\._\w+ is not None else None$', r'\1'),
    ('i-len-add-guard', r'(= len\((self\._\w+)\))$', r'\1 if \2 is not None else None'),
    ('i-len-to-const', r'= len\(self\._\w+\)', '= 0'),
    ('i-slot-name', r'^(\s*)self\._(\w+) = (\w+)$', r'\1self._\2x = \3'),
    ('i-public-attr', r'^(\s*)self\._(\w+) = (\w+)$', r'\1self.\2 = \3'),
    ('i-source-none', r'^(\s*self\._\w+) = (\w+)$', r'\1 = None'),
    ('i-source-other', r'^(\s*self\._\w+) = (\w+)$', r'\1 = self'),
    ('i-default-value', r'(\w+: [^,()=]*) = None([,)])', r'\1 = 0\2'),
    ('i-default-dropped', r'(: Optional\[[^=]*?\]) = None', r'\1'),
    ('i-default-added', r'(\(self, \*, \w+: \w+)([,)])', r'\1 = None\2'),
    ('i-positional', r'\(self, \*, ', '(self, '),
    ('i-param-name', r'\(self, \*, (\w+):', r'(self, *, \1x:'),
    ('i-kwargs', r'\):$', ', **kw):'),
    ('i-literal-int', r'^(\s*self\._\w+) = (\d+)$', lambda m: f"{m.group(1)} = {int(m.group(2)) + 1}"),
    ('i-literal-str', r'^(\s*self\._\w+) = "(.*)"$', r'\1 = "\2x"'),
    ('i-literal-to-param', r'^(\s*self\._(\w+)) = (?:\d+|".*"|True|False)$', r'\1 = \2'),
    ('i-drop-statement', r'^(\s*)self\._(\w+) = (.*)$', r'\1pass'),
    ('i-dup-as-other-slot', r'^(\s*)self\._(\w+) = (\w+)$', r'\1self._\2 = self._\2 = \3'),
]

# (label, regex on one line of a property (from `@property` to its `return`), replacement)
GMUTATIONS = [
    ('g-return-slot', r'return self\._(\w+)$', r'return self._\1_'),
    ('g-return-copy', r'return self\._(\w+)$', r'return list(self._\1)'),
    ('g-name', r'def (\w+)\(self\) ->', r'def \1_(self) ->'),
    ('g-not-a-property', r'@property', '@staticmethod'),
    ('g-other-decorator', r'@property', '@functools.cached_property'),
]


def property_lines(src):
    out, inside = [], False
    for k, line in enumerate(src.split('\n')):
        if re.match(r'\s*@property', line):
            inside = True
        if inside:
            out.append(k)
        if inside and re.match(r'\s*return ', line):
            inside = False
    return out


def init_lines(src):
    """indices of the lines of __init__ methods (the `def` line, up to the next decorator or `def`)"""
    out, inside = [], False
    for k, line in enumerate(src.split('\n')):
        if re.match(r'\s*def __init__\(', line):
            inside = True
            out.append(k)
            continue
        if inside and re.match(r'\s*(def \w+\(|@\w+)', line):
            inside = False
        if inside:
            out.append(k)
    return out


def deserialize_lines(src):
    """indices of the lines of deserialize bodies (between `def deserialize` and the next `def`)"""
    out, inside = [], False
    for k, line in enumerate(src.split('\n')):
        if re.match(r'\s*def deserialize\(', line):
            inside = True
            continue
        if inside and re.match(r'\s*def \w+\(', line):
            inside = False
        if inside:
            out.append(k)
    return out


def serialize_lines(src):
    """indices of the lines of serialize bodies (between `def serialize` and `def deserialize`)"""
    out, inside = [], False
    for k, line in enumerate(src.split('\n')):
        if re.match(r'\s*def serialize\(', line):
            inside = True
            continue
        if re.match(r'\s*def deserialize\(', line):
            inside = False
        if inside:
            out.append(k)
    return out


def main():
    n = int(sys.argv[1]) if len(sys.argv) > 1 else 6
    rng = random.Random(5)
    trees = [dict(name=nm, tree=t) for nm, t in minieo.corpus() if not nm.startswith('mini-eo-literals')]
    G = SpecGen(rng, wire_ok=False)
    trees += [dict(name=f'random-{k}', tree=G.tree()) for k in range(n)]
    S = Scratch()
    R = GenRunner(S, workers=4)
    res = R.run([dict(id=k, files=tree_xml(t['tree']), jobs=[], seed=0, want_sources=True) for k, t in enumerate(trees)])
    base = [dict(name=t['name'], tree=t['tree'], result=res[k]) for k, t in enumerate(trees) if res[k].get('accepted') and res[k].get('sources')]
    t0 = time.time()
    pb = render_stream(None, base, 'rst_base')
    print(f"unmutated: {len(base)} trees, {render_stream.last['classes']} classes, {len(pb)} problems")
    entries, per = [], {}
    PER_KIND = 4
    for label, pat, rep in MUTATIONS + DMUTATIONS + IMUTATIONS + GMUTATIONS:
        per[label] = dict(sites=0, applied=0)
        which = (deserialize_lines if label.startswith('d-') else init_lines if label.startswith('i-')
                 else property_lines if label.startswith('g-') else serialize_lines)
        for e in base:
            for path in sorted(e['result']['sources']):
                src = e['result']['sources'][path]
                lines = src.split('\n')
                for k in which(src):
                    new = re.sub(pat, rep, lines[k], count=1)
                    if new != lines[k]:
                        per[label]['sites'] += 1
                        if per[label]['applied'] < PER_KIND and rng.random() < 0.35:
                            per[label]['applied'] += 1
                            m = dict(e['result']['sources'])
                            m[path] = '\n'.join(lines[:k] + [new] + lines[k + 1:])
                            entries.append(dict(name=f"{label}#{per[label]['applied']}@{e['name']}", tree=e['tree'], result=dict(accepted=True, sources=m),
                                                label=label, at=f"{path}:{k + 1}: {lines[k].strip()} -> {new.strip()}"))
    problems = render_stream(None, entries, 'rst_mut')
    flagged = {}
    for p in problems:
        flagged.setdefault(p['tree'], []).append(p['what'])
    silent = [e for e in entries if e['name'] not in flagged]
    for label in per:
        es = [e for e in entries if e['label'] == label]
        per[label]['unparsed'] = sum(1 for e in es if any(w == 'unparsed' for w in flagged.get(e['name'], [])))
        per[label]['mismatch'] = sum(1 for e in es if any(w.startswith('mismatch') for w in flagged.get(e['name'], [])))
        per[label]['silent'] = sum(1 for e in es if e['name'] not in flagged)
    print(f"source-text mutations: {len(entries)} applied, {len(silent)} accepted silently, {time.time() - t0:.0f}s")
    for k, d in per.items():
        print(f"   {k:22s} sites={d['sites']:5d} applied={d['applied']:2d} unparsed={d['unparsed']:2d} mismatch={d['mismatch']:2d} silent={d['silent']:2d}")
    for s in silent[:20]:
        print("   SILENT", s['name'], s['at'])
    if any('coqc failed' in p['what'] for p in problems):
        print("COQC FAILED", [p for p in problems if 'coqc failed' in p['what']][:2])
        return 2
    return 1 if silent or pb else 0


if __name__ == '__main__':
    sys.exit(main())
