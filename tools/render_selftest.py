"""Self-test of the statement-level tie (tools/py2stmt.py + coq/Model/RenderCheck.v): single-token changes of the SOURCE TEXT of
generated `serialize` methods must never pass silently - each is either Unparsed (outside the statement subset) or reported
by Coq as a class whose statements differ from `render_serialize` of the model's body.

usage: render_selftest.py [n_random_trees=6]"""
import json
import os
import re
import sys
import time
sys.path.insert(0, os.path.dirname(os.path.abspath(__file__)))
from vlib import *
from genharness import *
from gencheck import *
import minieo

# (label, regex on one line of a serialize body, replacement)
MUTATIONS = [
    ('writer-method', r'writer\.add_char\(', 'writer.add_short('),
    ('writer-method-2', r'writer\.add_string\(', 'writer.add_encoded_string('),
    ('fixed-padded-flag', r', False\)$', ', True)'),
    ('length-op', r'(if len\(data\._\w+\)) > ', r'\1 >= '),
    ('length-op-2', r'(if len\(data\._\w+\)) != ', r'\1 > '),
    ('length-bound', r'(if len\(data\._\w+\) (?:>|!=) )(\d+):', lambda m: f"{m.group(1)}{int(m.group(2)) + 1}:"),
    ('none-check', r'(if data\._\w+) is None:', r'\1 is not None:'),
    ('break-byte', r'0xFF', '0xFE'),
    ('range', r'for i in range\(', 'for i in range(1 + '),
    ('loop-index', r'\[i\]', '[0]'),
    ('delimiter-guard', r'if i > 0:', 'if i > 1:'),
    ('or-to-and', r'reached_missing_optional or data', 'reached_missing_optional and data'),
    ('rmo-drop-or', r'= reached_missing_optional or (data\._\w+ is None)', r'= \1'),
    ('rmo-guard', r'if not reached_missing_optional:', 'if reached_missing_optional:'),
    ('raise-to-pass', r'raise SerializationError\(.*\)$', 'pass'),
    ('raise-other', r'raise SerializationError\(', 'raise ValueError('),
    ('mode-value', r'string_sanitization_mode = True', 'string_sanitization_mode = False'),
    ('restore-mode', r'string_sanitization_mode = old_string_sanitization_mode', 'string_sanitization_mode = False'),
    ('offset-sign', r'(data\._\w+\)?) - (\d+)\)', r'\1 + \2)'),
    ('offset-value', r'(data\._\w+\)?) - (\d+)\)', lambda m: f"{m.group(1)} - {int(m.group(2)) + 1})"),
    ('isinstance-neg', r'if not isinstance\(', 'if isinstance('),
    ('case-op', r'(if data\._\w+) == ', r'\1 != '),
    ('case-data-check', r'(if data\._\w+_data) is not None:', r'\1 is None:'),
    ('dummy-guard', r'if len\(writer\) == old_writer_length:', 'if len(writer) != old_writer_length:'),
    ('old-length', r'old_writer_length: int = len\(writer\)', 'old_writer_length: int = 0'),
    ('rmo-init', r'reached_missing_optional: bool = False', 'reached_missing_optional: bool = True'),
    ('bool-expr', r'\(1 if (.*) else 0\)', r'(0 if \1 else 1)'),
    ('int-call', r'\(int\((.*)\)\)$', r'(\1)'),
    ('serialize-target', r'(\w+)\.serialize\(writer, (data\._\w+)', r'\1.serialize(writer, \2 or \2'),
    ('slot-name', r'writer\.add_(\w+)\(data\._(\w+)\)', r'writer.add_\1(data._\2x)'),
    ('drop-statement', r'^(\s*)writer\.add_\w+\(data\._\w+\)$', r'\1writer.string_sanitization_mode = writer.string_sanitization_mode'),
]


def serialize_lines(src):
    """indices of the lines of serialize bodies (between `def serialize` and `def deserialize`)"""
    out, inside = [], False
    for k, line in enumerate(src.split('\n')):
        if re.match(r'\s*def serialize\(', line):
            inside = True
            continue
        if re.match(r'\s*def deserialize\(', line):
            inside = False
        if inside:
            out.append(k)
    return out


def main():
    n = int(sys.argv[1]) if len(sys.argv) > 1 else 6
    rng = random.Random(5)
    trees = [dict(name=nm, tree=t) for nm, t in minieo.corpus() if not nm.startswith('mini-eo-literals')]
    G = SpecGen(rng, wire_ok=False)
    trees += [dict(name=f'random-{k}', tree=G.tree()) for k in range(n)]
    S = Scratch()
    R = GenRunner(S, workers=4)
    res = R.run([dict(id=k, files=tree_xml(t['tree']), jobs=[], seed=0, want_sources=True) for k, t in enumerate(trees)])
    base = [dict(name=t['name'], tree=t['tree'], result=res[k]) for k, t in enumerate(trees) if res[k].get('accepted') and res[k].get('sources')]
    t0 = time.time()
    pb = render_stream(None, base, 'rst_base')
    print(f"unmutated: {len(base)} trees, {render_stream.last['classes']} classes, {len(pb)} problems")
    entries, per = [], {}
    PER_KIND = 4
    for label, pat, rep in MUTATIONS:
        per[label] = dict(sites=0, applied=0)
        for e in base:
            for path in sorted(e['result']['sources']):
                src = e['result']['sources'][path]
                lines = src.split('\n')
                for k in serialize_lines(src):
                    new = re.sub(pat, rep, lines[k], count=1)
                    if new != lines[k]:
                        per[label]['sites'] += 1
                        if per[label]['applied'] < PER_KIND and rng.random() < 0.35:
                            per[label]['applied'] += 1
                            m = dict(e['result']['sources'])
                            m[path] = '\n'.join(lines[:k] + [new] + lines[k + 1:])
                            entries.append(dict(name=f"{label}#{per[label]['applied']}@{e['name']}", tree=e['tree'], result=dict(accepted=True, sources=m),
                                                label=label, at=f"{path}:{k + 1}: {lines[k].strip()} -> {new.strip()}"))
    problems = render_stream(None, entries, 'rst_mut')
    flagged = {}
    for p in problems:
        flagged.setdefault(p['tree'], []).append(p['what'])
    silent = [e for e in entries if e['name'] not in flagged]
    for label in per:
        es = [e for e in entries if e['label'] == label]
        per[label]['unparsed'] = sum(1 for e in es if any(w == 'unparsed' for w in flagged.get(e['name'], [])))
        per[label]['mismatch'] = sum(1 for e in es if any(w.startswith('mismatch') for w in flagged.get(e['name'], [])))
        per[label]['silent'] = sum(1 for e in es if e['name'] not in flagged)
    print(f"source-text mutations: {len(entries)} applied, {len(silent)} accepted silently, {time.time() - t0:.0f}s")
    for k, d in per.items():
        print(f"   {k:22s} sites={d['sites']:5d} applied={d['applied']:2d} unparsed={d['unparsed']:2d} mismatch={d['mismatch']:2d} silent={d['silent']:2d}")
    for s in silent[:20]:
        print("   SILENT", s['name'], s['at'])
    if any('coqc failed' in p['what'] for p in problems):
        print("COQC FAILED", [p for p in problems if 'coqc failed' in p['what']][:2])
        return 2
    return 1 if silent or pb else 0


if __name__ == '__main__':
    sys.exit(main())
