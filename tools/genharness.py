"""Harness for the generator properties (C01 C02 C03 C15 C16 C17 ...): specification trees as Python data, printers to
XML and to Coq raw terms (Model/Spec.v), a grammar-based random tree generator with a feature matrix, value generators,
the pool of driver processes that run the REAL generator and generated code, and the E1 case files for Model/GenHarness.v."""
import copy
import json
import os
import random
import re
import subprocess
import sys
import tempfile
import shutil
from xml.sax.saxutils import escape, quoteattr
from vlib import *

SKELETON = ['', 'map', 'net', 'net/client', 'net/server', 'pub', 'pub/server']
INTS = ['byte', 'char', 'short', 'three', 'int']
IMAX = {'byte': 255, 'char': 252, 'short': 64008, 'three': 16194276, 'int': 4097152080}
ISIZE = {'byte': 1, 'char': 1, 'short': 2, 'three': 3, 'int': 4}


# ------------------------------------------------------------------------------------------------ construction helpers
def F(name, type_, text=None, **attrs):
    a = {}
    if name is not None:
        a['name'] = name
    a['type'] = type_
    for k, v in attrs.items():
        a[k.replace('_', '-')] = v
    return {'tag': 'field', 'attrs': a, 'text': text}


def A(name, type_, **attrs):
    a = {'name': name, 'type': type_}
    for k, v in attrs.items():
        a[k.replace('_', '-')] = v
    return {'tag': 'array', 'attrs': a}


def L(name, type_, **attrs):
    a = {'name': name, 'type': type_}
    a.update(attrs)
    return {'tag': 'length', 'attrs': a}


def D(type_, text):
    return {'tag': 'dummy', 'attrs': {'type': type_}, 'text': text}


def SW(field, *cases):
    return {'tag': 'switch', 'attrs': {'field': field}, 'cases': list(cases)}


def CASE(value, *body, default=False):
    a = {}
    if value is not None:
        a['value'] = value
    if default:
        a['default'] = 'true'
    return {'attrs': a, 'body': list(body)}


def CH(*body):
    return {'tag': 'chunked', 'body': list(body)}


BR = {'tag': 'break'}


def empty_tree():
    t = {p: {'enums': [], 'structs': [], 'packets': []} for p in SKELETON}
    t['net']['enums'] = [{'name': 'PacketFamily', 'type': 'byte', 'values': [('Init', '255'), ('Talk', '18'), ('Welcome', '5')]},
                         {'name': 'PacketAction', 'type': 'byte', 'values': [('Init', '255'), ('Request', '1'), ('Reply', '3')]}]
    return t


# ------------------------------------------------------------------------------------------------ printers
def xml_instr(i, ind='  '):
    t = i['tag']
    attrs = ''.join(f" {k}={quoteattr(str(v))}" for k, v in i.get('attrs', {}).items())
    cm = f"<comment>{escape(i['comment'])}</comment>" if i.get('comment') is not None else ''      # documentation only: becomes a docstring
    if t in ('field', 'dummy'):
        if i.get('text') is not None or cm:
            return f"{ind}<{t}{attrs}>{cm}{escape(i['text']) if i.get('text') is not None else ''}</{t}>\n"
        return f"{ind}<{t}{attrs}/>\n"
    if t in ('array', 'length'):
        return f"{ind}<{t}{attrs}>{cm}</{t}>\n" if cm else f"{ind}<{t}{attrs}/>\n"
    if t == 'break':
        return f"{ind}<break/>\n"
    if t == 'chunked':
        return f"{ind}<chunked>\n" + ''.join(xml_instr(x, ind + '  ') for x in i['body']) + f"{ind}</chunked>\n"
    if t == 'switch':
        s = f"{ind}<switch{attrs}>\n"
        for c in i['cases']:
            ca = ''.join(f" {k}={quoteattr(str(v))}" for k, v in c['attrs'].items())
            s += f"{ind}  <case{ca}>" + (f"<comment>{escape(c['comment'])}</comment>" if c.get('comment') is not None else '') + "\n" + ''.join(xml_instr(x, ind + '    ') for x in c['body']) + f"{ind}  </case>\n"
        return s + f"{ind}</switch>\n"
    raise ValueError(t)


def xml_file(f):
    s = "<protocol>\n"
    for e in f['enums']:
        a = ''.join(f" {k}={quoteattr(str(e[k]))}" for k in ('name', 'type') if e.get(k) is not None)
        s += f" <enum{a}>\n" + (f"  <comment>{escape(e['comment'])}</comment>\n" if e.get('comment') is not None else '')
        for n, v in e['values']:
            na = f" name={quoteattr(n)}" if n is not None else ''
            vc = (e.get('value_comments') or {}).get(n)
            s += f"  <value{na}>{'<comment>' + escape(vc) + '</comment>' if vc is not None else ''}{escape(v) if v is not None else ''}</value>\n"
        s += " </enum>\n"
    for st in f['structs']:
        a = f" name={quoteattr(st['name'])}" if st.get('name') is not None else ''
        s += f" <struct{a}>\n" + (f"  <comment>{escape(st['comment'])}</comment>\n" if st.get('comment') is not None else '') + ''.join(xml_instr(i) for i in st['body']) + " </struct>\n"
    for p in f['packets']:
        a = ''.join(f" {k}={quoteattr(str(p[k]))}" for k in ('family', 'action') if p.get(k) is not None)
        s += f" <packet{a}>\n" + (f"  <comment>{escape(p['comment'])}</comment>\n" if p.get('comment') is not None else '') + ''.join(xml_instr(i) for i in p['body']) + " </packet>\n"
    return s + "</protocol>\n"


def tree_xml(tree):
    return {p: xml_file(f) for p, f in tree.items()}


def xml_to_tree(files):
    """inverse of tree_xml (for replays, which record the XML text)"""
    import xml.etree.ElementTree as ET

    def cmt(e, d):
        c = e.find('comment')
        if c is not None:
            d['comment'] = c.text or ''
        return d

    def text_of(e):
        tx = (e.text or '') + ''.join(ch.tail or '' for ch in e)
        return tx if (tx != '' or (e.text is not None and len(e) == 0)) else None

    def body_of(e):
        return [instr(x) for x in e if x.tag != 'comment']

    def instr(e):
        t = e.tag
        if t in ('field', 'dummy'):
            return cmt(e, {'tag': t, 'attrs': dict(e.attrib), 'text': text_of(e)})
        if t in ('array', 'length'):
            return cmt(e, {'tag': t, 'attrs': dict(e.attrib)})
        if t == 'break':
            return dict(BR)
        if t == 'chunked':
            return {'tag': 'chunked', 'body': body_of(e)}
        if t == 'switch':
            return {'tag': 'switch', 'attrs': dict(e.attrib), 'cases': [cmt(c, {'attrs': dict(c.attrib), 'body': body_of(c)}) for c in e]}
        raise ValueError(t)
    tree = {}
    for path, text in files.items():
        root = ET.fromstring(text)
        f = {'enums': [], 'structs': [], 'packets': []}
        for e in root:
            if e.tag == 'enum':
                d = cmt(e, {'name': e.get('name'), 'type': e.get('type'), 'values': [(v.get('name'), text_of(v)) for v in e if v.tag == 'value']})
                vcs = {v.get('name'): v.find('comment').text or '' for v in e if v.tag == 'value' and v.find('comment') is not None}
                if vcs:
                    d['value_comments'] = vcs
                f['enums'].append(d)
            elif e.tag == 'struct':
                f['structs'].append(cmt(e, {'name': e.get('name'), 'body': body_of(e)}))
            elif e.tag == 'packet':
                f['packets'].append(cmt(e, {'family': e.get('family'), 'action': e.get('action'), 'body': body_of(e)}))
        tree[path] = f
    return tree


def cs(s):
    """Coq string literal"""
    assert all(32 <= ord(c) < 127 for c in s), s
    return '"' + s.replace('"', '""') + '"'


def cso(s):
    return 'None' if s is None else f"(Some {cs(str(s))})"


def ctext(s):
    """Coq string term for the TEXT of a hardcoded field / dummy.  The model's specification text is a Coq `string` (one ascii = one code
    point 0..255, Spec.str_cps), so Latin-1 text is carried exactly.  A character outside the Basic Multilingual Plane is not encodable
    in windows-1252; what the format prescribes for it is the single replacement byte '?', exactly as for the character '?' itself
    (Writer.encode_ansi maps every unencodable code point to 63), so the model is given '?' in its place.  Anything else is refused."""
    if s is None:
        return 'None'
    s = str(s)
    if all(32 <= ord(c) < 127 for c in s):
        return f"(Some {cs(s)})"
    parts = []
    for c in s:
        o = ord(c)
        if o > 0xFFFF:
            o = 63
        if o > 255:
            raise ValueError(f"hardcoded text the model cannot carry: {s!r}")
        parts.append(f'(String (Ascii.ascii_of_N {o}) ')
    return '(Some ' + ''.join(parts) + 'EmptyString' + ')' * len(parts) + ')'


def coq_instr(i):
    t, a = i['tag'], i.get('attrs', {})
    g = lambda k: cso(a.get(k))
    if t == 'field':
        return f"RField {g('name')} {g('type')} {g('length')} {g('padded')} {g('optional')} {ctext(i.get('text'))}"
    if t == 'array':
        return f"RArray {g('name')} {g('type')} {g('length')} {g('optional')} {g('delimited')} {g('trailing-delimiter')}"
    if t == 'length':
        return f"RLength {g('name')} {g('type')} {g('offset')} {g('optional')}"
    if t == 'dummy':
        return f"RDummy {g('type')} {ctext(i.get('text'))}"
    if t == 'break':
        return "RBreak"
    if t == 'chunked':
        return f"RChunked {clist(i['body'], coq_instr)}"
    if t == 'switch':
        return f"RSwitch {g('field')} " + clist(i['cases'], lambda c: f"RCase {cso(c['attrs'].get('value'))} {cso(c['attrs'].get('default'))} {clist(c['body'], coq_instr)}")
    raise ValueError(t)


def coq_file(path, f):
    en = clist(f['enums'], lambda e: f"mkREnum {cso(e.get('name'))} {cso(e.get('type'))} " + clist(e['values'], lambda nv: f"({cso(nv[0])}, {cso(nv[1])})"))
    st = clist(f['structs'], lambda s: f"mkRStruct {cso(s.get('name'))} {clist(s['body'], coq_instr)}")
    pk = clist(f['packets'], lambda p: f"mkRPacket {cso(p.get('family'))} {cso(p.get('action'))} {clist(p['body'], coq_instr)}")
    return f"mkRFile {cs(path)} {en} {st} {pk}"


def coq_tree(tree):
    return clist(sorted(tree.items()), lambda pf: coq_file(pf[0], pf[1]))


def cvalue(v):
    if v is None:
        return 'VNone'
    if 'i' in v:
        return f"(VInt {cz(v['i'])})"
    if 'e' in v:
        return f"(VInt {cz(v['v'])})"
    if 'b' in v:
        return f"(VBool {cbool(v['b'])})"
    if 's' in v:
        return f"(VStr {clist(v['s'])})"
    if 'y' in v:
        return f"(VBytes {clist(v['y'])})"
    if 'l' in v:
        return f"(VList {clist(v['l'], cvalue)})"
    if 'o' in v:
        return f"(VObj {cs(v['o'])} {clist(v['f'], lambda kv: f'({cs(kv[0])}, {cvalue(kv[1])})')})"
    raise ValueError(v)


def cresv(res, f):
    return f"(Ok {f(res[1]) if len(res) > 1 else 'tt'})" if res[0] == 'ok' else f"(Err {res[1]})"


# ------------------------------------------------------------------------------------------------ resolver (for value generation)
class Resolver:
    def __init__(self, tree):
        self.tree = tree
        self.enums, self.structs = {}, {}
        for p, f in tree.items():
            for e in f['enums']:
                self.enums[e['name']] = e
            for s in f['structs']:
                self.structs[s['name']] = s

    def rtype(self, ts, length=None):
        base, _, under = ts.partition(':')
        if base in INTS:
            return {'k': 'int', 'it': base}
        if base == 'bool':
            return {'k': 'bool', 'it': under or 'char'}
        if base in ('string', 'encoded_string'):
            return {'k': 'str', 'enc': base == 'encoded_string'}
        if base == 'blob':
            return {'k': 'blob'}
        if base in self.enums:
            e = self.enums[base]
            return {'k': 'enum', 'name': base, 'it': under or e['type'], 'values': [(n, int(v)) for n, v in e['values']]}
        if base in self.structs:
            return {'k': 'struct', 'name': base}
        raise KeyError(ts)


def pascal(s):
    return ''.join(p[:1].upper() + p[1:].lower() for p in s.split('_'))


EDGE_STR = [0x41, 0x61, 0x20, 0x7E, 0x7F, 0xFF, 0x79, 0x50, 0x4F, 0x22, 0x80, 0x20AC, 0x263A, 0xE9]


class ValueGen:
    """valid objects for generated classes (slot view: hardcoded named fields hold their literal)"""

    def __init__(self, tree, rng, plain_strings=False, free_optionals=False, boundary_lengths=False):
        self.boundary_lengths = boundary_lengths   # now and then the largest string length / element count a length field can carry
        self.R = Resolver(tree)
        self.rng = rng
        self.plain = plain_strings
        self.free_optionals = free_optionals     # optional fields independently None (any object the constructor accepts)
        self.all_ff = False                      # obj_ff: every string is made of y-diaeresis only (the break byte unless sanitised)
        self.minimal = False                     # obj_minimal: every optional absent, every free-length string / array as short as its declaration allows

    def gstr(self, n=None, maxn=6, chunked=False):
        rng = self.rng
        if n is None:
            n = 0 if self.minimal else rng.choice([0, 1, 2, 3, rng.randrange(0, maxn + 1)])
        if self.all_ff:
            return [0xFF] * n
        pool = [0x41, 0x62, 0x20, 0x79, 0x50, 0x4F, 0x22, 0x7D, 0xE9] if self.plain else EDGE_STR
        return [rng.choice(pool) if rng.random() < 0.6 else rng.randrange(0x21, 0x7E) for _ in range(n)]

    def gint(self, it, lo=0):
        m = IMAX[it]
        return self.rng.choice([lo, lo + 1, m, m - 1, min(252, m), min(253, m), min(254, m), self.rng.randrange(lo, m + 1), self.rng.randrange(lo, min(m, 300) + 1)])

    def value(self, ty, depth):
        k = ty['k']
        rng = self.rng
        if k == 'int':
            return {'i': self.gint(ty['it'])}
        if k == 'bool':
            return {'b': rng.random() < 0.5}
        if k == 'enum':
            vals = [v for _, v in ty['values']]
            if vals and rng.random() < 0.75:
                return {'e': ty['name'], 'v': rng.choice(vals)}
            return {'e': ty['name'], 'v': self.gint(ty['it'])}
        if k == 'str':
            return {'s': self.gstr()}
        if k == 'blob':
            return {'y': [rng.choice([0, 1, 254, 255, rng.randrange(256)]) for _ in range(rng.randrange(0, 5))]}
        if k == 'struct':
            return self.obj(ty['name'], self.R.structs[ty['name']]['body'], depth + 1)
        raise ValueError(ty)

    def obj_ff(self, cls, body):
        """an instance of cls all of whose strings consist of y-diaeresis: wherever sanitisation is due it shows, wherever it is not it shows too"""
        self.all_ff = True
        try:
            return self.obj(cls, body)
        finally:
            self.all_ff = False

    def obj_minimal(self, cls, body):
        """the instance of cls that writes as little as its declaration allows (optionals absent, free-length strings and arrays empty)"""
        self.minimal = True
        try:
            return self.obj(cls, body)
        finally:
            self.minimal = False

    def obj(self, cls, body, depth=0):
        fields = []
        self.walk(cls, body, fields, {}, depth, {'none': False, 'root': body})
        return {'o': cls, 'f': fields}

    def walk(self, cls, body, fields, env, depth, st):
        rng = self.rng
        # switch targets: bias their values to the case values
        # (looked up in the whole class body: a switch or a length reference inside <chunked> may use a field declared outside the section)
        root = st.get('root') or body
        targets = {}
        for i in flat_body(root):
            if i['tag'] == 'switch':
                targets[i['attrs']['field']] = i
        lens = {i['attrs']['name']: i for i in flat_body(root) if i['tag'] == 'length'}
        for i in body:
            t, a = i['tag'], i.get('attrs', {})
            if t == 'field':
                name = a.get('name')
                if name is None:
                    continue
                ty = self.R.rtype(a['type'])
                if i.get('text') is not None:
                    v = {'s': [ord(c) for c in i['text']]} if ty['k'] == 'str' else ({'i': int(i['text'])} if ty['k'] == 'int' else {'b': i['text'] == 'true'})
                else:
                    optional = str(a.get('optional', '')).lower() == 'true'
                    if optional and (self.minimal or (st['none'] and not self.free_optionals) or rng.random() < 0.4):
                        st['none'] = True
                        fields.append([name, None])
                        env[name] = None
                        continue
                    if name in targets and ty['k'] in ('int', 'enum'):
                        v = self.switch_value(ty, targets[name])
                    elif ty['k'] == 'str' and a.get('length') is not None:
                        ln = a['length']
                        padded = str(a.get('padded', '')).lower() == 'true'
                        if ln.isdigit():
                            n = int(ln)
                            v = {'s': self.gstr(rng.randrange(0, n + 1) if padded else n)}
                        else:
                            li = lens[ln]['attrs']
                            off = int(li.get('offset', 0))
                            mx = IMAX[li['type']] + off
                            top = mx if (self.boundary_lengths and mx <= 260 and rng.random() < 0.1) else None      # now and then the largest length the field can carry
                            v = {'s': self.gstr(max(off, 0) if self.minimal else (top if top is not None else rng.randrange(max(off, 0), max(off, 0) + min(mx, 6) + 1)))}
                    else:
                        v = self.value(ty, depth)
                fields.append([name, v])
                env[name] = v
            elif t == 'array':
                name = a['name']
                ty = self.R.rtype(a['type'])
                optional = str(a.get('optional', '')).lower() == 'true'
                if optional and (self.minimal or (st['none'] and not self.free_optionals) or rng.random() < 0.4):
                    st['none'] = True
                    fields.append([name, None])
                    continue
                ln = a.get('length')
                if ln is None:
                    n = 0 if self.minimal else rng.choice([0, 1, 2, 3])
                elif ln.isdigit():
                    n = int(ln)
                else:
                    li = lens[ln]['attrs']
                    off = int(li.get('offset', 0))
                    mx = IMAX[li['type']] + off
                    n = max(off, 0) if self.minimal else rng.randrange(max(off, 0), max(off, 0) + min(mx, 4) + 1)
                    if not self.minimal and self.boundary_lengths and mx <= 260 and depth == 0 and rng.random() < 0.1 and ty['k'] in ('int', 'bool', 'enum'):
                        n = mx                                                      # ... or the largest element count
                n = min(n, 3) if depth > 1 and ln is None else n
                fields.append([name, {'l': [self.value(ty, depth + 1) for _ in range(n)]}])
            elif t == 'chunked':
                self.walk(cls, i['body'], fields, env, depth, st)
            elif t == 'break':
                st['none'] = False          # a <break> starts a new segment: optionals may be present again
            elif t == 'switch':
                fname = a['field']
                fv = env.get(fname)
                z = None if fv is None else (fv.get('i') if 'i' in fv else fv.get('v'))
                fty = self.field_type(st.get('root') or body, fname)
                chosen = None
                for c in i['cases']:
                    if str(c['attrs'].get('default', '')).lower() == 'true':
                        chosen = c
                        break
                    cv = c['attrs']['value']
                    cz_ = int(cv) if cv.lstrip('-').isdigit() else dict(fty['values'])[cv]
                    if z == cz_:
                        chosen = c
                        break
                dn = fname + '_data'
                if chosen is None or not chosen['body']:
                    fields.append([dn, None])
                else:
                    suffix = 'Default' if str(chosen['attrs'].get('default', '')).lower() == 'true' else chosen['attrs']['value']
                    ccls = f"{cls}.{pascal(fname)}Data{suffix}"
                    fields.append([dn, self.obj(ccls, chosen['body'], depth + 1)])

    def field_type(self, body, fname):
        for i in body:
            if i['tag'] == 'field' and i['attrs'].get('name') == fname:
                return self.R.rtype(i['attrs']['type'])
            if i['tag'] == 'chunked':
                r = self.field_type(i['body'], fname)
                if r:
                    return r
        return None

    def switch_value(self, ty, sw):
        rng = self.rng
        vals = []
        for c in sw['cases']:
            cv = c['attrs'].get('value')
            if cv is not None:
                vals.append(int(cv) if cv.lstrip('-').isdigit() else dict(ty.get('values', []))[cv])
        if vals and rng.random() < 0.8:
            z = rng.choice(vals)
        else:
            z = self.gint(ty['it'])
        return {'e': ty['name'], 'v': z} if ty['k'] == 'enum' else {'i': z}


# ------------------------------------------------------------------------------------------------ random specification trees
class SpecGen:
    """Grammar-based generator of (mostly) accepted specification trees, with a feature matrix."""

    def __init__(self, rng, wire_ok=False):
        self.rng = rng
        self.wire_ok = wire_ok
        self.features = {}
        self.n = 0

    def feat(self, *k):
        key = ':'.join(str(x) for x in k)
        self.features[key] = self.features.get(key, 0) + 1

    def fresh(self, p):
        self.n += 1
        return f"{p}{self.n}"

    def tree(self):
        rng = self.rng
        self.n = 0
        t = empty_tree()
        self.enums = []
        self.structs = []      # (name, bounded_safe, fixed_size or None, has_ff_risk)
        RANK = {'': 0, 'pub': 1, 'map': 2, 'net': 3}
        self.rank = 0
        home = lambda: rng.choice(['', '', 'map', 'pub', 'net'])
        for _ in range(rng.randrange(1, 4)):
            name = self.fresh('Kind')
            it = rng.choice(['char', 'char', 'short', 'byte', 'three', 'int'])
            nv = rng.randrange(1, 5)
            ords = rng.sample(range(0, min(IMAX[it], 40) + 1), nv)
            vals = [(rng.choice(['A', 'B', 'C', 'Dee', 'None', 'E'][k:k + 1] or ['X']) + ('' if k < 6 else str(k)), str(o)) for k, o in enumerate(ords)]
            e = {'name': name, 'type': it, 'values': vals}
            t['']['enums'].append(e)       # enums live in the root file: every directory may refer to them without creating a cycle
            self.enums.append(e)
        for _ in range(rng.randrange(2, 6)):
            name = self.fresh('Rec')
            h = home()
            # generated packages import each other per directory: keep the directory reference graph acyclic (as eo-protocol does)
            self.rank = RANK[h]
            all_structs = self.structs
            self.structs = [x for x in all_structs if x[4] <= self.rank]
            body, info = self.body(top=True, depth=0, cls=name)
            self.structs = all_structs
            t[h]['structs'].append({'name': name, 'body': body})
            self.structs.append((name, info['bounded'], info['fixed'], info, RANK[h]))
        fams = [n for n, _ in t['net']['enums'][0]['values']]
        acts = [n for n, _ in t['net']['enums'][1]['values']]
        used = set()
        for _ in range(rng.randrange(0, 3)):
            where = rng.choice(['net/client', 'net/server'])
            fa, ac = rng.choice(fams), rng.choice(acts)
            if (where, fa, ac) in used:
                continue
            used.add((where, fa, ac))
            body, _ = self.body(top=True, depth=0, cls='P')
            t[where]['packets'].append({'family': fa, 'action': ac, 'body': body})
        self.decorate(t, random.Random(rng.random()))
        return t

    COMMENTS = ['The id.', 'a "quoted" name', "it's here", 'back\\slash', 'ends with a quote "', 'ends with a backslash \\', 'three """ quotes', '<b>markup</b> & more',
                'two\n  lines', '\\x41 \\N{DASH} \\u00e9', '100% {braces}', '', '"""']

    def decorate(self, t, rng):
        """documentation comments (they become docstrings) on some declarations, values, instructions and cases"""
        def walk(body):
            for i in body:
                if i['tag'] in ('field', 'array', 'length', 'dummy') and rng.random() < 0.12:
                    i['comment'] = rng.choice(self.COMMENTS)
                if i['tag'] == 'chunked':
                    walk(i['body'])
                if i['tag'] == 'switch':
                    for c in i['cases']:
                        if rng.random() < 0.12:
                            c['comment'] = rng.choice(self.COMMENTS)
                        walk(c['body'])
        for f in t.values():
            for e in f['enums']:
                if rng.random() < 0.2:
                    e['comment'] = rng.choice(self.COMMENTS)
                vc = {n: rng.choice(self.COMMENTS) for n, _ in e['values'] if n is not None and rng.random() < 0.15}
                if vc:
                    e['value_comments'] = vc
            for d in f['structs'] + f['packets']:
                if rng.random() < 0.25:
                    d['comment'] = rng.choice(self.COMMENTS)
                walk(d['body'])
                self.feat('comment', 'decl' if 'comment' in d else 'none')

    # -- one class body
    def body(self, top, depth, cls, chunked=False, in_case=False):
        rng = self.rng
        st = dict(chunked=chunked, names=set(), ints=[], body=[], bounded=True, fixed=0, unbounded_open=False, depth=depth, in_case=in_case,
                  ff_risk=False, switched=set())
        if rng.random() < 0.06 and not chunked:
            it = rng.choice(['char', 'short', 'byte'])
            self.feat('dummy', 'sole')
            return [D(it, str(rng.randrange(0, 200)))], dict(bounded=True, fixed=ISIZE[it], ff_risk=False)
        n = rng.choice([1, 2, 3, 4, 5, 6]) if depth == 0 else rng.choice([1, 2, 3])
        for k in range(n):
            self.instr(st, last=(k == n - 1))
        # optional tail
        if rng.random() < 0.3 and not st['unbounded_open']:
            for _ in range(rng.randrange(1, 3)):
                nm = self.name(st)
                ty = rng.choice(['char', 'short', 'bool', 'string' if False else 'char', self.enum_name() or 'char'])
                st['body'].append(F(nm, ty, optional=rng.choice(['true', 'true', 'True'])))
                st['fixed'] = None
                self.feat('field', 'optional', 'chunked' if st['chunked'] else 'plain')
            if rng.random() < 0.4:
                st['body'].append(A(self.name(st), rng.choice(['char', 'short', 'three']), optional='true'))
                self.mark_unbounded(st)           # an array without length makes the struct unbounded (type_factory._is_bounded)
                self.feat('array', 'optional', 'chunked' if st['chunked'] else 'plain')
            elif rng.random() < 0.25 and not st['chunked']:
                st['body'].append(D('short', str(rng.randrange(0, 200))))     # written only when nothing else was
                self.feat('dummy', 'after-optionals')
        elif rng.random() < 0.08 and st['body'] and not st['unbounded_open'] and st['body'][-1]['tag'] != 'chunked':
            pass
        return st['body'], dict(bounded=st['bounded'], fixed=st['fixed'], ff_risk=st['ff_risk'])

    def name(self, st):
        while True:
            nm = self.rng.choice(['a', 'b', 'c', 'x', 'y', 'id', 'name', 'kind', 'count', 'items', 'tag', 'level', 'flag']) + (str(self.rng.randrange(10)) if self.rng.random() < 0.5 else '')
            if nm not in st['names'] and not nm.endswith('_data'):
                st['names'].add(nm)
                return nm

    def enum_name(self):
        return self.rng.choice(self.enums)['name'] if self.enums else None

    def basic_fixed_type(self):
        rng = self.rng
        r = rng.random()
        if r < 0.55:
            return rng.choice(INTS), 'int'
        if r < 0.7:
            return rng.choice(['bool', 'bool', 'bool:short', 'bool:byte']), 'bool'
        e = self.enum_name()
        if e and r < 0.92:
            return (e if rng.random() < 0.8 else e + ':' + rng.choice(['short', 'char', 'int'])), 'enum'
        return rng.choice(INTS), 'int'

    def size_of(self, ts):
        base, _, under = ts.partition(':')
        if base in INTS:
            return ISIZE[base]
        if base == 'bool':
            return ISIZE[under or 'char']
        for e in self.enums:
            if e['name'] == base:
                return ISIZE[under or e['type']]
        return None

    def mark_unbounded(self, st):
        st['bounded'] = False
        st['fixed'] = None
        st['unbounded_open'] = True

    def add_fixed(self, st, sz):
        if st['fixed'] is not None and sz is not None:
            st['fixed'] += sz
        else:
            st['fixed'] = None

    def instr(self, st, last):
        rng = self.rng
        if st.get('opt_after_chunked'):
            return      # optional fields were reached: nothing required may follow in this body
        ctxn = ('case-' if st['in_case'] else '') + ('chunked' if st['chunked'] else 'plain')
        if st['unbounded_open']:
            # after an unbounded item only a break (in chunked mode) makes further items meaningful
            if st['chunked']:
                st['body'].append(dict(BR))
                st['unbounded_open'] = False
                st['bounded'] = True if not self.wire_ok else st['bounded']
                self.feat('break', ctxn)
            elif self.wire_ok:
                return
        choices = ['int'] * 5 + ['fixedstr'] * 2 + ['lenstr', 'lenarray', 'litarray', 'struct', 'structarray', 'switch', 'chunked', 'hard', 'unnamed',
                                                    'bool', 'enum']
        if last or not self.wire_ok:
            choices += ['str', 'blob', 'restarray']
        if st['chunked']:
            choices += ['str', 'delimarray', 'delimarray', 'break']
        k = rng.choice(choices)
        b = st['body']
        if k in ('int', 'bool', 'enum'):
            ts, kind = self.basic_fixed_type()
            nm = self.name(st)
            b.append(F(nm, ts))
            if kind in ('int', 'enum') and ':' not in ts:
                st['ints'].append((nm, ts, kind))
            if ts.partition(':')[0] == 'byte':
                st['ff_risk'] = True
            self.add_fixed(st, self.size_of(ts))
            self.feat('field', kind, ctxn)
        elif k == 'fixedstr':
            n = rng.randrange(0, 6)
            padded = rng.random() < 0.5
            a = {}
            if padded:
                a['padded'] = rng.choice(['true', 'True'])
                st['ff_risk'] = True
            elif rng.random() < 0.15:
                a['padded'] = 'false'
            b.append(F(self.name(st), rng.choice(['string', 'encoded_string']), length=str(n), **a))
            self.add_fixed(st, n)
            self.feat('field', 'fixedstr-padded' if padded else 'fixedstr', ctxn)
        elif k == 'lenstr':
            ln = self.name(st) + '_len'
            st['names'].add(ln)
            it = rng.choice(['char', 'char', 'char', 'byte', 'byte', 'short'] if rng.random() < 0.5 else ['char'])
            off = rng.choice([None, None, '1', '2', '-1'])
            b.append(L(ln, it, **({'offset': off} if off else {})))
            a = {'padded': 'true'} if rng.random() < 0.3 else {}
            b.append(F(self.name(st), rng.choice(['string', 'encoded_string']), length=ln, **a))
            st['fixed'] = None
            if a:
                st['ff_risk'] = True
            self.feat('field', 'lenstr', ctxn)
            self.feat('length', it, 'offset' if off else 'nooffset')
        elif k in ('lenarray', 'litarray', 'restarray', 'structarray', 'delimarray'):
            elem, kind = self.basic_fixed_type()
            esz = self.size_of(elem)
            if k == 'structarray':
                cands = [s for s in self.structs if s[1]]
                if not cands:
                    return self.instr(st, last)
                s = rng.choice(cands)
                elem, kind, esz = s[0], 'struct', s[2]
                k = rng.choice(['lenarray', 'litarray', 'restarray'] + (['delimarray'] if st['chunked'] else []))
                if k == 'restarray' and self.wire_ok and not last:
                    k = 'lenarray'
            nm = self.name(st)
            if k == 'lenarray':
                ln = nm + '_count'
                st['names'].add(ln)
                it = rng.choice(['char', 'char', 'char', 'byte'])
                off = rng.choice([None, None, '1'])
                b.append(L(ln, it, **({'offset': off} if off else {})))
                b.append(A(nm, elem, length=ln))
                st['fixed'] = None
                self.feat('array', 'lenref', kind, ctxn)
            elif k == 'litarray':
                n = rng.randrange(0, 4)
                b.append(A(nm, elem, length=str(n)))
                self.add_fixed(st, None if esz is None else n * esz)
                self.feat('array', 'literal', kind, ctxn)
            elif k == 'restarray':
                b.append(A(nm, elem))
                self.mark_unbounded(st)
                self.feat('array', 'rest-fixed' if esz is not None else 'rest-while', kind, ctxn)
            else:
                if kind != 'struct' and rng.random() < 0.4:
                    elem, kind = rng.choice(['string', 'encoded_string']), 'str'
                tr = rng.choice([None, 'true', 'false', 'false'])
                a = {'delimited': rng.choice(['true', 'true', 'True'])}
                if tr:
                    a['trailing_delimiter'] = tr
                if rng.random() < 0.3:
                    ln = nm + '_count'
                    st['names'].add(ln)
                    b.append(L(ln, 'char'))
                    a['length'] = ln
                b.append(A(nm, elem, **a))
                if 'length' not in a or kind == 'str':       # elements without a length of their own are unbounded even when counted
                    self.mark_unbounded(st)
                    if tr != 'false' and st['chunked']:
                        pass
                st['fixed'] = None
                self.feat('array', 'delimited', 'trailing' if tr != 'false' else 'separating', 'len' if 'length' in a else 'nolen', kind, ctxn)
        elif k == 'struct':
            if not self.structs:
                return self.instr(st, last)
            s = rng.choice(self.structs)
            if self.wire_ok and not s[1] and not last:
                s = next((x for x in self.structs if x[1]), None)
                if s is None:
                    return self.instr(st, last)
            b.append(F(self.name(st), s[0]))
            if not s[1]:
                self.mark_unbounded(st)
            self.add_fixed(st, s[2])
            st['ff_risk'] = st['ff_risk'] or s[3].get('ff_risk', False)
            self.feat('field', 'struct', 'bounded' if s[1] else 'unbounded', ctxn)
        elif k == 'str':
            b.append(F(self.name(st), rng.choice(['string', 'encoded_string'])))
            self.mark_unbounded(st)
            self.feat('field', 'str-unbounded', ctxn)
        elif k == 'blob':
            b.append(F(self.name(st), 'blob'))
            self.mark_unbounded(st)
            st['ff_risk'] = True
            self.feat('field', 'blob', ctxn)
        elif k == 'hard':
            ty = rng.choice(['char', 'short', 'string'])
            if ty == 'string':
                lit = rng.choice(['ab', 'x', 'EO'])
                b.append(F(self.name(st), 'string', lit, length=str(len(lit))))
                self.add_fixed(st, len(lit))
            else:
                b.append(F(self.name(st), ty, str(rng.randrange(0, 250))))
                self.add_fixed(st, ISIZE[ty])
            self.feat('field', 'hardcoded-named', ctxn)
        elif k == 'unnamed':
            ty = rng.choice(['char', 'short', 'bool', 'string', 'byte'])
            if ty == 'string':
                lit = rng.choice(['ab', 'x'])
                b.append(F(None, 'string', lit, length=str(len(lit))))
                self.add_fixed(st, len(lit))
            elif ty == 'bool':
                b.append(F(None, 'bool', rng.choice(['true', 'false'])))
                self.add_fixed(st, 1)
            else:
                b.append(F(None, ty, str(rng.randrange(0, 250))))
                self.add_fixed(st, ISIZE[ty])
            self.feat('field', 'hardcoded-unnamed', ctxn)
        elif k == 'switch':
            if not st['ints'] or st['depth'] >= 2:
                return self.instr(st, last)
            fname, ts, kind = rng.choice(st['ints'])
            # two switches on one field are "degenerate" (the second <field>_data member collides); `switched` is shared with the bodies of
            # the chunked sections of this class
            if fname in st['switched'] or any(i['tag'] == 'switch' and i['attrs']['field'] == fname for i in self.flat(b)):
                return self.instr(st, last)
            st['switched'].add(fname)
            cases = []
            if kind == 'enum':
                e = next(x for x in self.enums if x['name'] == ts)
                names = [n for n, _ in e['values']]
                rng.shuffle(names)
                vals = names[:rng.randrange(0, 3)]
                if rng.random() < 0.3:
                    cand = rng.randrange(0, IMAX[e['type']] + 1)
                    if all(int(o) != cand for _, o in e['values']):
                        vals.append(str(cand))
            else:
                vals = [str(v) for v in rng.sample(range(0, min(IMAX[ts], 12) + 1), rng.randrange(1, 4))]
            unb = False
            for v in vals:
                if rng.random() < 0.3:
                    cases.append(CASE(v))
                else:
                    cb, ci = self.body(top=False, depth=st['depth'] + 1, cls='', chunked=st['chunked'], in_case=True)
                    cb = self.case_safe(cb)
                    unb = unb or not ci['bounded']
                    cases.append(CASE(v, *cb))
            if cases and rng.random() < 0.4:
                if rng.random() < 0.4:
                    cases.append(CASE(None, default=True))
                else:
                    cb, ci = self.body(top=False, depth=st['depth'] + 1, cls='', chunked=st['chunked'], in_case=True)
                    cb = self.case_safe(cb)
                    unb = unb or not ci['bounded']
                    cases.append(CASE(None, *cb, default=True))
            b.append(SW(fname, *cases))
            st['fixed'] = None
            if unb:
                self.mark_unbounded(st)
            self.feat('switch', kind, 'default' if any('default' in c['attrs'] for c in cases) else 'nodefault', ctxn)
        elif k == 'chunked':
            if st['chunked'] and rng.random() < 0.7:
                return self.instr(st, last)
            inner = dict(st, chunked=True, body=[], unbounded_open=False)
            inner['names'] = st['names']
            inner['ints'] = st['ints']
            for j in range(rng.randrange(1, 5)):
                self.instr(inner, last=True)
            if not st['chunked'] and not inner['unbounded_open'] and rng.random() < 0.3:
                # optional fields in two different chunks (a <break> resets the 'optional reached' state)
                lastty = rng.choice(['char', 'short', 'string'])
                inner['body'] += [F(self.name(st), 'char', optional='true'), dict(BR), F(self.name(st), lastty, optional='true')]
                if lastty == 'string':
                    self.mark_unbounded(inner)       # an unbounded string ends the section: the struct is unbounded
                st['opt_after_chunked'] = True
                self.feat('field', 'optional', 'both-sides-of-break')
            b.append(CH(*inner['body']))
            st['fixed'] = None
            st['bounded'] = st['bounded'] and inner['bounded']
            st['unbounded_open'] = inner['unbounded_open'] and not st['chunked']
            if inner['unbounded_open'] and not st['chunked']:
                st['bounded'] = False
            st['ff_risk'] = st['ff_risk'] or inner['ff_risk']
            self.feat('chunked', 'nested' if st['chunked'] else 'top', ctxn)
        elif k == 'break':
            b.append(dict(BR))
            st['bounded'] = True
            self.feat('break', ctxn)

    def case_safe(self, cb):
        """a case body must not reach an optional field or a dummy: the flags propagate to the enclosing body"""
        def bad(body):
            for i in body:
                if i['tag'] == 'dummy' or str(i.get('attrs', {}).get('optional', '')).lower() == 'true':
                    return True
                if i['tag'] == 'chunked' and bad(i['body']):
                    return True
                if i['tag'] == 'switch' and any(bad(c['body']) for c in i['cases']):
                    return True
            return False
        return [F('z', 'char')] if bad(cb) else cb

    def flat(self, body):
        for i in body:
            yield i
            if i['tag'] == 'chunked':
                yield from self.flat(i['body'])


# ------------------------------------------------------------------------------------------------ running the real generator
class GenRunner:
    """Pool of driver processes, each with its own scratch copy of /repo's generator + src."""

    def __init__(self, scratch, workers=6):
        self.base = scratch
        self.workers = workers
        self.roots = []
        for k in range(workers):
            root = os.path.join(scratch.dir, f"w{k}")
            os.makedirs(root)
            shutil.copytree(os.path.join(scratch.dir, 'src'), os.path.join(root, 'src'))
            shutil.copytree(os.path.join(scratch.dir, 'protocol_code_generator'), os.path.join(root, 'protocol_code_generator'))
            self.roots.append(root)

    def run(self, trees, timeout=900, env_extra=None):
        """trees: list of dict(id, files={path: xml}, jobs=[...]) -> {id: result}"""
        chunks = [trees[k::self.workers] for k in range(self.workers)]
        procs = []
        for k, ch in enumerate(chunks):
            if not ch:
                continue
            jp = os.path.join(self.roots[k], 'jobs.json')
            rp = os.path.join(self.roots[k], 'results.json')
            json.dump(ch, open(jp, 'w'))
            if os.path.exists(rp):
                os.remove(rp)
            env = dict(os.environ, PYTHONPATH=os.path.join(self.roots[k], 'src') + ':' + self.roots[k], PYTHONDONTWRITEBYTECODE='1', PYTHONHASHSEED='0')
            if env_extra:
                env.update(env_extra)
            p = subprocess.Popen([PY, os.path.join(VERIF, 'tools', 'gen_driver.py'), self.roots[k], jp, rp], env=env,
                                 stdout=subprocess.PIPE, stderr=subprocess.STDOUT, text=True, errors='replace')
            procs.append((p, rp, ch))
        out = {}
        for p, rp, ch in procs:
            try:
                so, _ = p.communicate(timeout=timeout)
            except subprocess.TimeoutExpired:
                p.kill()
                so = 'TIMEOUT'
            if os.path.exists(rp):
                for r in json.load(open(rp)):
                    out[r['id']] = r
            else:
                for t in ch:
                    out[t['id']] = {'id': t['id'], 'driver_error': 'driver produced no results: ' + (so or '')[-500:]}
        return out


# ------------------------------------------------------------------------------------------------ E1 for trees
def run_tree_cases(name, items, timeout=900):
    """items: list of (tree, accepted: bool, [gcase coq terms]).  One Eval per tree; returns list of failing-index lists."""
    os.makedirs(CASES, exist_ok=True)
    PER = 12
    files = []
    for off in range(0, len(items), PER):
        fn = os.path.join(CASES, f"{name}_{off // PER}.v")
        with open(fn, 'w') as f:
            f.write("From EO Require Import Prelude.Py Prelude.Corr Model.Writer Model.Reader Model.Spec Model.Elab Model.Ser Model.Deser Model.GenHarness.\n"
                    "Open Scope string_scope.\nOpen Scope list_scope.\nOpen Scope Z_scope.\n")
            for k, (tree, acc, cases) in enumerate(items[off:off + PER]):
                f.write(f"Definition t{k} : list rfile := {coq_tree(tree)}.\n")
                f.write(f"Definition c{k} : list gcase :=\n  [" + ";\n   ".join(cases) + "].\n")
                f.write(f"Eval vm_compute in (tree_failing t{k} {cbool(acc)} c{k}).\n")
        files.append((fn, off, min(PER, len(items) - off)))
    results = [None] * len(items)
    running = []

    def reap(block):
        for it in list(running):
            p, fn, off, n = it
            if block:
                try:
                    p.wait(timeout=timeout)
                except subprocess.TimeoutExpired:
                    p.kill()
            if p.poll() is not None:
                out = p.stdout.read()
                running.remove(it)
                if p.returncode != 0:
                    raise CoqCaseError(name, fn, out)
                ms = re.findall(r'=\s*(\[.*?\])\s*(?:%Z)?\s*:\s*list Z', out, flags=re.S)
                if len(ms) != n:
                    raise CoqCaseError(name, fn, out)
                for k, m in enumerate(ms):
                    results[off + k] = [int(x) for x in re.findall(r'-?\d+', m)]
    for fn, off, n in files:
        while len(running) >= 4:
            reap(False)
            time.sleep(0.05)
        p = subprocess.Popen(['bash', '-c', f'ulimit -s unlimited 2>/dev/null || ulimit -s 1000000; exec timeout {timeout} coqc -Q {COQ} EO -w -all {fn}'], stdout=subprocess.PIPE, stderr=subprocess.STDOUT, text=True, cwd=COQ)
        running.append((p, fn, off, n))
    while running:
        reap(True)
    return results


def show_case(name, tree, case_term):
    """model's own result for one case (for diagnosis / replay files)"""
    fn = os.path.join(CASES, f"{name}_show.v")
    with open(fn, 'w') as f:
        f.write("From EO Require Import Prelude.Py Prelude.Corr Model.Writer Model.Reader Model.Spec Model.Elab Model.Ser Model.Deser Model.GenHarness.\n"
                "Open Scope string_scope.\nOpen Scope list_scope.\nOpen Scope Z_scope.\n")
        f.write(f"Definition t : list rfile := {coq_tree(tree)}.\n")
        f.write(f"Eval vm_compute in (tree_show t ({case_term})).\n")
    rc, out = sh(['timeout', '120', 'coqc', '-Q', COQ, 'EO', '-w', '-all', fn], cwd=COQ)
    return out[-1500:]


# ------------------------------------------------------------------------------------------------ declaration-violating mutants (C16)
def obj_fields(o):
    return {k: v for k, v in o['f']}


def with_field(o, name, v):
    return {'o': o['o'], 'f': [[k, (v if k == name else x)] for k, x in o['f']]}


def flat_body(body):
    for i in body:
        if i['tag'] == 'chunked':
            yield from flat_body(i['body'])
        else:
            yield i


def obj_mutants(R, vg, cls, body, o, depth=0):
    """every single declaration-violating change of object o (class cls with raw body), at any nesting depth.
    yields (description, mutated object)"""
    flds = obj_fields(o)
    lens = {i['attrs']['name']: i for i in flat_body(body) if i['tag'] == 'length'}
    missing = False
    for i in flat_body(body):
        t, a = i['tag'], i.get('attrs', {})
        if t == 'break':
            missing = False
        if t == 'field' and a.get('name') is not None and i.get('text') is None:
            name = a['name']
            v = flds.get(name)
            optional = str(a.get('optional', '')).lower() == 'true'
            if optional and v is None:
                missing = True
            if missing:
                continue
            ty = R.rtype(a['type'])
            if not optional:
                yield (f"{cls}.{name} = None (required)", with_field(o, name, None))
            if v is None:
                continue
            if ty['k'] == 'int':
                for z in (IMAX[ty['it']] + 1, IMAX[ty['it']] + 2, 2 ** 64, 253 ** 4, 253 ** 4 + 12345, 253 ** 4 + 253 ** 3 - 1, 253 ** 4 + 253 ** 2 * 254, 254 * 253 ** 3 + 7, 2 ** 32 - 1):
                    yield (f"{cls}.{name} = {z} (at/above the {ty['it']} limit)", with_field(o, name, {'i': z}))
            elif ty['k'] == 'enum':
                yield (f"{cls}.{name} = {IMAX[ty['it']] + 1} (enum ordinal at the {ty['it']} limit)", with_field(o, name, {'e': ty['name'], 'v': IMAX[ty['it']] + 1}))
            elif ty['k'] == 'str' and a.get('length') is not None:
                ln = a['length']
                padded = str(a.get('padded', '')).lower() == 'true'
                if ln.isdigit():
                    n = int(ln)
                    yield (f"{cls}.{name}: string of length {n + 1} for length {n}", with_field(o, name, {'s': [65] * (n + 1)}))
                    if not padded and n > 0:
                        yield (f"{cls}.{name}: string of length {n - 1} for fixed length {n}", with_field(o, name, {'s': [65] * (n - 1)}))
                else:
                    li = lens[ln]['attrs']
                    mx = IMAX[li['type']] + int(li.get('offset', 0))
                    if mx < 400:
                        yield (f"{cls}.{name}: string of length {mx + 1} exceeds its length field's maximum {mx}", with_field(o, name, {'s': [65] * (mx + 1)}))
            elif ty['k'] == 'struct' and depth < 3:
                sb = R.structs[ty['name']]['body']
                for d, sub in obj_mutants(R, vg, ty['name'], sb, v, depth + 1):
                    yield (f"{cls}.{name} -> {d}", with_field(o, name, sub))
        elif t == 'array':
            name = a['name']
            v = flds.get(name)
            optional = str(a.get('optional', '')).lower() == 'true'
            if optional and v is None:
                missing = True
            if missing or v is None:
                continue
            ty = R.rtype(a['type'])
            elems = v['l']
            ln = a.get('length')
            filler = elems[0] if elems else vg.value(ty, depth + 1)
            if ln is not None and ln.isdigit():
                n = int(ln)
                yield (f"{cls}.{name}: {n + 1} elements for length {n}", with_field(o, name, {'l': elems + [filler]}))
                if n > 0:
                    yield (f"{cls}.{name}: {n - 1} elements for length {n}", with_field(o, name, {'l': elems[:-1]}))
            elif ln is not None:
                li = lens[ln]['attrs']
                mx = IMAX[li['type']] + int(li.get('offset', 0))
                if mx < 400:
                    yield (f"{cls}.{name}: {mx + 1} elements exceed the length field's maximum {mx}", with_field(o, name, {'l': [filler] * (mx + 1)}))
            if elems:
                if ty['k'] == 'int':
                    yield (f"{cls}.{name}[0] = {IMAX[ty['it']] + 1}", with_field(o, name, {'l': [{'i': IMAX[ty['it']] + 1}] + elems[1:]}))
                elif ty['k'] == 'struct' and depth < 3:
                    sb = R.structs[ty['name']]['body']
                    for d, sub in list(obj_mutants(R, vg, ty['name'], sb, elems[-1], depth + 1))[:4]:
                        yield (f"{cls}.{name}[{len(elems) - 1}] -> {d}", with_field(o, name, {'l': elems[:-1] + [sub]}))
        elif t == 'switch':
            fname = a['field']
            dn = fname + '_data'
            dv = flds.get(dn)
            classes = []
            for c in i['cases']:
                if c['body']:
                    suffix = 'Default' if str(c['attrs'].get('default', '')).lower() == 'true' else c['attrs']['value']
                    classes.append((f"{cls}.{pascal(fname)}Data{suffix}", c['body']))
            if dv is not None:
                yield (f"{cls}.{dn} = None although the selected case has data", with_field(o, dn, None))
                for ccls, cb in classes:
                    if ccls != dv['o']:
                        try:
                            yield (f"{cls}.{dn} is a {ccls}, the selected case needs {dv['o']}", with_field(o, dn, vg.obj(ccls, cb, depth + 1)))
                        except Exception:
                            pass
                        break
                cb = next((b for n, b in classes if n == dv['o']), None)
                if cb is not None and depth < 3:
                    for d, sub in list(obj_mutants(R, vg, dv['o'], cb, dv, depth + 1))[:6]:
                        yield (f"{cls}.{dn} -> {d}", with_field(o, dn, sub))
            else:
                for ccls, cb in classes[:1]:
                    try:
                        yield (f"{cls}.{dn} is a {ccls} although the selected case is empty / no case matches", with_field(o, dn, vg.obj(ccls, cb, depth + 1)))
                    except Exception:
                        pass
            # the switch field set to a value that no case handles (switch without default), with case data present
            has_default = any(str(c['attrs'].get('default', '')).lower() == 'true' for c in i['cases'])
            fty = vg.field_type(body, fname)
            if not has_default and classes and fty is not None and fty['k'] in ('int', 'enum') and flds.get(fname) is not None:
                used = set()
                for c in i['cases']:
                    cv = c['attrs'].get('value')
                    if cv is not None:
                        used.add(int(cv) if cv.lstrip('-').isdigit() else dict(fty.get('values', [])).get(cv))
                z = next((x for x in range(0, IMAX[fty['it']] + 1) if x not in used), None)
                if z is not None:
                    try:
                        o2 = with_field(o, fname, {'e': fty['name'], 'v': z} if fty['k'] == 'enum' else {'i': z})
                        yield (f"{cls}.{fname} = {z} matches no case but {cls}.{dn} carries a {classes[0][0]}", with_field(o2, dn, vg.obj(classes[0][0], classes[0][1], depth + 1)))
                    except Exception:
                        pass
