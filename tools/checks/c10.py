"""C10 - Packet-encryption primitives are lossless and exactly invertible."""
import itertools
import os
from collections import Counter
from vlib import *


def inplace(f, *extra):
    def g(bs, *a):
        b = bytearray(bs)
        r = f(b, *a)
        if r is not None:
            raise RuntimeError("in-place function returned a value")
        return list(b)
    return g


def weave_oracle(il, dl, bs):
    """interleave/deinterleave: mutually inverse, length-preserving, a permutation of positions that depends only on len."""
    n = len(bs)
    a, b = pyexc(il, bs), pyexc(dl, bs)
    for nm, r in (('interleave', a), ('deinterleave', b)):
        if r[0] != 'ok':
            return f"{nm}({bs[:20]}.. len {n}) raised {r[1]}"
        if len(r[1]) != n:
            return f"{nm} changed the length of a {n}-byte input to {len(r[1])}"
        if Counter(r[1]) != Counter(bs):
            return f"{nm}({bs[:20]}.. len {n}) is not a permutation of its input"
    r = pyexc(dl, a[1])
    if r != ('ok', bs):
        return f"deinterleave(interleave(x)) != x for x={bs[:24]} (len {n})"
    r = pyexc(il, b[1])
    if r != ('ok', bs):
        return f"interleave(deinterleave(x)) != x for x={bs[:24]} (len {n})"
    return None


def weave_positions(f, n):
    """observe the position permutation for length n (n <= 65536) with distinct 2-byte tags"""
    hi = pyexc(f, [(i >> 8) & 255 for i in range(n)])
    lo = pyexc(f, [i & 255 for i in range(n)])
    if hi[0] != 'ok' or lo[0] != 'ok':
        return None
    return [h * 256 + l for h, l in zip(hi[1], lo[1])]


def flip_oracle(fl, bs):
    r = pyexc(fl, bs)
    if r[0] != 'ok':
        return f"flip_msb({bs[:20]}) raised {r[1]}"
    if len(r[1]) != len(bs):
        return "flip_msb changed the length"
    for x, y in zip(bs, r[1]):
        exp = x if x in (0, 128) else x ^ 0x80
        if y != exp:
            return f"flip_msb maps byte {x} to {y}, expected {exp}"
    rr = pyexc(fl, r[1])
    if rr != ('ok', bs):
        return f"flip_msb(flip_msb(x)) != x for x={bs[:24]}"
    return None


def swap_oracle(sw, bs, m):
    r = pyexc(sw, bs, m)
    if m < 0:
        return None if r == ('err', 'EValue') else f"swap_multiples(.., {m}) did not raise ValueError: {r}"
    if r[0] != 'ok':
        return f"swap_multiples({bs[:20]}, {m}) raised {r[1]}"
    out = r[1]
    if m == 0:
        return None if out == bs else f"swap_multiples(x, 0) changed x={bs[:24]}"
    if len(out) != len(bs):
        return "swap_multiples changed the length"
    if Counter(out) != Counter(bs):
        return f"swap_multiples({bs[:24]}, {m}) = {out[:24]} does not preserve the multiset of bytes"
    for i, (x, y) in enumerate(zip(bs, out)):
        if x % m != 0 and y != x:
            return f"swap_multiples({bs[:24]}, {m}) moved the non-multiple at position {i}"
        if x % m == 0 and y % m != 0:
            return f"swap_multiples({bs[:24]}, {m}) put a non-multiple at position {i}"
    rr = pyexc(sw, out, m)
    if rr != ('ok', bs):
        return f"swap_multiples is not an involution on x={bs[:24]}, multiple {m}: twice gives {rr[1][:24] if rr[0] == 'ok' else rr}"
    return None


def realise(pattern, m):
    """bytes realising a divisibility pattern (True = multiple of m), multiples pairwise distinct where possible"""
    if m <= 0:
        return [i % 256 for i in range(len(pattern))]
    mult = [k * m for k in range(0, 256) if k * m <= 255] or [0]
    non = [v for v in range(1, 256) if v % m != 0]
    out, mi, ni = [], 0, 0
    for p in pattern:
        if p:
            out.append(mult[mi % len(mult)])
            mi += 1
        else:
            if not non:
                return None
            out.append(non[(ni * 7) % len(non)])
            ni += 1
    return out


def cop(o):
    return {'i': 'Interleave', 'd': 'Deinterleave', 'f': 'FlipMsb'}.get(o[0]) or f"(Swap {cz(o[1])})"


def run(tier):
    C = Check('C10', tier)
    bridges = {'Bridge/B_encrypt.v': ['G_encryption_utils']}
    if os.path.exists(os.path.join(COQ, 'Bridge/B_encrypt_loops.v')):
        bridges['Bridge/B_encrypt_loops.v'] = ['G_encryption_utils']
    C.prove('Properties/C10.v', units=['G_encryption_utils'], bridges=bridges)
    mod = load_leaf(C.scratch.src, 'eolib.encrypt.encryption_utils')
    il, dl, fl, sw = inplace(mod.interleave), inplace(mod.deinterleave), inplace(mod.flip_msb), inplace(mod.swap_multiples)
    rng = C.rng
    quick = tier == 'quick'
    # ---------------------------------------------------------------- inputs
    maxn = 130 if quick else 300
    weave_in = [[i % 256 for i in range(n)] for n in range(0, maxn + 1)]
    for _ in range(40 if quick else 400):
        n = rng.choice([rng.randrange(0, 40), rng.randrange(0, 300), rng.randrange(0, 2000 if not quick else 600)])
        weave_in.append([rng.choice([0, 255, 128, rng.randrange(256)]) for _ in range(n)])
    flip_in = [list(range(256)), [], [0], [128], [127, 129]] + [[rng.randrange(256) for _ in range(rng.randrange(0, 80))] for _ in range(60 if quick else 600)]
    mults = [1, 2, 3, 5, 7, 128, 255, 256, 1000, 0, -1]
    maxl = 9 if quick else 12
    swap_in = []
    for L in range(0, maxl + 1):
        for pat in itertools.product((False, True), repeat=L):
            for m in (mults if L <= 6 else [2, 3, 7, 128]):
                bs = realise(pat, m)
                if bs is not None:
                    swap_in.append((bs, m))
    # multiples above the byte range: only 0 is a multiple; 0xFF and 0x01 are not, whatever the multiple is reduced to
    for m in (256, 257, 510, 1000, 65536):
        for L in range(2, 5 if quick else 7):
            for t in itertools.product((0, 255, 1, 254), repeat=L):
                swap_in.append((list(t), m))
    for _ in range(300 if quick else 5000):
        m = rng.choice([rng.randrange(0, 301), rng.randrange(1, 12), rng.choice(mults), -rng.randrange(1, 5)])
        n = rng.choice([rng.randrange(0, 30), rng.randrange(0, 500 if not quick else 150)])
        dens = rng.choice([0.2, 0.6, 0.95])
        bs = [(rng.randrange(0, 256 // m + 1) * m if m > 0 and m < 256 and rng.random() < dens else rng.randrange(256)) % 256 for _ in range(n)]
        swap_in.append((bs, m))
    # ---------------------------------------------------------------- property oracle on the implementation
    for bs in weave_in:
        w = weave_oracle(il, dl, bs)
        if w:
            C.violation(w, dict(unit='encryption_utils.interleave/deinterleave', input=dict(bytes=bs)))
            break
    # position permutation depends only on the length: observed with tags, must explain every other input of that length
    perms = {}
    for bs in weave_in:
        n = len(bs)
        if n not in perms:
            perms[n] = (weave_positions(il, n), weave_positions(dl, n))
        pi, pd = perms[n]
        if pi is None or pd is None:
            continue
        a, b = pyexc(il, bs), pyexc(dl, bs)
        if a[0] == 'ok' and a[1] != [bs[k] for k in pi] or b[0] == 'ok' and b[1] != [bs[k] for k in pd]:
            C.violation(f"interleave/deinterleave of length {n} moves positions differently for different contents",
                        dict(unit='encryption_utils.interleave/deinterleave', input=dict(bytes=bs)))
            break
    C.stream('oracle.weave', len(weave_in), len({tuple(b) for b in weave_in if len(b) > 2}), sample=dict(bytes=weave_in[7]))
    for bs in flip_in:
        w = flip_oracle(fl, bs)
        if w:
            C.violation(w, dict(unit='encryption_utils.flip_msb', input=dict(bytes=bs)))
            break
    C.stream('oracle.flip_msb', len(flip_in), len({tuple(b) for b in flip_in if b}), sample=dict(bytes=flip_in[4]))
    for bs, m in swap_in:
        w = swap_oracle(sw, bs, m)
        if w:
            C.violation(w, dict(unit='encryption_utils.swap_multiples', input=dict(bytes=bs, multiple=m)))
            break
    nts = lambda bs, m: m > 0 and any(bs[i] % m == 0 and bs[i + 1] % m == 0 and bs[i] != bs[i + 1] for i in range(len(bs) - 1))
    C.stream('oracle.swap_multiples', len(swap_in), len({(tuple(b), m) for b, m in swap_in if nts(b, m)}),
             sample=dict(bytes=swap_in[len(swap_in) // 2][0], multiple=swap_in[len(swap_in) // 2][1]))
    C.cov['bounded_exhaustive'] = (f"weave: every length 0..{maxn} with position tags; flip_msb: all 256 byte values; swap_multiples: all "
                                   f"divisibility patterns of length <= {maxl} (all 11 multiples up to length 6, four beyond)")
    # pipelines on the implementation: inverse ops in reverse order restore the input
    pipes = []
    for _ in range(150 if quick else 1500):
        p = [rng.choice([('i',), ('d',), ('f',), ('s', rng.choice([0, 1, 2, 3, 6, 7, 10, 128, rng.randrange(0, 300)]))]) for _ in range(rng.randrange(0, 9))]
        bs = [rng.choice([0, 128, 255, 6, 12, rng.randrange(256)]) for _ in range(rng.randrange(0, 40))]
        pipes.append((bs, p))
    fdict = {'i': il, 'd': dl, 'f': fl}
    inv = {'i': 'd', 'd': 'i', 'f': 'f', 's': 's'}

    def runp(bs, p):
        for o in p:
            bs = fdict[o[0]](bs) if o[0] != 's' else sw(bs, o[1])
        return bs
    pipe_cases = []
    for bs, p in pipes:
        r = pyexc(runp, bs, p)
        pipe_cases.append(((bs, p), r))
        if r[0] == 'ok':
            back = pyexc(runp, r[1], [(inv[o[0]],) + tuple(o[1:]) for o in reversed(p)])
            if back != ('ok', bs) and not C.violations:
                C.violation(f"pipeline {p} on {bs} is not undone by the inverses in reverse order: {back}",
                            dict(unit='encryption_utils', input=dict(bytes=bs, pipeline=[list(o) for o in p])))
        elif not C.violations:
            C.violation(f"pipeline {p} on {bs} raised {r[1]}", dict(unit='encryption_utils', input=dict(bytes=bs, pipeline=[list(o) for o in p])))
    C.stream('oracle.pipelines', len(pipes), len({repr(x) for x in pipes if len(x[1]) > 1 and len(x[0]) > 2}),
             sample=dict(bytes=pipes[3][0], pipeline=[list(o) for o in pipes[3][1]]))
    # ---------------------------------------------------------------- correspondence (E1): implementation vs M and vs translated G
    wsub = [b for b in weave_in if len(b) <= 400]
    i_cases = [(bs, pyexc(il, bs)) for bs in wsub]
    d_cases = [(bs, pyexc(dl, bs)) for bs in wsub]
    f_cases = [(bs, pyexc(fl, bs)) for bs in flip_in]
    ssub = swap_in if len(swap_in) <= 9000 else swap_in[::len(swap_in) // 9000 + 1]
    s_cases = [((bs, m), pyexc(sw, bs, m)) for bs, m in ssub]
    t1 = lambda c: f"({clist(c[0])}, {cres(c[1], clist)})"
    t2 = lambda c: f"(({clist(c[0][0])}, {cz(c[0][1])}), {cres(c[1], clist)})"
    tp = lambda c: f"(({clist(c[0][0])}, {clist(c[0][1], cop)}), {cres(c[1], clist)})"
    ME, GE = 'EO.Model.Encrypt', 'EO.Gen.G_encryption_utils'
    specs = [
        dict(label='M.interleave', ty='list Z * res (list Z)', cases=i_cases, term=t1, nontrivial=lambda c: len(c[0]) > 2,
             chk=f"fun c => res_eqb list_eqb (Ok ({ME}.interleave (fst c))) (snd c)"),
        dict(label='M.deinterleave', ty='list Z * res (list Z)', cases=d_cases, term=t1, nontrivial=lambda c: len(c[0]) > 2,
             chk=f"fun c => res_eqb list_eqb (Ok ({ME}.deinterleave (fst c))) (snd c)"),
        dict(label='M.flip_msb', ty='list Z * res (list Z)', cases=f_cases, term=t1, nontrivial=lambda c: len(c[0]) > 0,
             chk=f"fun c => res_eqb list_eqb (Ok ({ME}.flip_msb (fst c))) (snd c)"),
        dict(label='M.swap_multiples', ty='(list Z * Z) * res (list Z)', cases=s_cases, term=t2, nontrivial=lambda c: nts(*c[0]),
             chk=f"fun c => res_eqb list_eqb ({ME}.swap_multiples (fst (fst c)) (snd (fst c))) (snd c)"),
        dict(label='M.run_ops', ty=f'(list Z * list {ME}.eop) * res (list Z)', cases=pipe_cases, term=tp, nontrivial=lambda c: len(c[0][1]) > 1,
             chk=f"fun c => res_eqb list_eqb (Ok ({ME}.run_ops (snd (fst c)) (fst (fst c)))) (snd c)"),
    ]
    imports = f"Require {ME}.\nImport {ME}.\n"
    hasg = False
    for fn, cases, term, call in (('interleave', i_cases, t1, f"{GE}.interleave (S (S (length (fst c)))) (fst c)"),
                                  ('deinterleave', d_cases, t1, f"{GE}.deinterleave (S (S (length (fst c)))) (fst c)"),
                                  ('flip_msb', f_cases, t1, f"Ok ({GE}.flip_msb (fst c))"),
                                  ('swap_multiples', s_cases, t2, f"{GE}.swap_multiples (fst (fst c)) (snd (fst c))")):
        if C.has_gen('G_encryption_utils', fn):
            hasg = True
            specs.append(dict(label='G.' + fn, ty=('(list Z * Z)' if fn == 'swap_multiples' else 'list Z') + ' * res (list Z)', cases=cases, term=term,
                              chk=f"fun c => res_eqb list_eqb ({call}) (snd c)"))
    if hasg:
        imports += f"Require {GE}.\n"
    corr_streams(C, 'c10', specs, imports)

    def search():
        for n in range(0, 700):
            for bs in ([i % 251 for i in range(n)], [(i * 7 + 3) % 256 for i in range(n)]):
                w = weave_oracle(il, dl, bs)
                if w:
                    return C.violation(w, dict(unit='encryption_utils.interleave/deinterleave', input=dict(bytes=bs)))
        for a in range(256):
            for b in (0, 1, 127, 128, 255):
                w = flip_oracle(fl, [a, b]) or flip_oracle(fl, [b, a, a])
                if w:
                    return C.violation(w, dict(unit='encryption_utils.flip_msb', input=dict(bytes=[a, b])))
        for L in range(0, 14):
            for pat in itertools.product((False, True), repeat=L):
                for m in (1, 2, 3, 7, 128, 255, 256, 0, -1, -7):
                    bs = realise(pat, m)
                    if bs is None:
                        continue
                    w = swap_oracle(sw, bs, m)
                    if w:
                        return C.violation(w, dict(unit='encryption_utils.swap_multiples', input=dict(bytes=bs, multiple=m)))
    return C.finish(search=search)


def replay(path):
    import json
    r = json.load(open(path))
    s = Scratch()
    mod = load_leaf(s.src, 'eolib.encrypt.encryption_utils')
    il, dl, fl, sw = inplace(mod.interleave), inplace(mod.deinterleave), inplace(mod.flip_msb), inplace(mod.swap_multiples)
    inp = r.get('input', {})
    w = None
    if 'multiple' in inp:
        w = swap_oracle(sw, inp['bytes'], inp['multiple'])
    elif 'pipeline' in inp:
        fdict = {'i': il, 'd': dl, 'f': fl}
        inv = {'i': 'd', 'd': 'i', 'f': 'f', 's': 's'}

        def runp(bs, p):
            for o in p:
                bs = fdict[o[0]](bs) if o[0] != 's' else sw(bs, o[1])
            return bs
        p = [tuple(o) for o in inp['pipeline']]
        r_ = pyexc(runp, inp['bytes'], p)
        if r_[0] != 'ok':
            w = f"pipeline {p} on {inp['bytes']} raised {r_[1]}"
        else:
            back = pyexc(runp, r_[1], [(inv[o[0]],) + tuple(o[1:]) for o in reversed(p)])
            w = None if back == ('ok', inp['bytes']) else f"pipeline {p} on {inp['bytes']} is not undone by the inverses in reverse order: {back}"
    elif 'bytes' in inp:
        w = weave_oracle(il, dl, inp['bytes']) or flip_oracle(fl, inp['bytes'])
    else:
        return replay_broken(r, 'C10')
    print("replay:", w or "property holds on this input")
    return 1 if w else 0
