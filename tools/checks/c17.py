"""C17 - The generator rejects ill-formed specifications instead of emitting code."""
import copy
import os
from vlib import *
from genharness import *
from gencheck import *

FILES = ['', 'map', 'net', 'pub', 'net/client', 'net/server', 'pub/server']


def snippets():
    """(rule, needs_unchunked, instruction list) - each violates one rule of the grammar"""
    S = []
    add = lambda rule, instrs, unchunked=False: S.append((rule, unchunked, instrs))
    add('unknown-type', [F('u', 'NoSuchType')])
    add('unknown-type-array', [A('ua', 'NoSuchType', length='2')])
    add('unknown-type-dummy', [D('NoSuchType', '1')])
    add('redefined-field', [F('d1', 'char'), F('d1', 'short')])
    add('redefined-field-by-array', [F('d1', 'char'), A('d1', 'char', length='2')])
    add('redefined-field-by-length', [F('d1', 'char'), L('d1', 'char')])
    add('bad-length-reference', [F('s', 'string', length='nolen')])
    add('bad-length-reference-array', [A('s', 'char', length='nolen')])
    add('length-reference-to-plain-field', [F('n', 'char'), F('s', 'string', length='n')])
    add('length-field-referenced-twice', [L('ln', 'char'), F('s1', 'string', length='ln'), F('s2', 'string', length='ln')])
    add('length-field-referenced-twice-array', [L('ln', 'char'), A('a1', 'char', length='ln'), F('s2', 'string', length='ln')])
    add('delimited-outside-chunked', [A('da', 'char', delimited='true')], True)
    add('break-outside-chunked', [dict(BR)], True)
    add('required-after-optional', [F('o1', 'char', optional='true'), F('r1', 'char')])
    add('required-array-after-optional', [F('o1', 'char', optional='true'), A('r1', 'char', length='1')])
    add('required-length-after-optional', [F('o1', 'char', optional='true'), L('r1', 'char'), F('r2', 'string', length='r1', optional='true')])
    add('field-after-dummy', [D('char', '1'), F('x1', 'char')])
    add('dummy-after-dummy', [D('char', '1'), D('char', '2')])
    add('switch-after-dummy', [F('k9', 'char'), D('char', '1'), SW('k9', CASE('1'))])
    # flags set inside a switch case are merged back into the enclosing body (any case, not only the last)
    add('required-after-optional-in-first-case', [F('k5', 'char'), SW('k5', CASE('1', F('o5', 'char', optional='true')), CASE('2', F('z5', 'char'))), F('r5', 'char')])
    add('required-after-optional-in-last-case', [F('k5', 'char'), SW('k5', CASE('1', F('z5', 'char')), CASE('2', F('o5', 'char', optional='true'))), F('r5', 'char')])
    add('required-after-optional-in-default-case', [F('k5', 'char'), SW('k5', CASE('1', F('z5', 'char')), CASE(None, F('o5', 'char', optional='true'), default=True)), A('r5', 'char', length='1')])
    add('field-after-dummy-in-first-case', [F('k5', 'char'), SW('k5', CASE('1', D('char', '1')), CASE('2', F('z5', 'char'))), F('r5', 'char')])
    add('field-after-dummy-in-last-case', [F('k5', 'char'), SW('k5', CASE('1', F('z5', 'char')), CASE('2', D('char', '1'))), F('r5', 'char')])
    add('field-after-dummy-in-middle-case', [F('k5', 'char'), SW('k5', CASE('1'), CASE('2', D('short', '1')), CASE('3')), D('char', '2')])
    # --- round-2 additions: one snippet per (check, instruction kind) pair of the generator
    add('length-name-redefined-by-field', [L('ln', 'char'), F('ln', 'short'), F('s9', 'string', length='ln')])
    add('length-name-redefined-by-array', [L('ln', 'char'), A('ln', 'char', length='2')])
    add('length-name-redefined-by-length', [L('ln', 'char'), L('ln', 'short')])
    add('array-name-redefined-by-array', [A('aa', 'char', length='1'), A('aa', 'short', length='1')])
    add('array-name-redefined-by-field', [A('aa', 'char', length='1'), F('aa', 'char')])
    add('required-field-in-case-after-outer-optional', [F('k6', 'char'), F('o6', 'char', optional='true'), SW('k6', CASE('1', F('r6', 'char')))])
    add('required-array-in-case-after-outer-optional', [F('k6', 'char'), F('o6', 'char', optional='true'), SW('k6', CASE('1', A('r6', 'char', length='1')))])
    add('required-length-in-default-case-after-outer-optional', [F('k6', 'char'), A('o6', 'char', optional='true'), SW('k6', CASE('1'), CASE(None, L('r6', 'char'), F('s6', 'string', length='r6', optional='true'), default=True))])
    add('hardcoded-signed-int-named', [F('hn', 'char', '-5')])
    add('hardcoded-plus-int-named', [F('hn', 'short', '+3')])
    add('hardcoded-underscore-int-named', [F('hn', 'short', '1_0')])
    add('hardcoded-signed-int-unnamed', [F(None, 'char', '-5')])
    add('hardcoded-underscore-int-dummy', [D('short', '1_0')])
    add('hardcoded-bool-capitalised', [F('hb', 'bool', 'True')])
    add('array-after-dummy', [D('char', '1'), A('x1', 'char', length='1')])
    add('length-after-dummy', [D('char', '1'), L('x1', 'char'), F('x2', 'string', length='x1')])
    add('chunked-after-dummy', [D('char', '1'), CH(F('x1', 'string'))], True)
    add('unbounded-struct-element', [A('us2', 'HostUnbounded', length='2')])
    add('unbounded-struct-element-rest', [A('us3', 'HostUnbounded')])
    add('length-field-struct', [L('lsx', 'HostInner')])
    add('length-field-blob', [L('lbx', 'blob')])
    add('length-field-unknown-type', [L('lux', 'NoSuchType')])
    add('length-field-referenced-twice-arrays', [L('ln', 'char'), A('a1', 'char', length='ln'), A('a2', 'short', length='ln')])
    add('length-field-referenced-twice-field-array', [L('ln', 'char'), F('s1', 'string', length='ln'), A('a2', 'short', length='ln')])
    add('switch-on-blob', [F('sq', 'blob'), SW('sq', CASE('1'))])
    add('switch-on-length-of-case', [F('k7', 'char'), SW('k7', CASE('1', L('n7', 'char'), F('s7', 'string', length='n7'))), F('t7', 'string', length='n7')])
    add('length-on-enum', [F('ln4', 'HostKind', length='1')])
    add('length-on-blob', [F('ln5', 'blob', length='2')])
    add('array-length-on-unknown', [A('ax', 'char', length='nolen2')])
    add('case-enum-value-on-int-field', [F('k8', 'char'), SW('k8', CASE('A'))])
    add('second-default-first-in-nested-switch', [F('k8', 'char'), SW('k8', CASE('1', F('j8', 'char'), SW('j8', CASE(None, default=True))))])
    add('unnamed-without-value', [F(None, 'char')])
    add('unnamed-optional', [F(None, 'char', '1', optional='true')])
    add('dummy-without-value', [{'tag': 'dummy', 'attrs': {'type': 'char'}, 'text': None}])
    add('hardcoded-wrong-type-unnamed-int', [F(None, 'char', 'abc')])
    add('hardcoded-wrong-type-unnamed-bool', [F(None, 'bool', 'yes')])
    add('hardcoded-wrong-type-dummy', [D('short', 'x1')])
    add('hardcoded-wrong-type-named-int', [F('hn', 'char', 'abc')])
    add('hardcoded-wrong-type-named-bool', [F('hb', 'bool', 'maybe')])
    add('hardcoded-wrong-length', [F('hs', 'string', 'abc', length='2')])
    add('hardcoded-wrong-length-unnamed', [F(None, 'string', 'abc', length='5')])
    add('hardcoded-on-blob', [F('hq', 'blob', 'x')])
    add('hardcoded-on-struct', [F('hc', 'HostInner', 'x')])
    add('hardcoded-on-enum', [F('he', 'HostKind', 'A')])
    add('length-on-integer', [F('ln1', 'char', length='3')])
    add('length-on-struct', [F('ln2', 'HostInner', length='2')])
    add('length-on-bool', [F('ln3', 'bool', length='1')])
    add('length-field-non-numeric', [L('lx', 'string')])
    add('length-field-bool', [L('lb', 'bool')])
    add('length-field-enum', [L('le', 'HostKind')])
    add('length-field-bad-offset', [L('lo', 'char', offset='x')])
    add('unbounded-element-in-plain-array', [A('ub', 'blob', length='2')])
    add('unbounded-string-element', [A('us', 'string', length='2')])
    add('array-without-name', [{'tag': 'array', 'attrs': {'type': 'char', 'length': '2'}}])
    add('array-without-type', [{'tag': 'array', 'attrs': {'name': 'nt', 'length': '2'}}])
    add('field-without-type', [{'tag': 'field', 'attrs': {'name': 'nt'}, 'text': None}])
    add('length-without-name', [{'tag': 'length', 'attrs': {'type': 'char'}}])
    add('switch-on-unknown-field', [SW('nofield', CASE('1', F('z', 'char')))])
    add('switch-on-array', [A('sa', 'char', length='2'), SW('sa', CASE('1'))])
    add('switch-on-string', [F('ss', 'string', length='2'), SW('ss', CASE('1'))])
    add('switch-on-bool', [F('sb', 'bool'), SW('sb', CASE('1'))])
    add('switch-on-struct', [F('sc', 'HostInner'), SW('sc', CASE('1'))])
    add('switch-without-field', [F('k1', 'char'), {'tag': 'switch', 'attrs': {}, 'cases': [CASE('1')]}])
    add('lone-default-case', [F('k1', 'char'), SW('k1', CASE(None, F('z', 'char'), default=True))])
    add('lone-empty-default-case', [F('k1', 'char'), SW('k1', CASE(None, default=True))])
    add('default-case-first', [F('k1', 'char'), SW('k1', CASE(None, F('z', 'char'), default=True), CASE('1', F('y', 'char')))])
    add('empty-default-case-first', [F('k1', 'char'), SW('k1', CASE(None, default=True), CASE('2'), CASE('3', F('y', 'char')))])
    add('case-value-not-integer', [F('k1', 'char'), SW('k1', CASE('x'))])
    add('case-without-value', [F('k1', 'char'), SW('k1', CASE(None, F('z', 'char')))])
    add('enum-case-by-declared-ordinal', [F('hk', 'HostKind'), SW('hk', CASE('1'))])
    add('enum-case-unknown-name', [F('hk', 'HostKind'), SW('hk', CASE('Zed'))])
    add('outer-field-invisible-in-case', [F('k1', 'char'), SW('k1', CASE('1', F('k2', 'char'), SW('k1', CASE('2'))))])
    add('outer-length-invisible-in-case', [F('k1', 'char'), L('ol', 'char'), SW('k1', CASE('1', F('s', 'string', length='ol'))), F('t', 'string', length='ol')])
    add('underlying-on-struct', [F('eo', 'HostInner:char')])
    add('underlying-on-integer', [F('e2', 'char:short')])
    add('underlying-non-numeric', [F('e3', 'HostKind:string')])
    add('underlying-self', [F('e4', 'HostKind:HostKind')])
    add('underlying-two-colons', [F('e5', 'HostKind:char:short')])
    add('underlying-on-string', [F('e6', 'string:char', length='2')])
    # --- round-3 additions
    add('break-after-dummy', [CH(F('bd', 'char'), D('short', '5'), dict(BR))])
    add('break-then-field-after-dummy', [CH(D('short', '5'), dict(BR), F('t9', 'string'))])
    add('break-after-dummy-in-case', [F('k9', 'char'), CH(SW('k9', CASE('1', D('char', '1')), CASE('2')), dict(BR), F('t9', 'string'))])
    add('hardcoded-padded-too-short-named', [F('hp', 'string', 'HEY', length='5', padded='true')])
    add('hardcoded-padded-too-short-unnamed', [F(None, 'string', 'HEY', length='5', padded='true')])
    add('hardcoded-padded-too-short-encoded', [F('hp', 'encoded_string', 'HEY', length='4', padded='true')])
    add('hardcoded-padded-too-long', [F('hp', 'string', 'HEYYOU', length='5', padded='true')])
    add('switch-on-bool-override', [F('sb', 'bool:short'), SW('sb', CASE('1'))])
    add('switch-on-encoded-string', [F('ss', 'encoded_string', length='2'), SW('ss', CASE('1'))])
    add('delimited-in-case-of-unchunked', [F('k3', 'char'), SW('k3', CASE('1', A('da', 'char', delimited='true')))], True)
    add('break-in-case-of-unchunked', [F('k3', 'char'), SW('k3', CASE('1', F('z3', 'char'), dict(BR)))], True)
    add('optional-unnamed', [F(None, 'string', 'ab', length='2', optional='true')])
    add('required-dummy-after-optional-then-field', [F('o1', 'char', optional='true'), D('char', '1'), F('x', 'char', optional='true')])
    return S


def hosts(snip, chunked_ok):
    """the snippet at top level, inside <chunked>, inside a switch case, and nested combinations"""
    out = [('top', [F('h0', 'char')] + snip),
           ('case', [F('h0', 'char'), SW('h0', CASE('1', *snip))]),
           ('default-case', [F('h0', 'char'), SW('h0', CASE('1'), CASE(None, *snip, default=True))]),
           ('nested-case', [F('h0', 'char'), SW('h0', CASE('2', F('h3', 'short'), SW('h3', CASE('7', *snip))))])]
    if chunked_ok:
        out += [('chunked', [F('h0', 'char'), CH(F('h1', 'string'), dict(BR), *snip)]),
                ('chunked-case', [F('h0', 'char'), CH(SW('h0', CASE('1', F('h2', 'char'), *snip)))]),
                ('chunked-in-case', [F('h0', 'char'), SW('h0', CASE('1', CH(*snip)))])]
    return out


def with_host(tree, body, where, as_packet=False):
    t = copy.deepcopy(tree)
    t['']['structs'].append({'name': 'HostInner', 'body': [F('q', 'char')]})
    t['']['structs'].append({'name': 'HostUnbounded', 'body': [F('q', 'char'), F('rest', 'string')]})
    t['']['enums'].append({'name': 'HostKind', 'type': 'char', 'values': [('A', '1'), ('B', '2')]})
    if as_packet:
        t[where]['packets'].append({'family': 'Welcome', 'action': 'Reply' if where == 'net/client' else 'Request', 'body': copy.deepcopy(body)})
        # avoid duplicating a packet the base tree already declares
        ids = [(p['family'], p['action']) for p in t[where]['packets']]
        if len(set(ids)) != len(ids):
            return None
    else:
        t[where]['structs'].append({'name': 'HostStruct', 'body': copy.deepcopy(body)})
    return t


def tree_edits(tree, rng):
    """(rule, mutated tree): violations at the level of type / enum / packet declarations"""
    out = []

    def ed(rule, f):
        t = copy.deepcopy(tree)
        try:
            if f(t) is not False:
                out.append((rule, t))
        except (IndexError, KeyError):
            pass
    structs = [(p, s) for p, fl in tree.items() for s in fl['structs']]
    enums = [(p, e) for p, fl in tree.items() for e in fl['enums']]
    if structs:
        p0, s0 = rng.choice(structs)
        for where in FILES:
            ed(f'redefined-struct-in-{where or "root"}', lambda t, w=where: t[w]['structs'].append({'name': s0['name'], 'body': [F('a', 'char')]}))
        ed('struct-redefined-as-enum', lambda t: t['pub']['enums'].append({'name': s0['name'], 'type': 'char', 'values': [('A', '1')]}))
        ed('struct-without-name', lambda t: t['']['structs'].append({'name': None, 'body': [F('a', 'char')]}))
        ed('struct-cycle-self', lambda t: t['']['structs'].append({'name': 'Loop', 'body': [F('next', 'Loop')]}))
        ed('struct-cycle-mutual', lambda t: t['']['structs'].extend([{'name': 'LoopA', 'body': [F('b', 'LoopB')]}, {'name': 'LoopB', 'body': [A('a', 'LoopA', length='1')]}]))
    if enums:
        p1, e1 = rng.choice(enums)
        for where in ('', 'net', 'pub/server'):
            ed(f'redefined-enum-in-{where or "root"}', lambda t, w=where: t[w]['enums'].append({'name': e1['name'], 'type': 'char', 'values': [('A', '1')]}))
    mk = lambda **k: dict({'name': 'BadEnum', 'type': 'char', 'values': [('A', '1'), ('B', '2')]}, **k)
    ed('enum-ordinal-not-integer', lambda t: t['']['enums'].append(mk(values=[('A', '1'), ('B', 'two')])))
    ed('enum-ordinal-empty', lambda t: t['']['enums'].append(mk(values=[('A', None)])))
    ed('enum-duplicate-ordinal', lambda t: t['']['enums'].append(mk(values=[('A', '1'), ('B', '1')])))
    ed('enum-duplicate-name', lambda t: t['']['enums'].append(mk(values=[('A', '1'), ('A', '2')])))
    ed('enum-duplicate-python-name', lambda t: t['']['enums'].append(mk(values=[('None', '1'), ('None_', '2')])))
    ed('enum-value-without-name', lambda t: t['']['enums'].append(mk(values=[(None, '1')])))
    ed('enum-underlying-string', lambda t: t['']['enums'].append(mk(type='string')))
    ed('enum-underlying-bool', lambda t: t['']['enums'].append(mk(type='bool')))
    ed('enum-underlying-self', lambda t: t['']['enums'].append(mk(type='BadEnum')))
    ed('enum-underlying-unknown', lambda t: t['']['enums'].append(mk(type='nonsense')))
    ed('enum-without-type', lambda t: t['']['enums'].append(mk(type=None)))
    ed('enum-without-name', lambda t: t['']['enums'].append(mk(name=None)))
    ed('enum-named-like-builtin', lambda t: t['']['enums'].append(mk(name='char', type='short')))
    ed('struct-named-like-builtin-int', lambda t: t['']['structs'].append({'name': 'short', 'body': [F('a', 'char')]}))
    ed('struct-named-like-builtin-string', lambda t: t['pub']['structs'].append({'name': 'string', 'body': [F('a', 'char')]}))
    ed('struct-named-like-builtin-blob', lambda t: t['']['structs'].append({'name': 'blob', 'body': [F('a', 'char')]}))

    def swap_enum_for_struct(t, name):
        t['net']['enums'] = [e for e in t['net']['enums'] if e['name'] != name]
        t['net']['structs'].append({'name': name, 'body': [F('a', 'char')]})
        if not (t['net/client']['packets'] or t['net/server']['packets']):
            t['net/client']['packets'].append(dict(family='Init', action='Init', body=[F('a', 'char')]))
    ed('packet-family-is-a-struct', lambda t: swap_enum_for_struct(t, 'PacketFamily'))
    ed('packet-action-is-a-struct', lambda t: swap_enum_for_struct(t, 'PacketAction'))
    pk = lambda **k: dict({'family': 'Talk', 'action': 'Request', 'body': [F('a', 'char')]}, **k)
    ed('packet-unknown-family', lambda t: t['net/client']['packets'].append(pk(family='Nonesuch', action='Init')))
    ed('packet-unknown-action', lambda t: t['net/server']['packets'].append(pk(family='Init', action='Nonesuch')))
    ed('packet-without-family', lambda t: t['net/client']['packets'].append(pk(family=None)))
    ed('packet-without-action', lambda t: t['net/client']['packets'].append(pk(action=None)))
    for where in ('', 'map', 'net', 'pub', 'pub/server'):
        ed(f'packet-outside-client-server-{where or "root"}', lambda t, w=where: t[w]['packets'].append(pk()))
    ed('packet-duplicate-in-file', lambda t: t['net/server']['packets'].extend([pk(family='Welcome', action='Init'), pk(family='Welcome', action='Init')]))
    ed('packet-family-enum-missing', lambda t: t['net'].__setitem__('enums', [e for e in t['net']['enums'] if e['name'] != 'PacketFamily']) or (t['net/client']['packets'] or t['net/server']['packets'] or t['net/client']['packets'].append(pk(family='Init', action='Init'))))
    return out


def run(tier):
    C = Check('C17', tier)
    C.prove('Properties/C17.v')
    C.cov['tie']['protocol_code_generator'] = 'correspondence-only: the real generator is run on every mutated specification tree; reference Model/Elab.v'
    quick = tier == 'quick'
    trees, rng = build_trees(C, 3 if quick else 25)
    runner = GenRunner(C.scratch, workers=8)
    S = snippets()
    entries = []
    small = empty_tree()
    small['']['structs'] += [{'name': 'Pt', 'body': [F('x', 'char'), F('y', 'char')]}]
    small['map']['structs'] += [{'name': 'Cell', 'body': [F('p', 'Pt'), CH(F('label', 'string'), dict(BR), A('vals', 'short', delimited='true'))]}]
    small['net/server']['packets'] += [{'family': 'Talk', 'action': 'Reply', 'body': [F('p', 'Pt'), F('msg', 'string')]}]
    trees.insert(0, dict(name='small', tree=small))
    for t in trees:
        # hand-written trees are valid by construction; for a random tree the verdict of the generator is only compared with the model's
        entries.append(dict(name=t['name'], tree=t['tree'], expect=(True if (t['name'] == 'small' or t['name'].startswith('mini-eo')) else None), rule='(valid tree)', base=t['name']))
        for rule, mt in tree_edits(t['tree'], rng):
            entries.append(dict(name=f"{t['name']}+{rule}", tree=mt, expect=False, rule=rule, ctx='declarations', base=t['name']))
        if quick and t['name'].startswith('mini-eo'):
            continue      # the large corpus trees host instruction-level edits in the thorough tier only
        combos = []
        for rule, unch, snip in S:
            for ctx, body in hosts(snip, True):
                chunked_ctx = ctx.startswith('chunked') or ctx == 'chunked-in-case'
                if unch and chunked_ctx:
                    continue
                for where in FILES:
                    combos.append((rule, ctx, where, False, body))
                for where in ('net/client', 'net/server'):
                    combos.append((rule, ctx, where, True, body))
        if quick or len(combos) > 900:
            keep = {}
            rng.shuffle(combos)
            # every (rule, context) pair at least once, placements sampled
            for c in combos:
                keep.setdefault((c[0], c[1]), c)
            picked = list(keep.values()) if (quick and t['name'] != 'small') else list(keep.values()) + combos[:(150 if quick else 500)]
            if quick and t['name'] != 'small':
                picked = picked[::3]
        else:
            picked = combos
        for rule, ctx, where, as_packet, body in picked:
            mt = with_host(t['tree'], body, where, as_packet)
            if mt is not None:
                entries.append(dict(name=f"{t['name']}+{rule}@{ctx}@{where or 'root'}{'(packet)' if as_packet else ''}", tree=mt, expect=False, rule=rule, ctx=ctx, base=t['name']))
    run_entries(C, runner, entries)
    # ---- oracle on the implementation: every rule-violating tree is rejected, every valid tree accepted
    byrule = {}
    nrej = 0
    # a random base tree the generator itself rejects cannot host single-rule edits: its variants are only compared with the model
    bad_bases = {e['base'] for e in entries if e['rule'] == '(valid tree)' and e['expect'] is None and not e['result'].get('accepted')}
    C.cov['random_base_trees_rejected_by_the_generator'] = sorted(bad_bases)
    for e in entries:
        r = e['result']
        if e['base'] in bad_bases:
            continue
        if 'driver_error' in r:
            C.broken.append(dict(kind='correspondence', stream='accept-reject', msg=r['driver_error'][:300]))
            continue
        byrule.setdefault(e['rule'], [0, 0])
        byrule[e['rule']][0] += 1
        if e['expect'] is True and not r['accepted']:
            C.violation(f"valid tree '{e['name']}' was rejected: {r['error']}", dict(unit='protocol_code_generator', input=dict(tree=e['name'], xml=tree_xml(e['tree']))))
        if e['expect'] is False:
            if r['accepted']:
                key = 'F7-named-hardcoded-not-type-checked' if e['rule'] in ('hardcoded-wrong-type-named-int', 'hardcoded-wrong-type-named-bool') else None
                C.violation(f"specification breaking rule '{e['rule']}' ({e.get('ctx')}) was accepted and code was emitted: tree '{e['name']}'",
                            dict(unit='protocol_code_generator', input=dict(tree=e['name'], rule=e['rule'], xml=tree_xml(e['tree']))), key=key)
            else:
                nrej += 1
                byrule[e['rule']][1] += 1
    # which of the generator's `raise` statements did the catalogue reach?  (a rule never triggered is a rule never tested)
    try:
        import ast as _ast
        sites = set()
        gdir = os.path.join(C.scratch.dir, 'protocol_code_generator')
        for dp, _, fns in os.walk(gdir):
            for fn in fns:
                if fn.endswith('.py'):
                    pth = os.path.join(dp, fn)
                    rel = pth[pth.index('protocol_code_generator'):]
                    for node in _ast.walk(_ast.parse(open(pth).read())):
                        if isinstance(node, _ast.Raise):
                            sites.add(f"{rel}:{node.lineno}")
        hit = {e['result'].get('raise_site') for e in entries if e['result'].get('raise_site')}
        C.cov['generator_raise_sites'] = dict(total=len(sites), reached_by_the_catalogue=len(sites & hit), not_reached=sorted(sites - hit),
                                              other_rejection_sites=sorted(hit - sites))
    except Exception as ex:
        C.cov['generator_raise_sites'] = dict(error=str(ex)[:200])
    C.stream('oracle.rejected', len(entries), len({e['name'] for e in entries if not e['expect']}), sample=dict(tree=entries[1]['name'] if len(entries) > 1 else None))
    C.cov['distribution'] = dict(mutated_trees=len(entries), rejected=nrej, rules=len(byrule), per_rule={k: v[0] for k, v in sorted(byrule.items())})
    # ---- correspondence: the reference elaboration accepts/rejects exactly the same trees
    mism = compare_entries(C, 'c17', entries, 'accept-reject', want=())
    for m in mism[:3]:
        report_mismatch(C, m, "accept/reject")
    for m in mism:
        C.disagreement('accept-reject', dict(tree=m['entry']['name'], kind=m['kind']))
    return C.finish()


def replay(path):
    return gen_replay(path)
