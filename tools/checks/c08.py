"""C08 - EO string encoding is length-preserving, self-inverse and break-safe."""
import itertools
import os
from vlib import *


def inplace(f):
    def g(bs):
        b = bytearray(bs)
        r = f(b)
        if r is not None:
            raise RuntimeError("in-place function returned a value")
        return list(b)
    return g


def oracle(enc, dec, bs):
    n = len(bs)
    for nm, f in (('encode_string', enc), ('decode_string', dec)):
        r = pyexc(f, bs)
        if r[0] != 'ok':
            return f"{nm}({bs}) raised {r[1]}"
        out = r[1]
        if len(out) != n:
            return f"{nm}({bs}) changed the length to {len(out)}"
        for i in range(n):
            c = bs[n - 1 - i]
            o = out[i]
            if not (0x22 <= c <= 0x7E):
                if o != c:
                    return f"{nm}({bs})[{i}] = {o}: byte {c} outside 0x22..0x7E not carried to its mirrored position"
            elif not (0x21 <= o <= 0x7D):
                return f"{nm}({bs})[{i}] = {o}: byte {c} mapped outside 0x21..0x7D"
    for nm, f, g in (('decode(encode', enc, dec), ('encode(decode', dec, enc)):
        r = pyexc(lambda x: g(f(x)), bs)
        if r[0] != 'ok':
            return f"{nm}({bs})) raised"
        for i in range(n):
            if bs[i] != 0x7E and r[1][i] != bs[i]:
                return f"{nm}({bs}))[{i}] = {r[1][i]} != {bs[i]}"
    return None


def reuse_oracle(mod, bs):
    """the way callers use the functions: ONE buffer transformed in place and transformed back, then the same content again in a
    fresh buffer (a result must not depend on what earlier calls left behind)"""
    def one():
        b = bytearray(bs)
        mod.encode_string(b)
        e = list(b)
        mod.decode_string(b)
        return e, list(b)
    r1 = pyexc(one)
    r2 = pyexc(one)
    if r1[0] != 'ok' or r2[0] != 'ok':
        return f"in-place encode/decode of {bs} raised {r1 if r1[0] != 'ok' else r2}"
    if r1[1] != r2[1]:
        return f"encode_string/decode_string of the same content {bs} gave {r1[1]} the first time and {r2[1]} the second time"
    back = r1[1][1]
    if any(a != b and a != 0x7E for a, b in zip(bs, back)) or len(back) != len(bs):
        return f"decode_string(encode_string({bs})) in one buffer = {back}"
    return None


def inputs(C, tier):
    rng = C.rng
    out = []
    for v in range(256):
        for L in (1, 2, 3, 4):
            for pos in range(L):
                s = [65] * L
                s[pos] = v
                out.append(s)
    alpha = [0x00, 0x21, 0x22, 0x4F, 0x50, 0x7D, 0x7E, 0x7F, 0xFF]
    maxl = 4 if tier == 'thorough' else 3
    out += [list(t) for L in range(0, maxl + 1) for t in itertools.product(alpha, repeat=L)]
    n = 300 if tier == 'quick' else 3000
    for _ in range(n):
        L = rng.choice([rng.randrange(0, 12), rng.randrange(0, 60), rng.randrange(0, 300)])
        out.append([rng.choice(alpha) if rng.random() < 0.3 else rng.randrange(256) for _ in range(L)])
    seen, uniq = set(), []
    for s in out:
        if tuple(s) not in seen:
            seen.add(tuple(s))
            uniq.append(s)
    return uniq


def run(tier):
    C = Check('C08', tier)
    C.prove('Properties/C08.v', units=['G_string_encoding_utils'], bridges={'Bridge/B_string.v': ['G_string_encoding_utils']})
    mod = load_leaf(C.scratch.src, 'eolib.data.string_encoding_utils')
    enc, dec = inplace(mod.encode_string), inplace(mod.decode_string)
    ins = inputs(C, tier)
    for bs in ins:
        w = oracle(enc, dec, bs)
        if w:
            C.violation(w, dict(unit='string_encoding_utils', input=dict(bytes=bs)))
            break
    for bs in ins[::3]:
        w = reuse_oracle(mod, bs)
        if w:
            C.violation(w, dict(unit='string_encoding_utils', input=dict(bytes=bs, reuse=True)))
            break
    C.stream('oracle', len(ins), len([b for b in ins if any(0x22 <= x <= 0x7E for x in b)]), sample=dict(bytes=ins[len(ins) // 2]))
    e_cases = [(bs, pyexc(enc, bs)) for bs in ins]
    d_cases = [(bs, pyexc(dec, bs)) for bs in ins]
    term = lambda c: f"({clist(c[0])}, {cres(c[1], clist)})"
    nt = lambda c: any(0x22 <= x <= 0x7E for x in c[0])
    specs = []
    for who, modpath, avail in (('M', 'EO.Model.StringEnc', True), ('G', 'EO.Gen.G_string_encoding_utils', None)):
        for fn, cases in (('encode_string', e_cases), ('decode_string', d_cases)):
            if who == 'G' and not C.has_gen('G_string_encoding_utils', fn):
                continue
            specs.append(dict(label=f"{who}.{fn}", ty='list Z * res (list Z)', cases=cases, term=term, nontrivial=nt,
                              chk=f"fun c => res_eqb list_eqb (Ok ({modpath}.{fn} (fst c))) (snd c)"))
    imports = "Require EO.Model.StringEnc.\n" + ("Require EO.Gen.G_string_encoding_utils.\n" if any(s['label'].startswith('G.') for s in specs) else "")
    corr_streams(C, 'c08', specs, imports)

    def search():
        alpha = [0x00, 0x21, 0x22, 0x4F, 0x50, 0x51, 0x7D, 0x7E, 0x7F, 0xFF, 0x41]
        for L in range(0, 6):
            for t in itertools.product(alpha, repeat=L):
                w = oracle(enc, dec, list(t))
                if w:
                    return C.violation(w, dict(unit='string_encoding_utils', input=dict(bytes=list(t))))
        for v in range(256):
            for L in range(1, 9):
                for pos in range(L):
                    for fill in (65, 0x7A, 0x30):
                        s = [fill] * L
                        s[pos] = v
                        w = oracle(enc, dec, s)
                        if w:
                            return C.violation(w, dict(unit='string_encoding_utils', input=dict(bytes=s)))
    return C.finish(search=search)


def replay(path):
    import json
    r = json.load(open(path))
    inp = r.get('input')
    if not inp:
        return replay_broken(r, 'C08')
    s = Scratch()
    mod = load_leaf(s.src, 'eolib.data.string_encoding_utils')
    w = reuse_oracle(mod, inp['bytes']) if inp.get('reuse') else oracle(inplace(mod.encode_string), inplace(mod.decode_string), inp['bytes'])
    print("replay:", w or "property holds on this input")
    return 1 if w else 0
