"""C13 - Packet sequencer yields start + (n mod 10) under any update history."""
import itertools
from vlib import *


class Start:
    """a user-defined start (SequenceStart is open for subclassing): its value may not be known yet (raises while `armed`), and may change"""

    def __init__(self, v):
        self._v = v
        self.armed = False

    @property
    def value(self):
        if self.armed:
            raise LookupError("start value not known yet")
        return self._v


def val(o):
    """the value of an update op: a bare int (duck-typed start) or a real SequenceStart subclass built from its wire values"""
    if isinstance(o, int):
        return o
    if o[0] in ('simple', 'acct', 'mut'):
        return o[1]
    if o[0] == 'init':
        return o[1] * 7 + o[2] - 13
    if o[0] == 'ping':
        return o[1] - o[2]
    raise ValueError(o)


def mk(ss, o):
    if isinstance(o, int) or ss is None:
        return Start(val(o))
    if o[0] == 'simple':
        return ss.SimpleSequenceStart(o[1])
    if o[0] == 'acct':
        return ss.AccountReplySequenceStart.from_value(o[1])
    if o[0] == 'init':
        return ss.InitSequenceStart.from_init_values(o[1], o[2])
    return ss.PingSequenceStart.from_ping_values(o[1], o[2])


def show(o):
    return 'next' if o is None else o if isinstance(o, int) else list(o)


def run_impl(mod, v0, ops, ss=None, aux=None):
    """-> numbers returned by the sequencer itself; `aux` collects what the side events saw:
    ('fail',)   a request made while the start in force cannot tell its value yet: it raises, and is not a returned number
    ('fork', k) the sequencer is copied (copy.copy) and the COPY serves k requests: they continue the history, the original is unaffected
    ('mut', v)  the start object in force changes its value to v (a user-defined start may): the value in force is v from then on"""
    import copy

    def go():
        cur = mk(ss, v0)
        s = mod.PacketSequencer(cur)
        out = []
        for o in ops:
            if o is None:
                out.append(s.next_sequence())
            elif isinstance(o, tuple) and o[0] == 'fail':
                if isinstance(cur, Start):
                    cur.armed = True
                    try:
                        s.next_sequence()
                        raise RuntimeError("next_sequence returned although the start could not tell its value")
                    except LookupError:
                        pass
                    finally:
                        cur.armed = False
            elif isinstance(o, tuple) and o[0] == 'fork':
                t = copy.copy(s)
                if aux is not None:
                    aux.append([t.next_sequence() for _ in range(o[1])])
            elif isinstance(o, tuple) and o[0] == 'mut' and isinstance(cur, Start):
                cur._v = o[1]
            else:
                cur = mk(ss, o if not (isinstance(o, tuple) and o[0] == 'mut') else o[1])
                r = s.set_sequence_start(cur)
                if r is not None:
                    raise RuntimeError("set_sequence_start returned a value")
        return out
    return pyexc(go)


def spec(v0, ops, aux=None):
    cur, n, out = val(v0), 0, []
    for o in ops:
        if o is None:
            out.append(cur + n % 10)
            n += 1
        elif isinstance(o, tuple) and o[0] == 'fail':
            pass
        elif isinstance(o, tuple) and o[0] == 'fork':
            if aux is not None:
                aux.append([cur + (n + j) % 10 for j in range(o[1])])
        else:
            cur = val(o)
    return out


def proj(ops):
    """the history as the model sees it: failed requests and forks are not events of the sequencer itself, a changed value is an update"""
    return [o for o in ops if not (isinstance(o, tuple) and o[0] in ('fail', 'fork'))]


def cop(o):
    return 'Next' if o is None else f"(SetStart {cz(val(o))})"


GRUN = """
Fixpoint grun (g : EO.Gen.G_packet_sequencer.PacketSequencer_st) (ops : list EO.Model.Sequencer.sop) : list Z :=
  match ops with
  | [] => []
  | EO.Model.Sequencer.Next :: t => let '(g', o) := EO.Gen.G_packet_sequencer.PacketSequencer_next_sequence g in o :: grun g' t
  | EO.Model.Sequencer.SetStart v :: t => grun (fst (EO.Gen.G_packet_sequencer.PacketSequencer_set_sequence_start g v)) t
  end.
"""


def run(tier):
    C = Check('C13', tier)
    C.prove('Properties/C13.v', units=['G_packet_sequencer'], bridges={'Bridge/B_sequencer.v': ['G_packet_sequencer']})
    mod, ss = load_leaf(C.scratch.src, 'eolib.packet.packet_sequencer', 'eolib.packet.sequence_start')
    rng = C.rng
    hist = []
    # the real SequenceStart classes as updates: same wire pair under different classes (different values), equal values under
    # different classes, the same update twice, value 0 reached through every constructor
    real = [('init', 20, 5), ('ping', 20, 5), ('init', 1, 6), ('ping', 7, 7), ('acct', 0), ('simple', 0), ('acct', 132), ('simple', 15), ('simple', 132)]
    for a in real:
        for b in real:
            hist.append((a, [None, None, b, None, None, b, None, a, None] + [None] * 9))
    for _ in range(150 if tier == 'quick' else 1500):
        pool = [rng.choice(real), ('init', rng.randrange(0, 253), rng.randrange(0, 253)), ('ping', rng.randrange(0, 253), rng.randrange(0, 253)),
                ('acct', rng.randrange(0, 240)), ('simple', rng.randrange(0, 70000))]
        pool.append((rng.choice(['init', 'ping']),) + pool[rng.randrange(1, 3)][1:])       # the same pair under the other class
        hist.append((rng.choice(pool), [rng.choice(pool) if rng.random() < 0.3 else None for _ in range(rng.randrange(1, 60))]))
    depth = 7 if tier == 'quick' else 10
    for L in range(0, depth + 1):
        for t in itertools.product((None, 3, 1000), repeat=L):
            hist.append((7, list(t)))
    # long histories covering several wrap-arounds with updates at every residue
    for k in range(0, 34):
        hist.append((5, [None] * k + [100] + [None] * 25))
        hist.append((5, [None] * k + [100, 200] + [None] * 12 + [0] + [None] * 11))
    for _ in range(300 if tier == 'quick' else 3000):
        L = rng.randrange(1, 500 if rng.random() < 0.2 else 60)
        p = rng.choice([0.05, 0.3, 0.7])
        hist.append((rng.choice([0, 1, 1756, rng.randrange(-5, 70000)]),
                     [rng.choice([0, 9, 10, 1756, rng.randrange(0, 70000), -3]) if rng.random() < p else None for _ in range(L)]))
    # events outside the two methods: a request that fails, a copied sequencer, a start object that changes its value - at every residue
    for k in range(0, 13):
        hist.append((5, [None] * k + [('fail',)] + [None] * 12))
        hist.append((5, [None] * k + [('fork', 3)] + [None] * 12 + [('fork', 2), None]))
        hist.append((5, [None] * k + [('mut', 100)] + [None] * 12 + [('mut', 7), ('mut', 8), None]))
    for _ in range(100 if tier == 'quick' else 1000):
        ev = lambda: rng.choice([('fail',), ('fork', rng.randrange(1, 12)), ('mut', rng.randrange(0, 2000)), rng.randrange(0, 2000)])
        hist.append((rng.randrange(0, 1757), [ev() if rng.random() < 0.25 else None for _ in range(rng.randrange(1, 50))]))
    cases = []
    for v0, ops in hist:
        ax, ex = [], []
        r = run_impl(mod, v0, ops, ss, ax)
        cases.append(((v0, ops), r))
        if r == ('ok', spec(v0, ops, ex)) and ax != ex and not C.violations:
            C.violation(f"history start={show(v0)} ops={[show(o) for o in ops]}: the copies of the sequencer served {ax}, expected {ex}",
                        dict(unit='packet_sequencer', input=dict(start=show(v0), ops=[show(o) for o in ops])))
        if r != ('ok', spec(v0, ops)) and not C.violations:
            got = r[1] if r[0] == 'ok' else r
            exp = spec(v0, ops)
            k = next((i for i, (a, b) in enumerate(zip(got, exp)) if a != b), None) if r[0] == 'ok' else None
            C.violation(f"history start={show(v0)} ops={[show(o) for o in ops]}: request #{k} returned "
                        f"{got[k] if k is not None else got}, expected {exp[k] if k is not None else exp}",
                        dict(unit='packet_sequencer', input=dict(start=show(v0), ops=[show(o) for o in ops])))
    nt = lambda c: len([o for o in c[0][1] if o is None]) > 10 and any(o is not None for o in c[0][1])
    C.stream('oracle.histories', len(cases), len({repr(c[0]) for c in cases if nt(c)}), exhaustive=False,
             sample=dict(start=show(hist[len(hist) // 2][0]), ops=[show(o) for o in hist[len(hist) // 2][1]][:30]))
    C.cov['bounded_exhaustive'] = f"all histories of length <= {depth} over {{next, set 3, set 1000}}"
    sub = cases if len(cases) <= 6000 else cases[::len(cases) // 6000 + 1] + cases[-400:]
    term = lambda c: f"(({cz(val(c[0][0]))}, {clist(proj(c[0][1]), cop)}), {cres(c[1], clist)})"
    specs = [dict(label='M.run', ty='(Z * list EO.Model.Sequencer.sop) * res (list Z)', cases=sub, term=term, nontrivial=nt,
                  chk="fun c => res_eqb list_eqb (Ok (EO.Model.Sequencer.run (EO.Model.Sequencer.seqr_init (fst (fst c))) (snd (fst c)))) (snd c)")]
    imports = "Require EO.Model.Sequencer.\nImport EO.Model.Sequencer.\n"
    if C.has_gen('G_packet_sequencer', 'PacketSequencer'):
        imports += "Require EO.Gen.G_packet_sequencer.\n" + GRUN
        specs.append(dict(label='G.run', ty='(Z * list EO.Model.Sequencer.sop) * res (list Z)', cases=sub, term=term, nontrivial=nt,
                          chk="fun c => res_eqb list_eqb (Ok (grun (EO.Gen.G_packet_sequencer.PacketSequencer_init (fst (fst c))) (snd (fst c)))) (snd c)"))
    corr_streams(C, 'c13', specs, imports)

    def search():
        for L in range(0, 13):
            for t in itertools.product((None, 3), repeat=L):
                for extra in ([], [None] * 12, [None] * 9 + [50] + [None] * 3):
                    ops = list(t) + extra
                    r = run_impl(mod, 7, ops, ss)
                    if r != ('ok', spec(7, ops)):
                        return C.violation(f"history start=7 ops={['next' if o is None else o for o in ops]} returned {r}, expected {spec(7, ops)}",
                                           dict(unit='packet_sequencer', input=dict(start=7, ops=['next' if o is None else o for o in ops])))
    return C.finish(search=search)


def replay(path):
    import json
    r = json.load(open(path))
    inp = r.get('input')
    if not inp:
        return replay_broken(r, 'C13')
    s = Scratch()
    mod, ss = load_leaf(s.src, 'eolib.packet.packet_sequencer', 'eolib.packet.sequence_start')
    un = lambda o: None if o == 'next' else o if isinstance(o, int) else tuple(o)
    v0, ops = un(inp['start']), [un(o) for o in inp['ops']]
    ax, ex = [], []
    got = run_impl(mod, v0, ops, ss, ax)
    w = None if got == ('ok', spec(v0, ops, ex)) else f"history start={inp['start']} ops={inp['ops']} returned {got}, expected {spec(v0, ops)}"
    if w is None and ax != ex:
        w = f"history start={inp['start']} ops={inp['ops']}: the copies of the sequencer served {ax}, expected {ex}"
    print("replay:", w or "property holds on this input")
    return 1 if w else 0
