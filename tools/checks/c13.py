"""C13 - Packet sequencer yields start + (n mod 10) under any update history."""
import itertools
from vlib import *


class Start:
    def __init__(self, v):
        self._v = v

    @property
    def value(self):
        return self._v


def run_impl(mod, v0, ops):
    def go():
        s = mod.PacketSequencer(Start(v0))
        out = []
        for o in ops:
            if o is None:
                out.append(s.next_sequence())
            else:
                r = s.set_sequence_start(Start(o))
                if r is not None:
                    raise RuntimeError("set_sequence_start returned a value")
        return out
    return pyexc(go)


def spec(v0, ops):
    cur, n, out = v0, 0, []
    for o in ops:
        if o is None:
            out.append(cur + n % 10)
            n += 1
        else:
            cur = o
    return out


def cop(o):
    return 'Next' if o is None else f"(SetStart {cz(o)})"


GRUN = """
Fixpoint grun (g : EO.Gen.G_packet_sequencer.PacketSequencer_st) (ops : list EO.Model.Sequencer.sop) : list Z :=
  match ops with
  | [] => []
  | EO.Model.Sequencer.Next :: t => let '(g', o) := EO.Gen.G_packet_sequencer.PacketSequencer_next_sequence g in o :: grun g' t
  | EO.Model.Sequencer.SetStart v :: t => grun (fst (EO.Gen.G_packet_sequencer.PacketSequencer_set_sequence_start g v)) t
  end.
"""


def run(tier):
    C = Check('C13', tier)
    C.prove('Properties/C13.v', units=['G_packet_sequencer'], bridges={'Bridge/B_sequencer.v': ['G_packet_sequencer']})
    mod = load_leaf(C.scratch.src, 'eolib.packet.packet_sequencer')
    rng = C.rng
    hist = []
    depth = 7 if tier == 'quick' else 10
    for L in range(0, depth + 1):
        for t in itertools.product((None, 3, 1000), repeat=L):
            hist.append((7, list(t)))
    # long histories covering several wrap-arounds with updates at every residue
    for k in range(0, 34):
        hist.append((5, [None] * k + [100] + [None] * 25))
        hist.append((5, [None] * k + [100, 200] + [None] * 12 + [0] + [None] * 11))
    for _ in range(300 if tier == 'quick' else 3000):
        L = rng.randrange(1, 500 if rng.random() < 0.2 else 60)
        p = rng.choice([0.05, 0.3, 0.7])
        hist.append((rng.choice([0, 1, 1756, rng.randrange(-5, 70000)]),
                     [rng.choice([0, 9, 10, 1756, rng.randrange(0, 70000), -3]) if rng.random() < p else None for _ in range(L)]))
    cases = []
    for v0, ops in hist:
        r = run_impl(mod, v0, ops)
        cases.append(((v0, ops), r))
        if r != ('ok', spec(v0, ops)) and not C.violations:
            got = r[1] if r[0] == 'ok' else r
            exp = spec(v0, ops)
            k = next((i for i, (a, b) in enumerate(zip(got, exp)) if a != b), None) if r[0] == 'ok' else None
            C.violation(f"history start={v0} ops={['next' if o is None else o for o in ops]}: request #{k} returned "
                        f"{got[k] if k is not None else got}, expected {exp[k] if k is not None else exp}",
                        dict(unit='packet_sequencer', input=dict(start=v0, ops=['next' if o is None else o for o in ops])))
    nt = lambda c: len([o for o in c[0][1] if o is None]) > 10 and any(o is not None for o in c[0][1])
    C.stream('oracle.histories', len(cases), len({repr(c[0]) for c in cases if nt(c)}), exhaustive=False,
             sample=dict(start=hist[len(hist) // 2][0], ops=['next' if o is None else o for o in hist[len(hist) // 2][1]][:30]))
    C.cov['bounded_exhaustive'] = f"all histories of length <= {depth} over {{next, set 3, set 1000}}"
    sub = cases if len(cases) <= 6000 else cases[::len(cases) // 6000 + 1] + cases[-400:]
    term = lambda c: f"(({cz(c[0][0])}, {clist(c[0][1], cop)}), {cres(c[1], clist)})"
    specs = [dict(label='M.run', ty='(Z * list EO.Model.Sequencer.sop) * res (list Z)', cases=sub, term=term, nontrivial=nt,
                  chk="fun c => res_eqb list_eqb (Ok (EO.Model.Sequencer.run (EO.Model.Sequencer.seqr_init (fst (fst c))) (snd (fst c)))) (snd c)")]
    imports = "Require EO.Model.Sequencer.\nImport EO.Model.Sequencer.\n"
    if C.has_gen('G_packet_sequencer', 'PacketSequencer'):
        imports += "Require EO.Gen.G_packet_sequencer.\n" + GRUN
        specs.append(dict(label='G.run', ty='(Z * list EO.Model.Sequencer.sop) * res (list Z)', cases=sub, term=term, nontrivial=nt,
                          chk="fun c => res_eqb list_eqb (Ok (grun (EO.Gen.G_packet_sequencer.PacketSequencer_init (fst (fst c))) (snd (fst c)))) (snd c)"))
    corr_streams(C, 'c13', specs, imports)

    def search():
        for L in range(0, 13):
            for t in itertools.product((None, 3), repeat=L):
                for extra in ([], [None] * 12, [None] * 9 + [50] + [None] * 3):
                    ops = list(t) + extra
                    r = run_impl(mod, 7, ops)
                    if r != ('ok', spec(7, ops)):
                        return C.violation(f"history start=7 ops={['next' if o is None else o for o in ops]} returned {r}, expected {spec(7, ops)}",
                                           dict(unit='packet_sequencer', input=dict(start=7, ops=['next' if o is None else o for o in ops])))
    return C.finish(search=search)
