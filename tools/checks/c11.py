"""C11 - Server verification hash equals the game client's arithmetic."""
import os
from vlib import *

THREE_MAX = 253 ** 3
INT_MAX = 253 ** 4


def trem(a, b):
    """C-style truncating remainder, integer only (independent of the implementation's helper)."""
    r = abs(a) % abs(b)
    return -r if a < 0 else r


def client_hash(ch):
    c = ch + 1
    return 110905 + (trem(c, 9) + 1) * trem(11092004 - c, (trem(c, 11) + 1) * 119) * 119 + trem(c, 2004)


def oracle(f, c):
    r = pyexc(f, c)
    if r[0] == 'ok' and type(r[1]) is not int:
        return f"server_verification_hash({c}) = {r[1]!r} is a {type(r[1]).__name__}, not an integer (it cannot be written as an EO number)"
    if r != ('ok', client_hash(c)):
        return f"server_verification_hash({c}) = {r}, client arithmetic gives {client_hash(c)}"
    if c <= 11092110 and not (0 <= r[1] < INT_MAX):
        return f"server_verification_hash({c}) = {r[1]} does not fit an EO int"
    return None


class ambient:
    """process-wide arithmetic settings a host application may have changed (the hash is integer arithmetic: none of them may matter)"""

    def __init__(self, name):
        self.name = name

    def __enter__(self):
        import decimal
        self.old = decimal.getcontext()
        if self.name:
            c = decimal.Context(prec=3, rounding=decimal.ROUND_UP, Emin=-9, Emax=9)
            decimal.setcontext(c)
        return self

    def __exit__(self, *a):
        import decimal
        decimal.setcontext(self.old)
        return False


def scan(f, lo, hi):
    for c in range(lo, hi):
        h = f(c)
        if type(h) is not int or h != client_hash(c) or (c <= 11092110 and not (0 <= h < INT_MAX)):
            return c
    return None


def _scan_worker(args):
    src, lo, hi = args
    mod = load_leaf(src, 'eolib.encrypt.server_verification_utils')
    try:
        return scan(mod.server_verification_hash, lo, hi)
    except Exception:
        for c in range(lo, hi):
            if oracle(mod.server_verification_hash, c):
                return c
        return None


def exhaustive(src, lo=0, hi=THREE_MAX):
    import multiprocessing as mp
    step = 200000
    jobs = [(src, a, min(a + step, hi)) for a in range(lo, hi, step)]
    with mp.Pool(14) as p:
        bad = [r for r in p.map(_scan_worker, jobs) if r is not None]
    return min(bad) if bad else None


def run(tier):
    C = Check('C11', tier)
    C.prove('Properties/C11.v', units=['G_server_verification_utils'], bridges={'Bridge/B_hash.v': ['G_server_verification_utils']})
    mod = load_leaf(C.scratch.src, 'eolib.encrypt.server_verification_utils')
    f = mod.server_verification_hash
    consts = source_constants(os.path.join(C.scratch.src, 'eolib/encrypt/server_verification_utils.py'))
    rng = C.rng
    ins = {0, 1, 2, 5, 12345, 100000, 5000000, 11092003, 11092004, 11092005, 11092110, 11092111, 11111111, 12345678,
           THREE_MAX - 1, 11092479, 11092123, 11093312}
    for k in consts:
        for d in range(-3, 4):
            for m in (1, 2, 3):
                if 0 <= k * m + d < THREE_MAX:
                    ins.add(k * m + d)
    ins |= set(range(11091900, 11093000))
    ins |= {rng.randrange(0, THREE_MAX) for _ in range(100000 if tier == 'quick' else 300000)}
    ins |= {rng.randrange(11092004, THREE_MAX) for _ in range(50000)}
    ins = sorted(ins)
    nbad = 0
    for c in ins:
        w = oracle(f, c)
        if w:
            C.violation(w, dict(unit='server_verification_utils', input=dict(challenge=c)), key=f"challenge={c}")
            nbad += 1
            if nbad >= 1:
                break
    C.stream('oracle.sample', len(ins), len(ins), sample=dict(challenge=ins[len(ins) // 2]))
    # the same under a decimal context of 3 digits (a host application may have set one): integer arithmetic does not look at it
    amb = sorted(set(ins[::max(1, len(ins) // 3000)]) | set(range(11091990, 11092130)) | {THREE_MAX - 1, 8999999, 9000000})
    with ambient('decimal prec=3'):
        for c in amb:
            w = oracle(f, c)
            if w and not C.violations:
                C.violation("under decimal.setcontext(Context(prec=3, rounding=ROUND_UP)): " + w,
                            dict(unit='server_verification_utils', input=dict(challenge=c, ambient='decimal prec=3')), key=f"challenge={c}")
                break
    C.stream('oracle.ambient-decimal-context', len(amb), len(amb), sample=dict(challenge=amb[len(amb) // 2], ambient='decimal prec=3'))
    if tier == 'thorough' and not C.violations:
        bad = exhaustive(C.scratch.src)
        C.stream('oracle.exhaustive', THREE_MAX, THREE_MAX, exhaustive=True, sample=dict(range=[0, THREE_MAX]))
        if bad is not None:
            C.violation(oracle(f, bad), dict(unit='server_verification_utils', input=dict(challenge=bad)), key=f"challenge={bad}")
    # correspondence on a subset
    sub = sorted(set(ins[::max(1, len(ins) // (5000 if tier == 'quick' else 30000))]) | set(range(11091990, 11092130)) | {k for k in ins if k < 3000 and k % 7 == 0})
    cases = [(c, pyexc(f, c)) for c in sub] + [(c, pyexc(f, c)) for c in (-1, -2, -12, THREE_MAX, THREE_MAX + 5, 2 ** 40)]
    term = lambda c: f"({cz(c[0])}, {cres(c[1], cz)})"
    specs = [dict(label='M.server_verification_hash', ty='Z * res Z', cases=cases, term=term,
                  chk="fun c => res_eqb Z.eqb (Ok (EO.Model.Hash.server_verification_hash (fst c))) (snd c)")]
    imports = "Require EO.Model.Hash.\n"
    if C.has_gen('G_server_verification_utils', 'server_verification_hash'):
        imports += "Require EO.Gen.G_server_verification_utils.\n"
        specs.append(dict(label='G.server_verification_hash', ty='Z * res Z', cases=cases, term=term,
                          chk="fun c => res_eqb Z.eqb (Ok (EO.Gen.G_server_verification_utils.server_verification_hash (fst c))) (snd c)"))
    # the helper itself, incl. exact negative multiples
    if hasattr(mod, '_mod'):
        mc = []
        for a in list(range(-40, 41)) + [-119 * 7, -1309, -2618, -2004, 11092004 - 11092480, rng.randrange(-10 ** 7, 10 ** 7)]:
            for b in (1, 2, 9, 11, 119, 1309, 2004):
                mc.append(((a, b), pyexc(mod._mod, a, b)))
        specs.append(dict(label='M.u_mod', ty='(Z * Z) * res Z', cases=mc, term=lambda c: f"(({cz(c[0][0])}, {cz(c[0][1])}), {cres(c[1], cz)})",
                          chk="fun c => res_eqb Z.eqb (Ok (EO.Model.Hash.u_mod (fst (fst c)) (snd (fst c)))) (snd c)"))
    corr_streams(C, 'c11', specs, imports)

    def search():
        bad = exhaustive(C.scratch.src)
        C.stream('search.exhaustive', THREE_MAX, THREE_MAX, exhaustive=True)
        if bad is not None:
            C.violation(oracle(f, bad), dict(unit='server_verification_utils', input=dict(challenge=bad)), key=f"challenge={bad}")
    return C.finish(search=search)


def replay(path):
    import json
    r = json.load(open(path))
    inp = r.get('input')
    if not inp:
        return replay_broken(r, 'C11')
    s = Scratch()
    mod = load_leaf(s.src, 'eolib.encrypt.server_verification_utils')
    with ambient(inp.get('ambient')):
        w = oracle(mod.server_verification_hash, inp['challenge'])
    print("replay:", w or "property holds on this input")
    return 1 if w else 0
