"""C03 - Generated deserializers obey the spec on truncated or hostile bytes."""
from vlib import *
from genharness import *
from gencheck import *


def f4_tree():
    """F4: implied-length, non-delimited array of a struct that opens with <chunked>, in a non-chunked parent."""
    t = empty_tree()
    t['']['structs'] += [{'name': 'Elem', 'body': [CH(F('a', 'char'), F('s', 'string', length='1'))]},
                         {'name': 'Holder', 'body': [F('h', 'char'), A('elems', 'Elem')]}]
    return t


def f12_tree():
    """an optional length field and the optional string it measures, in different chunks"""
    t = empty_tree()
    t['']['structs'] += [{'name': 'SplitLen', 'body': [CH(F('id', 'char'), L('t_len', 'char', optional='true'), dict(BR), F('t', 'string', length='t_len', optional='true'))]}]
    return t


def run(tier):
    C = Check('C03', tier)
    C.prove('Properties/C03.v', bridges={'Properties/C03T.v': [], 'Properties/C03W.v': [], 'Model/Recover.v': [], 'Properties/C03R.v': [], 'Properties/C19R.v': []})
    C.cov['tie']['protocol_code_generator + generated code'] = ('correspondence-only: real generator + generated deserializers executed; reference semantics '
                                                               'Model/Elab.v + Model/Deser.v over the reader model R')
    quick = tier == 'quick'
    trees, rng = build_trees(C, 30 if quick else 350)
    runner = GenRunner(C.scratch, workers=8)
    entries = []
    for t in trees:
        vg = ValueGen(t['tree'], rng)
        jobs = []
        for cls, body in classes_of(t['tree']):
            for k in range(3 if quick else 5):
                try:
                    v = vg.obj(cls, body)
                except Exception as ex:
                    C.harness_failure('value-generation', f"{t['name']} {cls}: {type(ex).__name__}: {ex}")
                    continue
                big = t['name'].startswith('mini-eo-core')      # large classes with short/three length fields: hostile counts are slow
                jobs.append(dict(op='ser', cls=cls, value=v, san=False, then_deser=True, mutants=(3 if big else 8) if quick else 14))
            # uniformly random / empty / junk inputs directly
            for data in ([], [0xFF], [0x00], [0xFE] * 3, [rng.randrange(256) for _ in range(rng.randrange(1, 12))], [0xFF, 1, 0xFF, 0xFF, 2]):
                jobs.append(dict(op='deser', cls=cls, data=data, chunked=rng.random() < 0.3))
        entries.append(dict(name=t['name'], tree=t['tree'], jobs=jobs, want_sources=True))
    f4 = dict(name='F4-shape', tree=f4_tree(), want_sources=True, jobs=[dict(op='deser', cls='Holder', data=[2, 0xFF, 1], chunked=False),
                                                     dict(op='deser', cls='Holder', data=[2, 3, 4, 5], chunked=False)])
    f12 = dict(name='F12-shape', tree=f12_tree(), want_sources=True, jobs=[dict(op='deser', cls='SplitLen', data=[2, 0xFF, 65, 66], chunked=False),
                                                       dict(op='deser', cls='SplitLen', data=[2, 3, 0xFF, 65, 66], chunked=False)])
    run_entries(C, runner, entries + [f4, f12])
    recover_stream(C, entries + [f4, f12], 'c03')
    render_stream(C, entries + [f4, f12], 'c03')
    C.cov['tie']['generated deserialize methods (semantics)'] = ('way 1 for generated code: tools/py2stmt.py parses every generated deserialize method from the SOURCE TEXT (generic, fail-closed) into the statement language of Model/PyStmtR.v; '
                                                                'Model/RenderCheckD.v decides per tree that the statements equal render_deserialize (elab tree); Properties/C03R.v proves that running them is Model/Deser.v '
                                                                '(every reader state, result incl. byte_size, error kind, fuel) up to the whole call tree = deser_struct')
    C.cov['tie']['generated classes (structure)'] = ('translation validation: tools/gen2instr.py recovers the instruction lists of every generated serialize / deserialize / __init__ from the SOURCE TEXT (fail-closed) and Model/Recover.v compares them with elab of the same tree (vm_compute): the theorems about the elaborated instruction lists apply to the code as emitted, for all objects and bytes')
    # ---- which classes does the termination theorem (C03_terminates_core) cover?  decided in Coq per tree
    prog = {}
    try:
        fn = os.path.join(CASES, 'c03p.v')
        os.makedirs(os.path.dirname(fn), exist_ok=True)
        acc = [e for e in entries + [f4, f12] if e['result'].get('accepted')]
        with open(fn, 'w') as f:
            f.write("From EO Require Import Prelude.Py Model.Spec Model.Elab Model.GenHarnessB Model.NonDegen.\nOpen Scope string_scope.\nOpen Scope list_scope.\n")
            for k, e in enumerate(acc):
                f.write(f"Definition t{k} : list rfile := {coq_tree(e['tree'])}.\nEval vm_compute in (tree_domain t{k}, tree_progress t{k}).\n")
        rc, out = sh(['bash', '-c', f'ulimit -s unlimited 2>/dev/null; exec timeout 600 coqc -Q {COQ} EO -w -all {fn}'], cwd=COQ, timeout=700)
        chunks = re.split(r'\n\s*=\s*', '\n' + out)[1:]
        if rc == 0 and len(chunks) == len(acc):
            for e, ch in zip(acc, chunks):
                m = re.match(r'\(\s*Some\s*\((true|false),\s*(true|false),\s*(true|false),\s*(true|false)\)', ch)
                e['domain'] = tuple(x == 'true' for x in m.groups()) if m else None
                for n, a, b in re.findall(r'\("([^"]*)",\s*(true|false),\s*(true|false)\)', ch):
                    prog[(id(e), n)] = (a == 'true', b == 'true')
        else:
            C.broken.append(dict(kind='correspondence', stream='progress', msg=out[-500:]))
    except Exception as ex:
        C.broken.append(dict(kind='correspondence', stream='progress', msg=str(ex)[-300:]))
    # C03_accepted_wf: on every accepted tree inside its hypotheses wf_pkg must evaluate to true (it is a theorem; a false here means the
    # evaluated model and the proved model differ); outside them the tree is counted, by the hypothesis that fails
    dom = [e.get('domain') for e in acc] if 'acc' in dir() else []
    C.cov['acceptance_implies_wf_theorem'] = dict(accepted_trees=len(dom), in_domain=sum(1 for d in dom if d and all(d[:3])),
                                                  degenerate=sum(1 for d in dom if d and not d[0]), recursive=sum(1 for d in dom if d and not d[1]),
                                                  optional_length_referenced=sum(1 for d in dom if d and not d[2]),
                                                  wf=sum(1 for d in dom if d and d[3]))
    for e in (acc if 'acc' in dir() else []):
        d = e.get('domain')
        if d is None or (all(d[:3]) and not d[3]):
            C.broken.append(dict(kind='correspondence', stream='domain', msg=f"tree {e['name']}: tree_domain = {d}"))
    names = {id(e): e['name'] for e in acc} if 'acc' in dir() else {}
    C.cov['termination_theorem_applies'] = dict(classes=len(prog), covered_nonchunked=sum(1 for v in prog.values() if v[0]), covered_chunked=sum(1 for v in prog.values() if v[1]),
                                                not_covered=sorted(f"{names.get(k[0], '?')}:{k[1]} (non-chunked entry: {v[0]}, chunked entry: {v[1]})" for k, v in prog.items() if not (v[0] and v[1]))[:20])
    # ---- property oracle on the implementation: terminates, only the documented ValueError, position inside the data
    ndeser = nerr = ntrunc = 0
    kinds = {}
    for e in entries + [f4, f12]:
        r = e['result']
        outs = []
        for job, out in zip(e.get('jobs', []), r.get('results', [])):
            if job['op'] == 'deser' and 'res' in out:
                outs.append((job['cls'], out, None))
            for d in out.get('deser', []):
                outs.append((job['cls'], d, out.get('bytes')))
        for cls, d, full in outs:
            ndeser += 1
            res = d['res']
            if full is not None and len(d['data']) < len(full) and d['data'] == full[:len(d['data'])]:
                ntrunc += 1
            if res[0] == 'err':
                nerr += 1
                kinds[res[1]] = kinds.get(res[1], 0) + 1
            bad = None
            if res[0] == 'err' and res[1] == 'EFuel':
                bad = f"{cls}.deserialize did not return within the time limit on bytes {d['data']}"
            elif res[0] == 'err' and res[1] != 'EValue':
                bad = f"{cls}.deserialize raised {res[1]} ({res[2] if len(res) > 2 else ''}) on bytes {d['data']}; only the negative-length ValueError is allowed"
            elif res[0] == 'err' and 'egative' not in (res[2] if len(res) > 2 else 'negative'):
                bad = f"{cls}.deserialize raised ValueError({res[2]}) on bytes {d['data']}, not the documented negative-length error"
            elif not (0 <= d['pos'] <= len(d['data'])):
                bad = f"{cls}.deserialize left the reader at position {d['pos']} outside the {len(d['data'])} supplied bytes"
            if bad:
                # a hang on a class OUTSIDE the termination theorem's domain (progress_okT = false) is the known shape F4;
                # a hang on a class the theorem covers would contradict it and is reported as a new violation
                covered = prog.get((id(e), cls), (True, True))[1 if d['chunked'] else 0]
                key = 'F4-chunked-element-in-unchunked-implied-length-array' if 'time limit' in bad and (e is f4 or not covered) else None
                if e is f12 and 'EType' in bad:
                    key = 'F12-optional-length-field-absent-but-its-string-present'
                C.violation(f"tree '{e['name']}': " + bad, dict(unit='generated deserialize', input=dict(tree=e['name'], xml=tree_xml(e['tree']), cls=cls, data=d['data'], chunked=d['chunked'])), key=key)
    C.stream('oracle.deserialize', ndeser, ndeser - 0, sample=dict(tree=entries[0]['name']))
    C.cov['distribution'] = dict(deserialize_calls=ndeser, truncated_valid_serializations=ntrunc, raised=nerr, exception_kinds=kinds)
    mism = compare_entries(C, 'c03', entries + [f4, f12], 'deserialize', want=('deser',), max_cases_per_tree=300 if quick else 500)
    # direct deser jobs are not paired with a ser job: compare them too
    extra = []
    for e in entries + [f4, f12]:
        cases = [deser_case(job['cls'], out) for job, out in zip(e['jobs'], e['result'].get('results', [])) if job['op'] == 'deser' and 'res' in out and not out.get('heavy')]
        if cases and e['result'].get('accepted'):
            extra.append((e, cases))
    if extra:
        try:
            fl = run_tree_cases('c03d', [(e['tree'], True, cases) for e, cases in extra])
            for (e, cases), f in zip(extra, fl):
                for i in f[:2]:
                    if i >= 0:
                        jobs = [j for j, o in zip(e['jobs'], e['result']['results']) if j['op'] == 'deser' and 'res' in o and not o.get('heavy')]
                        outs = [o for j, o in zip(e['jobs'], e['result']['results']) if j['op'] == 'deser' and 'res' in o and not o.get('heavy')]
                        mism.append(dict(kind='deser', entry=e, case=dict(kind='deser', cls=jobs[i]['cls'], out=outs[i]), term=cases[i]))
            C.stream('corr.deserialize-direct', sum(len(c) for _, c in extra), sum(len(c) for _, c in extra))
        except CoqCaseError as ex:
            C.broken.append(dict(kind='correspondence', stream='deserialize-direct', msg=str(ex)[-600:]))
    for m in mism[:3]:
        report_mismatch(C, m, "reading rules")
    for m in mism:
        C.disagreement('deserialize', dict(tree=m['entry']['name'], kind=m['kind']))
    return C.finish()


def replay(path):
    return gen_replay(path)
