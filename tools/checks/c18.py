"""C18 - Generation is deterministic and always yields an importable package."""
import concurrent.futures
import json
from vlib import *
from genharness import *
from gencheck import *
from checks.c20 import declared, snake

VARIANTS = [('hashseed-0', '0', 'normal'), ('hashseed-1', '1', 'normal'), ('hashseed-2', '2', 'normal'), ('hashseed-random', 'random', 'normal'),
            ('walk-reversed', '0', 'reversed'), ('walk-shuffled-a', '3', 'shuffle:1'), ('walk-shuffled-b', '7', 'shuffle:2'), ('walk-shuffled-c', '11', 'shuffle:3')]


def read_tree(d):
    out = {}
    for dp, _, fs in os.walk(d):
        for f in fs:
            if f.endswith('.pyc'):
                continue
            p = os.path.join(dp, f)
            out[os.path.relpath(p, d)] = open(p, encoding='utf-8', errors='replace').read()
    return out


def write_xml(tree, d, order=None):
    items = list(tree_xml(tree).items())
    if order == 'reversed':
        items.reverse()
    for path, text in items:
        dd = os.path.join(d, path)
        os.makedirs(dd, exist_ok=True)
        with open(os.path.join(dd, 'protocol.xml'), 'w', encoding='utf-8') as f:
            f.write(text)


def gen(root, xml, out, hashseed, walk, reuse='', extra_env=None):
    env = dict(os.environ, PYTHONPATH=root, PYTHONHASHSEED=hashseed, PYTHONDONTWRITEBYTECODE='1', VERIF_REUSE=reuse)
    env.update(extra_env or {})
    p = subprocess.run([PY, os.path.join(VERIF, 'tools', 'gen_variants.py'), root, xml, out, walk], env=env, capture_output=True, text=True, timeout=300)
    return (p.stdout.strip().split('\n') or ['?'])[-1]


def one_tree(args):
    k, name, tree, root, work, other = args
    base = os.path.join(work, f"t{k}")
    xml = os.path.join(base, 'xml')
    write_xml(tree, xml)
    res = dict(name=name, problems=[], runs=0)
    outs = {}
    for vname, hs, walk in VARIANTS:
        o = os.path.join(base, 'out-' + vname)
        st = gen(root, xml, o, hs, walk)
        res['runs'] += 1
        if st != 'GENERATED':
            if name.startswith('random') and vname == VARIANTS[0][0]:
                # the random tree generator is only approximately valid: a tree the generator rejects is not a C18 input;
                # the reference elaboration must reject it as well (checked below)
                res['rejected'] = st
                shutil.rmtree(base, ignore_errors=True)
                return res
            res['problems'].append(f"variant {vname}: generator did not succeed: {st}")
            continue
        outs[vname] = read_tree(o)
    # one generator object used repeatedly: twice in a row, and again after a run that failed on a (then repaired) file
    for rname, reuse in (('same-object-twice', 'twice'), ('same-object-after-failed-run', 'after-failure')):
        o = os.path.join(base, 'out-' + rname)
        st = gen(root, xml, o, '6', 'normal', reuse)
        res['runs'] += 1
        if st != 'GENERATED':
            res['problems'].append(f"variant {rname}: generator did not succeed: {st}")
        else:
            outs[rname] = read_tree(o)
    # a process whose locale is not UTF-8 (LC_ALL=C, UTF-8 mode off): the files are the same bytes
    o = os.path.join(base, 'out-c-locale')
    st = gen(root, xml, o, '0', 'normal', extra_env=dict(LC_ALL='C', LANG='C', PYTHONUTF8='0', PYTHONCOERCECLOCALE='0', PYTHONIOENCODING='utf-8'))
    res['runs'] += 1
    if st != 'GENERATED':
        res['problems'].append(f"variant c-locale (LC_ALL=C, PYTHONUTF8=0): generator did not succeed: {st}")
    else:
        outs['c-locale'] = read_tree(o)
    # XML files created on disk in another order
    xml2 = os.path.join(base, 'xml-rev')
    write_xml(tree, xml2, 'reversed')
    o = os.path.join(base, 'out-created-reversed')
    st = gen(root, xml2, o, '5', 'normal')
    if st == 'GENERATED':
        outs['created-reversed'] = read_tree(o)
    else:
        res['problems'].append(f"variant created-reversed: generator did not succeed: {st}")
    res['runs'] += 1
    # an output directory none of whose parents exists yet
    o = os.path.join(base, 'fresh', 'nested', 'deeper', '_generated')
    st = gen(root, xml, o, '2', 'normal')
    if st == 'GENERATED':
        outs['fresh-nested-output-directory'] = read_tree(o)
    else:
        res['problems'].append(f"variant fresh-nested-output-directory (parents of the output directory do not exist): generator did not succeed: {st}")
    res['runs'] += 1
    # second run into the same output directory; run into a directory pre-populated by a different tree
    o = os.path.join(base, 'out-hashseed-0')
    st = gen(root, xml, o, '9', 'shuffle:5')
    if st == 'GENERATED':
        outs['second-run-same-dir'] = read_tree(o)
    else:
        res['problems'].append(f"variant second-run-same-dir: generator did not succeed: {st}")
    res['runs'] += 1
    if other is not None:
        oxml = os.path.join(base, 'xml-other')
        write_xml(other, oxml)
        o = os.path.join(base, 'out-prepopulated')
        st0 = gen(root, oxml, o, '0', 'normal')
        st = gen(root, xml, o, '4', 'reversed')
        if st != 'GENERATED':
            res['problems'].append(f"variant pre-populated (directory filled by another tree: {st0}): generator did not succeed: {st}")
        else:
            pre = read_tree(o)
            ref = outs.get('hashseed-0', {})
            outs['pre-populated'] = {k_: v for k_, v in pre.items() if k_ in ref}
            if set(ref) - set(pre):
                res['problems'].append(f"pre-populated output directory: files missing {sorted(set(ref) - set(pre))[:3]}")
        res['runs'] += 1
    # the project's own entry point: `python protocol.py generate` cleans src/eolib/protocol/_generated (here holding another tree's output
    # and a stray file) and generates from eo-protocol/xml; `python protocol.py clean` removes the directory
    if os.path.exists(os.path.join(root, 'protocol.py')):
        proj = os.path.join(base, 'proj')
        write_xml(tree, os.path.join(proj, 'eo-protocol', 'xml'))
        shutil.copy2(os.path.join(root, 'protocol.py'), os.path.join(proj, 'protocol.py'))
        gdir = os.path.join(proj, 'src', 'eolib', 'protocol', '_generated')
        if other is not None and os.path.isdir(os.path.join(base, 'out-prepopulated')):
            shutil.copytree(os.path.join(base, 'out-prepopulated'), gdir)
        os.makedirs(os.path.join(gdir, 'stale_dir'), exist_ok=True)
        open(os.path.join(gdir, 'stale_dir', 'left_over.py'), 'w').write('raise RuntimeError("stale")\n')
        env = dict(os.environ, PYTHONPATH=root, PYTHONHASHSEED='8', PYTHONDONTWRITEBYTECODE='1')
        p = subprocess.run([PY, 'protocol.py', 'generate'], cwd=proj, env=env, capture_output=True, text=True, timeout=300)
        res['runs'] += 1
        if p.returncode != 0:
            res['problems'].append(f"`protocol.py generate` failed: {(p.stderr or p.stdout)[-300:]}")
        else:
            outs['protocol.py-generate'] = read_tree(gdir)
            p = subprocess.run([PY, 'protocol.py', 'clean'], cwd=proj, env=env, capture_output=True, text=True, timeout=300)
            if p.returncode != 0 or os.path.exists(gdir):
                res['problems'].append(f"`protocol.py clean` left {gdir} behind ({(p.stderr or '')[-200:]})")
    ref = outs.get('hashseed-0')
    if ref is not None:
        for vname, files in outs.items():
            if files != ref:
                diff = sorted(set(files) ^ set(ref)) or [p for p in sorted(ref) if files.get(p) != ref.get(p)]
                res['problems'].append(f"output differs between hashseed-0 and {vname}: {diff[:3]}")
        res['files'] = sorted(ref)
        res['init_lines'] = {p: [l for l in t.split('\n') if l.startswith('from ')] for p, t in ref.items() if p.endswith('__init__.py')}
        # importable and complete: every declared type is a class exported from its documented subpackage and from eolib
        src = os.path.join(base, 'pkg', 'src')
        shutil.copytree(os.path.join(root, 'src'), src)
        shutil.copytree(os.path.join(base, 'out-hashseed-1'), os.path.join(src, 'eolib', 'protocol', '_generated'))
        dp = os.path.join(base, 'declared.json')
        json.dump(declared(tree), open(dp, 'w'))
        p = subprocess.run([PY, os.path.join(VERIF, 'tools', 'ns_probe.py'), os.path.join(base, 'pkg'), 'eolib', dp], capture_output=True, text=True, timeout=120,
                           env=dict(os.environ, PYTHONPATH=src, PYTHONDONTWRITEBYTECODE='1'))
        try:
            pr = json.loads(p.stdout.strip().split('\n')[-1])
            for e in pr['errors']:
                res['problems'].append(f"generated package is not importable: {e}")
            for m in [m for m in pr['name_mismatches'] if 'eolib.protocol._generated' in m.get('defined_in', '')][:2]:
                if True:
                    res['problems'].append(f"declared type {m['name']} is not exported as a class from {m.get('looked_up_in', m['defined_in'])}: {m.get('got', m.get('why'))}")
        except Exception:
            res['problems'].append(f"import probe failed: {(p.stderr or p.stdout)[-300:]}")
    shutil.rmtree(base, ignore_errors=True)
    return res


def stale_trees():
    a, b = empty_tree(), empty_tree()
    for t, nm in ((a, 'Apple'), (b, 'Grape')):
        t['']['structs'] += [{'name': 'Keeps', 'body': [F('k', 'char')]}]
        t['pub']['structs'] += [{'name': nm, 'body': [F('a', 'char')]}]
    return a, b


def stale_bytecode_scenario(root, work, first, second):
    """A build that pins SOURCE_DATE_EPOCH (reproducible-build environments do) regenerates over an output directory that has been imported
    before (its __pycache__ directories are there) from a specification in which a type was renamed to a name of the same length: the
    package imported afterwards must be the one just generated.  -> list of problems"""
    base = os.path.join(work, 'stale')
    src = os.path.join(base, 'pkg', 'src')
    shutil.copytree(os.path.join(root, 'src'), src, ignore=shutil.ignore_patterns('__pycache__', '*.pyc'))
    gdir = os.path.join(src, 'eolib', 'protocol', '_generated')
    env = {k_: v for k_, v in os.environ.items() if k_ != 'PYTHONDONTWRITEBYTECODE'}
    env.update(PYTHONPATH=src, SOURCE_DATE_EPOCH='1700000000')
    problems = []
    for nm, tree in (('first', first), ('second', second)):
        xml = os.path.join(base, 'xml-' + nm)
        write_xml(tree, xml)
        if os.path.isdir(gdir):
            # compiled files are matched to their source by size and whole-second modification time (a Python limitation): let the clock pass
            # the second in which the first generation wrote its files
            newest = max(os.stat(os.path.join(dp, f)).st_mtime for dp, _, fs in os.walk(gdir) for f in fs if f.endswith('.py'))
            while int(time.time()) <= int(newest):
                time.sleep(0.05)
        st = gen(root, xml, gdir, '0', 'normal', extra_env=dict(SOURCE_DATE_EPOCH='1700000000'))
        if st != 'GENERATED':
            problems.append(f"{nm} generation with SOURCE_DATE_EPOCH set: generator did not succeed: {st}")
            break
        dp_ = os.path.join(base, f'declared-{nm}.json')
        json.dump(declared(tree), open(dp_, 'w'))
        p = subprocess.run([PY, os.path.join(VERIF, 'tools', 'ns_probe.py'), os.path.join(base, 'pkg'), 'eolib', dp_], capture_output=True, text=True, timeout=120, env=env)
        try:
            pr = json.loads(p.stdout.strip().split('\n')[-1])
            for e in pr['errors']:
                problems.append(f"after the {nm} generation (SOURCE_DATE_EPOCH set, output directory imported before) the package is not importable: {e}")
            for m in [m for m in pr['name_mismatches'] if 'eolib.protocol._generated' in m.get('defined_in', '')][:2]:
                problems.append(f"after the {nm} generation (SOURCE_DATE_EPOCH set, output directory imported before) declared type {m['name']} is not exported "
                                f"as a class from {m.get('looked_up_in', m['defined_in'])}: {m.get('got', m.get('why'))}")
        except Exception:
            problems.append(f"import probe failed: {(p.stderr or p.stdout)[-300:]}")
        if problems:
            break
    shutil.rmtree(base, ignore_errors=True)
    return problems


def run(tier):
    C = Check('C18', tier)
    C.prove('Properties/C18.v')
    C.cov['tie']['protocol_code_generator (file layout, import rendering)'] = ('correspondence-only: the REAL generator is run 11 times per tree (hash seeds, patched os.walk orders, creation order, '
                                                                              're-run, pre-populated directory) and the package imported; Model/GenPkg.v predicts the file set and every __init__')
    quick = tier == 'quick'
    trees, rng = build_trees(C, 8 if quick else 100)
    # a type whose module name equals a sibling directory of the generated package (known finding)
    coll = empty_tree()
    coll['']['structs'] += [{'name': 'Net', 'body': [F('a', 'char')]}, {'name': 'Holder', 'body': [F('n', 'Net')]}]
    trees.append(dict(name='dir-name-collision', tree=coll))
    # a type of a parent directory referencing a type of a child directory that (as net/client packets do) references the parent
    # directory back: the generated packages import each other while initialising (known finding)
    cyc = empty_tree()
    cyc['net/client']['structs'] += [{'name': 'Inner', 'body': [F('a', 'char')]}]
    cyc['net']['structs'] += [{'name': 'Outer', 'body': [F('i', 'Inner')]}]
    cyc['net/client']['packets'] += [{'family': 'Init', 'action': 'Init', 'body': [F('h', 'Outer')]}]
    trees.append(dict(name='dir-import-cycle', tree=cyc))
    root = C.scratch.dir
    work = os.path.join(root, 'c18')
    os.makedirs(work)
    jobs = [(k, t['name'], t['tree'], root, work, trees[(k + 1) % len(trees)]['tree']) for k, t in enumerate(trees)]
    with concurrent.futures.ThreadPoolExecutor(max_workers=8) as ex:
        results = list(ex.map(one_tree, jobs))
    runs = 0
    cases = []
    for t, r in zip(trees, results):
        runs += r['runs']
        for p in r['problems'][:1]:
            key = 'type-module-shadowed-by-sibling-directory' if r['name'] == 'dir-name-collision' and ('not importable' in p or 'not exported' in p) else None
            if r['name'] == 'dir-import-cycle' and ('not importable' in p or 'not exported' in p):
                key = 'import-cycle-between-parent-and-child-directory'
            C.violation(f"tree '{r['name']}': {p}", dict(unit='protocol_code_generator', input=dict(tree=r['name'], xml=tree_xml(t['tree']))), key=key)
        if 'files' in r:
            cases.append((t['tree'], r['files'], r['init_lines']))
    sa, sb = stale_trees()
    for p in stale_bytecode_scenario(root, work, sa, sb)[:1]:
        C.violation(f"regeneration over an imported output directory: {p}",
                    dict(unit='protocol_code_generator', input=dict(tree='stale-bytecode', scenario='stale-bytecode', xml_first=tree_xml(sa), xml=tree_xml(sb))))
    runs += 2
    rejected = [(t, r) for t, r in zip(trees, results) if r.get('rejected')]
    if rejected:
        try:
            fl = run_tree_cases('c18r', [(t['tree'], False, []) for t, r in rejected])
            for (t, r), f in zip(rejected, fl):
                if f:
                    C.violation(f"tree '{r['name']}' is valid for the reference elaboration but the generator fails on it: {r['rejected']}",
                                dict(unit='protocol_code_generator', input=dict(tree=r['name'], xml=tree_xml(t['tree']))))
        except CoqCaseError as ex:
            C.broken.append(dict(kind='correspondence', stream='rejected-trees', msg=str(ex)[-500:]))
    C.cov['random_trees_rejected_by_generator_and_model'] = [r['name'] for t, r in rejected]
    C.stream('oracle.determinism', runs, runs, sample=dict(tree=trees[0]['name'], variants=[v[0] for v in VARIANTS] + ['same-object-twice', 'same-object-after-failed-run', 'c-locale', 'created-reversed', 'second-run-same-dir', 'pre-populated', 'protocol.py generate / clean']))
    C.cov['distribution'] = dict(trees=len(trees), generator_runs=runs)
    # ---- correspondence with Model/GenPkg.v: file set and __init__ star-imports
    fn = os.path.join(CASES, 'c18.v')
    os.makedirs(os.path.dirname(fn), exist_ok=True)
    with open(fn, 'w') as f:
        f.write("From EO Require Import Prelude.Py Prelude.Corr Model.Spec Model.Elab Model.GenPkg.\nOpen Scope string_scope.\nOpen Scope list_scope.\n")
        f.write("Definition strs_eqb (a b : list string) : bool := (fix go a b := match a, b with [], [] => true | x :: s, y :: t => String.eqb x y && go s t | _, _ => false end) a b.\n")
        for k, (tree, files, inits) in enumerate(cases):
            il = sorted(inits.items())
            f.write(f"Definition t{k} : list rfile := {coq_tree(tree)}.\n")
            f.write(f"Eval vm_compute in (valid_layout t{k} && strs_eqb (sort_desc (all_paths t{k})) (sort_desc {clist(files, cs)}) && "
                    f"forallb (fun pl => match fs_get (generate t{k} []) (fst pl) with Some (CInit ls) => strs_eqb ls (snd pl) | _ => false end) "
                    f"{clist(il, lambda pl: f'({cs(pl[0])}, {clist(pl[1], cs)})')}).\n")
    rc, out = sh(['bash', '-c', f'ulimit -s unlimited 2>/dev/null; exec timeout 600 coqc -Q {COQ} EO -w -all {fn}'], cwd=COQ, timeout=700)
    verdicts = re.findall(r'=\s*(true|false)\s*\n\s*:\s*bool', out)
    if rc != 0 or len(verdicts) != len(cases):
        C.broken.append(dict(kind='correspondence', stream='layout-model', msg=out[-600:]))
    else:
        for (tree, files, inits), v in zip(cases, verdicts):
            if v != 'true':
                C.disagreement('layout-model', dict(files=files[:8]), impl=dict(inits=inits))
        C.stream('corr.layout-model', len(cases), len(cases), sample=dict(files=cases[0][1][:6]) if cases else None)
        C.cov['traces_validated_against_impl'] += len(cases)
    # ---- snake case: exhaustive short strings over a small alphabet + the names used
    nu = load_generator_module(C, 'protocol_code_generator.util.name_utils')
    import itertools
    names = [''.join(t) for L in range(0, 6) for t in itertools.product('ABab1', repeat=L)] + ['PacketFamily', 'NPCMapInfo', 'InitInitServerPacket', 'EIFRecord', 'HTTPServer2Go', 'aB', 'ABc']
    sc = [(n, nu.pascal_case_to_snake_case(n)) for n in names]
    corr_streams(C, 'c18s', [dict(label='M.snake', ty='string * string', cases=sc, term=lambda c: f"({cs(c[0])}, {cs(c[1])})", chk="fun c => String.eqb (snake (fst c)) (snd c)")],
                 "From EO Require Import Model.Spec Model.GenPkg.\nOpen Scope string_scope.\n")
    return C.finish()


def load_generator_module(C, name):
    import importlib
    sys.path.insert(0, C.scratch.dir)
    for k in [k for k in sys.modules if k.startswith('protocol_code_generator')]:
        del sys.modules[k]
    return importlib.import_module(name)


def replay(path):
    """regenerates the recorded tree in all variants (hash seeds, walk orders, object reuse, pre-populated directory, protocol.py) and imports it"""
    r = json.load(open(path))
    inp = r.get('input')
    if not isinstance(inp, dict) or 'xml' not in inp:
        return replay_broken(r, 'C18')
    S = Scratch()
    work = os.path.join(S.dir, 'c18')
    os.makedirs(work)
    if inp.get('scenario') == 'stale-bytecode':
        probs = stale_bytecode_scenario(S.dir, work, xml_to_tree(inp['xml_first']), xml_to_tree(inp['xml']))
        print("replay:", probs[0] if probs else "property holds on this input")
        return 1 if probs else 0
    tree = xml_to_tree(inp['xml'])
    res = one_tree((0, inp.get('tree', 'replayed'), tree, S.dir, work, empty_tree()))
    probs = res.get('problems', []) + ([f"the generator rejects the tree: {res['rejected']}"] if res.get('rejected') else [])
    known = {'dir-name-collision', 'dir-import-cycle'}
    print("replay:", probs[0] if probs else "property holds on this input")
    return 1 if probs else 0
