"""C12 - Generated sequence starts are always transmittable and reconstructible."""
import os
from vlib import *


class Source:
    """Scripted replacement of random.randrange: k-th call returns lo + sel_k(width) (clipped into the range);
    empty range -> ValueError as CPython does.  Records the draws actually returned."""

    def __init__(self, sels):
        self.sels = list(sels)
        self.draws = []
        self.requests = []

    def __call__(self, a, b=None, *rest):
        if b is None:
            a, b = 0, a
        self.requests.append((a, b))
        if a >= b:
            raise ValueError("empty range for randrange()")
        sel = self.sels.pop(0) if self.sels else 0
        w = b - a
        r = a + (sel if sel >= 0 else w + sel) % w if not isinstance(sel, float) else a + int(sel * (w - 1))
        self.draws.append(r)
        return r


def outcome(mod, cls, sels):
    src = Source(sels)
    old = mod.random.randrange
    mod.random.randrange = src
    try:
        r = pyexc(cls.generate)
    finally:
        mod.random.randrange = old
    return r, src


def fields(o):
    return tuple(getattr(o, a) for a in ('value', 'seq1', 'seq2') if hasattr(o, a))


def run(tier):
    C = Check('C12', tier)
    C.prove('Properties/C12.v', units=['G_eo_numeric_limits', 'G_sequence_start'],
            bridges={'Bridge/B_seqstart.v': ['G_eo_numeric_limits', 'G_sequence_start']})
    mod = load_leaf(C.scratch.src, 'eolib.packet.sequence_start')
    full = tier == 'thorough'
    cases = {'account': [], 'init': [], 'ping': []}

    def check_outcome(kind, cls, sels, recon, limits):
        r, src = outcome(mod, cls, sels)
        if r[0] != 'ok':
            C.violation(f"{kind}.generate() failed with {r[1]} for draws {src.draws} (requests {src.requests})",
                        dict(unit='sequence_start.' + kind, input=dict(selectors=list(sels), draws=src.draws)))
            cases[kind].append((src.draws, r))
            return None
        f = fields(r[1])
        cases[kind].append((src.draws, ('ok', f)))
        lims = limits
        bad = None
        if not (0 <= f[0] < lims[0]):
            bad = f"value {f[0]} outside its documented range"
        for x, hi in zip(f[1:], lims[1:]):
            if not (0 <= x < hi):
                bad = f"wire component {x} does not fit its field (< {hi})"
        rr = pyexc(recon, *(f[1:] if len(f) > 1 else f))
        if rr[0] != 'ok' or fields(rr[1]) != f:
            bad = f"from-values constructor gives {fields(rr[1]) if rr[0] == 'ok' else rr} instead of {f}"
        if bad and not C.violations:
            C.violation(f"{kind}: outcome {f} for draws {src.draws}: {bad}",
                        dict(unit='sequence_start.' + kind, input=dict(selectors=list(sels), draws=src.draws)))
        return src

    # ACCOUNT_REPLY: all 240 outcomes
    for v in range(240):
        check_outcome('account', mod.AccountReplySequenceStart, [v], mod.AccountReplySequenceStart.from_value, (240,))
    # ... and again with every draw twice in a row, then in descending order: an outcome is a function of its own draws, not of earlier calls
    for v in range(240):
        for _ in range(2):
            check_outcome('account', mod.AccountReplySequenceStart, [v], mod.AccountReplySequenceStart.from_value, (240,))
    for v in range(239, -1, -1):
        check_outcome('account', mod.AccountReplySequenceStart, [v], mod.AccountReplySequenceStart.from_value, (240,))
    for v in (0, 1, 2, 878, 1755, 1756):
        for k in (0, 1, -1):
            for _ in range(2):
                check_outcome('init', mod.InitSequenceStart, [v, k], mod.InitSequenceStart.from_init_values, (1757, 253, 253))
                check_outcome('ping', mod.PingSequenceStart, [v, k], mod.PingSequenceStart.from_ping_values, (1757, 253 ** 2, 253))
    # INIT: every value x (all | edge) second draws
    n_init = 0
    for v in range(1757):
        src = check_outcome('init', mod.InitSequenceStart, [v, 0], mod.InitSequenceStart.from_init_values, (1757, 253, 253))
        n_init += 1
        if src is None or len(src.requests) < 2:
            continue
        a, b = src.requests[1]
        w = b - a
        sel = range(1, w) if full else sorted({1, 2, w // 2, w - 2, w - 1} & set(range(1, w)))
        for k in sel:
            check_outcome('init', mod.InitSequenceStart, [v, k], mod.InitSequenceStart.from_init_values, (1757, 253, 253))
            n_init += 1
    # PING
    vs = range(1757)
    rs = range(252) if full else [0, 1, 2, 125, 126, 127, 249, 250, 251]
    for v in (vs if full else list(range(0, 1757, 3)) + [1, 2, 1755, 1756]):
        for r in rs:
            check_outcome('ping', mod.PingSequenceStart, [v, r], mod.PingSequenceStart.from_ping_values, (1757, 253 ** 2, 253))
    # reconstruction from arbitrary received values (what the peer does): compared with the model
    rec = []
    for a in (0, 1, 2, 36, 217, 252):
        for b in (0, 1, 13, 250, 252):
            ri = pyexc(mod.InitSequenceStart.from_init_values, a, b)
            rp = pyexc(mod.PingSequenceStart.from_ping_values, a, b)
            if ri[0] != 'ok' or rp[0] != 'ok':
                C.disagreement('M.from_values', dict(input=[a, b]), impl=str((ri, rp)))
                continue
            rec.append(((a, b), (fields(ri[1]), fields(rp[1]))))
    for k in cases:
        C.stream('oracle.' + k, len(cases[k]), len({tuple(c[0]) for c in cases[k]}), exhaustive=full or k == 'account',
                 sample=dict(draws=cases[k][len(cases[k]) // 2][0], outcome=str(cases[k][len(cases[k]) // 2][1])))
    # ---- correspondence (E1), sub-sampled in the thorough tier to keep coqc time bounded
    t3 = lambda f: f"({cz(f[0])}, {cz(f[1])}, {cz(f[2])})"
    specs = []
    imports = "Require EO.Model.SeqStart.\n"
    gen = C.has_gen('G_sequence_start', 'InitSequenceStart.generate') and C.has_gen('G_sequence_start', 'PingSequenceStart.generate') \
        and C.has_gen('G_sequence_start', 'AccountReplySequenceStart.generate')
    if gen:
        imports += "Require EO.Gen.G_sequence_start.\n"
    names = dict(account=('account_generate', 'AccountReplySequenceStart_generate'), init=('init_generate', 'InitSequenceStart_generate'),
                 ping=('ping_generate', 'PingSequenceStart_generate'))
    for k in ('account', 'init', 'ping'):
        cs = cases[k]
        cap = 2500 if not full else 12000
        if len(cs) > cap:
            cs = cs[::len(cs) // cap + 1]
        if k == 'account':
            ty, term, eq = 'list Z * res (Z * list Z)', (lambda c: f"({clist(c[0])}, {cres(c[1], lambda f: '(' + cz(f[0]) + ', [])')})"), "pair_eqb Z.eqb list_eqb"
        else:
            ty, term, eq = 'list Z * res ((Z * Z * Z) * list Z)', (lambda c: f"({clist(c[0])}, {cres(c[1], lambda f: '(' + t3(f) + ', [])')})"), \
                "pair_eqb (pair_eqb (pair_eqb Z.eqb Z.eqb) Z.eqb) list_eqb"
        specs.append(dict(label=f"M.{names[k][0]}", ty=ty, cases=cs, term=term, chk=f"fun c => res_eqb ({eq}) (EO.Model.SeqStart.{names[k][0]} (fst c)) (snd c)"))
        if gen:
            specs.append(dict(label=f"G.{names[k][1]}", ty=ty, cases=cs, term=term, chk=f"fun c => res_eqb ({eq}) (EO.Gen.G_sequence_start.{names[k][1]} (fst c)) (snd c)"))
    specs.append(dict(label='M.from_values', ty='(Z * Z) * ((Z * Z * Z) * (Z * Z * Z))', cases=rec,
                      term=lambda c: f"(({cz(c[0][0])}, {cz(c[0][1])}), ({t3(c[1][0])}, {t3(c[1][1])}))",
                      chk="fun c => let eq3 := pair_eqb (pair_eqb Z.eqb Z.eqb) Z.eqb in "
                          "eq3 (EO.Model.SeqStart.init_from_init_values (fst (fst c)) (snd (fst c))) (fst (snd c)) && "
                          "eq3 (EO.Model.SeqStart.ping_from_ping_values (fst (fst c)) (snd (fst c))) (snd (snd c))"))
    corr_streams(C, 'c12', specs, imports)

    def search():
        if not full:
            # full outcome space
            for v in range(1757):
                src = check_outcome('init', mod.InitSequenceStart, [v, 0], mod.InitSequenceStart.from_init_values, (1757, 253, 253))
                if src is None or len(src.requests) < 2:
                    continue
                a, b = src.requests[1]
                for k in range(1, b - a):
                    check_outcome('init', mod.InitSequenceStart, [v, k], mod.InitSequenceStart.from_init_values, (1757, 253, 253))
                for r in range(252):
                    check_outcome('ping', mod.PingSequenceStart, [v, r], mod.PingSequenceStart.from_ping_values, (1757, 253 ** 2, 253))
                if C.violations:
                    return
    C.assumptions.append("random.randrange's contract (a <= r < b; ValueError on an empty range) - the random source is substituted")
    C.assumptions.append("int(x / 7) = truncating quotient: exact for |x| < 2^26 (floats), values here are < 2000")
    return C.finish(search=search)


KINDS = dict(account=('AccountReplySequenceStart', 'from_value', (240,)), init=('InitSequenceStart', 'from_init_values', (1757, 253, 253)),
             ping=('PingSequenceStart', 'from_ping_values', (1757, 253 ** 2, 253)))


def judge(mod, kind, sels):
    """the property oracle for one scripted outcome of <kind>.generate(): None or what is wrong"""
    cn, rn, lims = KINDS[kind]
    cls = getattr(mod, cn)
    r, src = outcome(mod, cls, sels)
    if r[0] != 'ok':
        return f"{kind}.generate() failed with {r[1]} for draws {src.draws} (requests {src.requests})"
    f = fields(r[1])
    bad = None
    if not (0 <= f[0] < lims[0]):
        bad = f"value {f[0]} outside its documented range"
    for x, hi in zip(f[1:], lims[1:]):
        if not (0 <= x < hi):
            bad = f"wire component {x} does not fit its field (< {hi})"
    rr = pyexc(getattr(cls, rn), *(f[1:] if len(f) > 1 else f))
    if rr[0] != 'ok' or fields(rr[1]) != f:
        bad = f"from-values constructor gives {fields(rr[1]) if rr[0] == 'ok' else rr} instead of {f}"
    return f"{kind}: outcome {f} for draws {src.draws}: {bad}" if bad else None


def replay(path):
    import json
    r = json.load(open(path))
    inp = r.get('input')
    if not inp or 'selectors' not in inp:
        return replay_broken(r, 'C12')
    s = Scratch()
    mod = load_leaf(s.src, 'eolib.packet.sequence_start')
    w = judge(mod, r['unit'].split('.')[-1], inp['selectors'])
    print("replay:", w or "property holds on this input")
    return 1 if w else 0
