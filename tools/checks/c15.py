"""C15 - (De)serialization leaves reader and writer modes as it found them."""
from vlib import *
from genharness import *
from gencheck import *


def run(tier):
    C = Check('C15', tier)
    C.prove('Properties/C15.v', bridges={'Model/Recover.v': [], 'Properties/C02R.v': [], 'Properties/C03R.v': []})
    C.cov['tie']['protocol_code_generator + generated code'] = ('correspondence-only: real generator + generated code executed in both entry modes, with validation '
                                                               'errors planted at any depth and writer/reader primitives failing at their k-th call')
    quick = tier == 'quick'
    trees, rng = build_trees(C, 24 if quick else 250)
    runner = GenRunner(C.scratch, workers=8)
    entries = []
    for t in trees:
        R = Resolver(t['tree'])
        vg = ValueGen(t['tree'], rng)
        jobs = []
        for cls, body in all_classes_of(t['tree']):
            for k in range(3 if quick else 5):
                try:
                    # the first value has nothing but y-diaeresis in its strings: which of them a serializer sanitises is visible in the bytes
                    v = vg.obj(cls, body) if k else vg.obj_ff(cls, body)
                    ms = list(obj_mutants(R, vg, cls, body, v)) if k else []
                except Exception as ex:
                    C.harness_failure('value-generation', f"{t['name']} {cls}: {type(ex).__name__}: {ex}")
                    continue
                for san in (False, True):
                    jobs.append(dict(op='ser', cls=cls, value=v, san=san, then_deser=(san is False), mutants=4))
                    # failing writer: its k-th primitive call raises
                    for fa in rng.sample(range(1, 12), 3):
                        jobs.append(dict(op='ser', cls=cls, value=v, san=san, fail_at=fa))
                    # ... and a failure that is not an Exception subclass (cancellation, KeyboardInterrupt): "whether the call returns or raises"
                    jobs.append(dict(op='ser', cls=cls, value=v, san=san, fail_at=rng.randrange(1, 12), fail_base=True))
                for d, m in (rng.sample(ms, 5) if len(ms) > 5 else ms):
                    jobs.append(dict(op='ser', cls=cls, value=m, san=rng.random() < 0.5, mutant=d))
            for data in ([], [0xFF, 0xFF, 1], [rng.randrange(256) for _ in range(rng.randrange(1, 14))], [0x00, 0x00, 0x00, 0xFF, 0x00]):
                for ch in (False, True):
                    jobs.append(dict(op='deser', cls=cls, data=data, chunked=ch))
                    jobs.append(dict(op='deser', cls=cls, data=data, chunked=ch, fail_at=rng.randrange(1, 8)))
                    jobs.append(dict(op='deser', cls=cls, data=data, chunked=ch, fail_at=rng.randrange(1, 8), fail_base=True))
        entries.append(dict(name=t['name'], tree=t['tree'], jobs=jobs, want_sources=True))
    run_entries(C, runner, entries)
    recover_stream(C, entries, 'c15')
    render_stream(C, entries, 'c15')
    C.cov['tie']['generated serialize methods (semantics)'] = ('way 1 for generated code: tools/py2stmt.py parses every generated serialize method from the SOURCE TEXT (generic, fail-closed) into the statement language of Model/PyStmt.v; Model/RenderCheck.v checks inside Coq that it equals render_serialize (elab tree); Properties/C02R.v proves that running those statements IS Model/Ser.v, for all objects and writer states')
    C.cov['tie']['generated classes (structure)'] = ('translation validation: tools/gen2instr.py recovers the instruction lists of every generated serialize / deserialize / __init__ from the SOURCE TEXT (fail-closed) and Model/Recover.v compares them with elab of the same tree (vm_compute): the theorems about the elaborated instruction lists apply to the code as emitted, for all objects and bytes')
    # ---- oracle on the implementation: mode out = mode in, whether the call returned or raised
    n = nraised = ninj = 0
    for e in entries:
        for job, out in zip(e['jobs'], e['result'].get('results', [])):
            obs = []
            if job['op'] == 'ser' and 'res' in out:
                obs.append(('serialize', job['san'], out['mode'], out['res'], dict(value=job['value'], san=job['san'], fail_at=job.get('fail_at'), fail_base=job.get('fail_base'))))
                for d in out.get('deser', []):
                    obs.append(('deserialize', d['chunked'], d['mode'], d['res'], dict(data=d['data'], chunked=d['chunked'])))
            elif job['op'] == 'deser' and 'res' in out:
                obs.append(('deserialize', job['chunked'], out['mode'], out['res'], dict(data=job['data'], chunked=job['chunked'], fail_at=job.get('fail_at'), fail_base=job.get('fail_base'))))
            for which, entry, final, res, inp in obs:
                n += 1
                nraised += res[0] == 'err'
                ninj += res[0] == 'err' and res[1] == 'EInjected'
                if final != entry and not C.violations:
                    C.violation(f"tree '{e['name']}': {job['cls']}.{which} entered with mode {entry} "
                                f"{'raised ' + str(res[1]) if res[0] == 'err' else 'returned'} and left the mode {final}",
                                dict(unit='generated ' + which, input=dict(tree=e['name'], xml=tree_xml(e['tree']), cls=job['cls'], **inp)))
    C.stream('oracle.mode-restored', n, n, sample=dict(tree=entries[0]['name']))
    C.cov['distribution'] = dict(calls=n, raised=nraised, injected_primitive_failures=ninj)
    # ---- correspondence with the reference semantics (final mode is part of every compared observation); injected failures excluded
    for e in entries:
        e['jobs_all'], e['res_all'] = e['jobs'], e['result'].get('results', [])
        keep = [(j, o) for j, o in zip(e['jobs'], e['result'].get('results', [])) if not j.get('fail_at')]
        e['jobs'] = [j for j, _ in keep]
        e['result'] = dict(e['result'], results=[o for _, o in keep])
    mism = compare_entries(C, 'c15', entries, 'modes', want=('ser', 'deser'), max_cases_per_tree=300)
    extra = []
    for e in entries:
        cases = [deser_case(job['cls'], out) for job, out in zip(e['jobs'], e['result'].get('results', [])) if job['op'] == 'deser' and 'res' in out and not out.get('heavy')]
        if cases and e['result'].get('accepted'):
            extra.append((e, cases))
    if extra:
        try:
            fl = run_tree_cases('c15d', [(e['tree'], True, cases) for e, cases in extra])
            for (e, cases), f in zip(extra, fl):
                for i in f[:2]:
                    if i >= 0:
                        jo = [(j, o) for j, o in zip(e['jobs'], e['result']['results']) if j['op'] == 'deser' and 'res' in o and not o.get('heavy')]
                        mism.append(dict(kind='deser', entry=e, case=dict(kind='deser', cls=jo[i][0]['cls'], out=jo[i][1]), term=cases[i]))
            C.stream('corr.deserialize-direct', sum(len(c) for _, c in extra), sum(len(c) for _, c in extra))
        except CoqCaseError as ex:
            C.broken.append(dict(kind='correspondence', stream='deserialize-direct', msg=str(ex)[-600:]))
    for m in mism[:3]:
        report_mismatch(C, m, "mode / outcome")
    for m in mism:
        C.disagreement('modes', dict(tree=m['entry']['name'], kind=m['kind']))
    return C.finish()


def replay(path):
    return gen_replay(path)
