"""C04 - EoWriter output read back by EoReader returns the values written."""
import itertools
from vlib import *
from dataharness import *


def run_items(wmod, rmod, its):
    """write the items with a fresh writer, read them back with a fresh reader -> (write results, bytes, outputs, position, remaining)"""
    w = wmod.EoWriter()
    rs = []
    mid = None
    for k, it in enumerate(its):
        if k == len(its) // 2 and k > 0:
            # a caller takes the output so far and starts reading it while the writer goes on being used
            mid = w.to_bytearray()
            midr = rmod.EoReader(mid)
            snap = list(mid)
        try:
            apply_wop(w, item_wop(it))
            rs.append(('ok', None))
        except Exception as e:
            rs.append(('err', 'EAliased' if isinstance(e, BufferError) else exc_class(e)))
    if mid is not None and (list(mid) != snap or midr.remaining != len(snap)) and rs[-1][0] == 'ok':
        rs[-1] = ('err', 'EAliased')
    data = list(w.to_bytearray())
    r = rmod.EoReader(bytes(data))
    outs = []
    for it in its:
        try:
            o = apply_rop(r, item_rop(it, r))
        except Exception as e:
            o = ('Err', exc_class(e))
        outs.append(o)
    return rs, data, outs, r.position, r.remaining


def oracle(its, res):
    rs, data, outs, pos, rem = res
    for i, (it, r) in enumerate(zip(its, rs)):
        if r[0] != 'ok' and r[1] == 'EAliased':
            return f"items {its}: the output taken by to_bytearray() after item #{len(its) // 2 - 1} shares the writer's buffer (later writes changed it or were blocked by it)"
        if r[0] != 'ok':
            return f"valid item #{i} {it} was rejected by the writer ({r[1]})"
    for i, (it, o) in enumerate(zip(its, outs)):
        if o != item_expected(it):
            return f"items {its}: item #{i} {it} read back as {o}, expected {item_expected(it)}"
    if pos != len(data) or rem != 0:
        return f"items {its}: reader ended at position {pos} (remaining {rem}) of {len(data)} bytes written"
    return None


SAMPLE = {'byte': [0, 255], 'bytes': [[], [0, 255, 254]], 'char': [0, 252], 'short': [253, 64008], 'three': [64009, 16194276],
          'int': [16194277, 4097152080], 'fixed': [[], [65, 0xFF, 0x263A]], 'padded': [([], 2), ([72, 105], 5)],
          'encfixed': [[0x50, 0x4F], [72, 0xFF, 0x20AC]], 'encpadded': [([], 1), ([87, 111], 2)],
          'str': [[], [98, 0x7E, 0xFF]], 'encstr': [[], [0x22, 0x7D, 0x7F]], 'rest': [[], [255, 1]]}


def mk(k, v):
    return (k,) + v if isinstance(v, tuple) else (k, v)


def item_lists(C, tier):
    rng = C.rng
    out = []
    nontrail = ['byte', 'bytes', 'char', 'short', 'three', 'int', 'fixed', 'padded', 'encfixed', 'encpadded']
    allk = nontrail + ['str', 'encstr', 'rest']
    # every pair (and in thorough every triple) of item kinds, two values each
    for a in nontrail:
        for b in allk:
            for va in SAMPLE[a]:
                for vb in SAMPLE[b]:
                    out.append([mk(a, va), mk(b, vb)])
    if tier == 'thorough':
        for a in nontrail:
            for b in nontrail:
                for c in allk:
                    out.append([mk(a, SAMPLE[a][1]), mk(b, SAMPLE[b][0]), mk(c, SAMPLE[c][1])])
    for k in allk:
        for v in SAMPLE[k]:
            out.append([mk(k, v)])
    nb = len(out)
    for _ in range(500 if tier == 'quick' else 6000):
        n = rng.randrange(1, 31 if rng.random() < 0.3 else 8)
        its = [gen_item(rng, False) for _ in range(n - 1)] + [gen_item(rng, True)]
        out.append(its)
    return out, nb


def run(tier):
    C = Check('C04', tier)
    C.prove('Properties/C04.v', units=['G_eo_numeric_limits', 'G_number_encoding_utils', 'G_string_encoding_utils', 'G_eo_reader', 'G_eo_writer'], bridges={'Bridge/B_reader.v': ['G_eo_numeric_limits', 'G_number_encoding_utils', 'G_string_encoding_utils', 'G_eo_reader'], 'Bridge/B_writer.v': ['G_eo_numeric_limits', 'G_number_encoding_utils', 'G_string_encoding_utils', 'G_eo_writer']})
    check_cp1252(C)
    wmod, rmod = load_leaf(C.scratch.src, 'eolib.data.eo_writer', 'eolib.data.eo_reader')
    lists, nb = item_lists(C, tier)
    cases = []
    for its in lists:
        res = run_items(wmod, rmod, its)
        cases.append((its, res))
        if not C.violations:
            w = oracle(its, res)
            if w:
                C.violation(w, dict(unit='eo_writer+eo_reader', input=dict(items=[list(i) for i in its])))
    C.stream('oracle.roundtrip', len(cases), len({repr(c[0]) for c in cases if len(c[0]) > 1}), sample=dict(items=[list(i) for i in lists[nb + 2][:5]]))
    C.cov['distribution'] = dict(item_lists=len(cases), bounded_exhaustive_pairs=nb, items=sum(len(c[0]) for c in cases),
                                 by_kind={k: sum(1 for c in cases for i in c[0] if i[0] == k) for k in SAMPLE})
    term = lambda c: (f"({clist(c[0], citem)}, ({clist(c[1][0], lambda r: '(Ok tt)' if r[0] == 'ok' else f"(Err {'EUnexpected' if r[1] == 'EAliased' else r[1]})")}, "
                      f"{clist(c[1][1])}, {clist(c[1][2], crout)}))")
    specs = [dict(label='M.items_run', ty='list item * (list (res unit) * list Z * list rout)', cases=cases, term=term, chk="items_check",
                  nontrivial=lambda c: len(c[0]) > 1)]
    corr_streams(C, 'c04', specs, "From EO Require Import Model.Writer Model.Reader Model.Items Model.Harness.\n")

    def search():
        rng = random.Random(4242)
        for _ in range(30000):
            its = [gen_item(rng, False) for _ in range(rng.randrange(0, 5))] + [gen_item(rng, True)]
            w = oracle(its, run_items(wmod, rmod, its))
            if w:
                i = 0
                while i < len(its) and len(its) > 1:
                    t = its[:i] + its[i + 1:]
                    if all(x[0] not in ('str', 'encstr', 'rest') for x in t[:-1]) and oracle(t, run_items(wmod, rmod, t)):
                        its = t
                    else:
                        i += 1
                return C.violation(oracle(its, run_items(wmod, rmod, its)), dict(unit='eo_writer+eo_reader', input=dict(items=[list(i) for i in its])))
    return C.finish(search=search)


def replay(path):
    import json
    r = json.load(open(path))
    s = Scratch()
    wmod, rmod = load_leaf(s.src, 'eolib.data.eo_writer', 'eolib.data.eo_reader')
    its = [tuple(i) for i in r['input']['items']]
    w = oracle(its, run_items(wmod, rmod, its))
    print("replay:", w or "property holds on this input")
    return 1 if w else 0
