"""C02 - Generated serializers emit exactly the wire format the XML prescribes."""
from vlib import *
from genharness import *
from gencheck import *


def ser_jobs(tree, rng, per_class, modes=(False,), C=None, name=''):
    vg = ValueGen(tree, rng, free_optionals=True, boundary_lengths=True)
    jobs = []
    for cls, body in classes_of(tree):
        for k in range(per_class):
            try:
                v = vg.obj(cls, body)
            except Exception as ex:
                if C is not None:
                    C.harness_failure('value-generation', f"{name} {cls}: {type(ex).__name__}: {ex}")
                continue
            jobs.append(dict(op='ser', cls=cls, value=v, san=(modes[k % len(modes)])))
    return jobs


def run(tier):
    C = Check('C02', tier)
    C.prove('Properties/C02.v', bridges={'Model/Recover.v': [], 'Properties/C02R.v': [], 'Properties/C19R.v': [], 'Properties/C02S.v': []})
    C.cov['tie']['protocol_code_generator + generated code'] = ('correspondence-only: the real generator is run on every specification tree and the generated '
                                                               'serializers are executed; the reference semantics is Model/Elab.v + Model/Ser.v (deep embedding)')
    quick = tier == 'quick'
    trees, rng = build_trees(C, 36 if quick else 400)
    runner = GenRunner(C.scratch, workers=8)
    per = 6 if quick else 10
    entries = []
    for t in trees:
        jobs = ser_jobs(t['tree'], rng, per, modes=(False, False, True), C=C, name=t['name'])
        for cls, _ in classes_of(t['tree']):
            if cls.endswith('Packet'):
                jobs.append(dict(op='packet', cls=cls))
        entries.append(dict(name=t['name'], tree=t['tree'], jobs=jobs, want_sources=True))
    # the same trees with every boolean attribute's default spelled out: same generated files, same bytes
    variants = [dict(name=e['name'] + '+explicit-defaults', tree=explicit_defaults(e['tree'], rng), jobs=e['jobs'], want_sources=True) for e in entries]
    run_entries(C, runner, entries + variants)
    recover_stream(C, entries + variants, 'c02')
    render_stream(C, entries + variants, 'c02')
    C.cov['tie']['generated serialize methods (semantics)'] = ('way 1 for generated code: tools/py2stmt.py parses every generated serialize method from the SOURCE TEXT (generic, fail-closed) into the statement language of Model/PyStmt.v; Model/RenderCheck.v checks inside Coq that it equals render_serialize (elab tree); Properties/C02R.v proves that running those statements IS Model/Ser.v, for all objects and writer states')
    C.cov['tie']['generated classes (structure)'] = ('translation validation: tools/gen2instr.py recovers the instruction lists of every generated serialize / deserialize / __init__ from the SOURCE TEXT (fail-closed) and Model/Recover.v compares them with elab of the same tree (vm_compute): the theorems about the elaborated instruction lists apply to the code as emitted, for all objects and bytes')
    # ---- accepted? importable? (a valid tree must be accepted and importable)
    for e in entries + variants:
        r = e['result']
        if 'driver_error' in r:
            continue
        if not r.get('accepted') and not C.violations and e in variants:
            base = entries[variants.index(e)]
            if base['result'].get('accepted'):
                C.violation(f"spelling boolean defaults explicitly makes the generator reject tree '{base['name']}': {r.get('error')}",
                            dict(unit='protocol_code_generator', input=dict(tree=e['name'], xml=tree_xml(e['tree']))), key='explicit-defaults')
    # ---- explicit defaults: byte-identical generated sources and identical serializations
    ndef = 0
    for e, v in zip(entries, variants):
        re_, rv = e['result'], v['result']
        if not re_.get('accepted') or not rv.get('accepted') or 'results' not in re_ or 'results' not in rv:
            continue
        ndef += 1
        if C.violations:
            continue
        same_src = True
        if re_.get('sources') is not None and rv.get('sources') is not None:
            same_src = src_digest(re_['sources']) == src_digest(rv['sources'])
        diff = next((k for k, (a, b) in enumerate(zip(re_['results'], rv['results'])) if a != b), None)
        if diff is not None:
            job = e['jobs'][diff]
            C.violation(f"tree '{e['name']}': with boolean defaults spelled explicitly, {job['cls']}.serialize gives {rv['results'][diff]} instead of {re_['results'][diff]}",
                        dict(unit='protocol_code_generator', input=dict(tree=v['name'], xml=tree_xml(v['tree']), cls=job['cls'], value=job.get('value'))), key='explicit-defaults')
        elif not same_src:
            C.violation(f"tree '{e['name']}': spelling boolean defaults explicitly changes the generated source files",
                        dict(unit='protocol_code_generator', input=dict(tree=v['name'], xml=tree_xml(v['tree']))), key='explicit-defaults')
    C.stream('oracle.explicit-defaults', ndef, ndef, sample=dict(tree=entries[0]['name']))
    # ---- packets report their family/action; bytes equal the reference semantics
    items_extra = {}
    for e in entries:
        r = e['result']
        for job, out in zip(e['jobs'], r.get('results', [])):
            if job['op'] == 'packet' and 'family' in out:
                items_extra.setdefault(id(e), []).append(f"GPacket {cs(job['cls'])} {out['family']} {out['action']}")
                if (out['family_type'], out['action_type']) != ('PacketFamily', 'PacketAction') and not C.violations:
                    C.violation(f"{job['cls']}.family()/action() return {out['family_type']}/{out['action_type']}", dict(unit='generated packet', input=dict(tree=e['name'], cls=job['cls'])))
    mism = compare_entries(C, 'c02', entries + variants, 'serialize', want=('ser',))
    # packet identity cases in a second pass (small)
    pk_items = [(e['tree'], True, items_extra[id(e)]) for e in entries if id(e) in items_extra and e['result'].get('accepted')]
    if pk_items:
        try:
            pf = run_tree_cases('c02pk', pk_items)
            for (tree, _, cases), f in zip(pk_items, pf):
                if f and not C.violations:
                    C.violation(f"a packet class does not report the family/action it was declared with: {cases[f[0]] if f[0] >= 0 else cases}",
                                dict(unit='generated packet', input=dict(xml=tree_xml(tree), case=cases[max(f[0], 0)])))
            C.stream('corr.packet-identity', sum(len(i[2]) for i in pk_items), sum(len(i[2]) for i in pk_items), sample=pk_items[0][2][0])
        except CoqCaseError as ex:
            C.broken.append(dict(kind='correspondence', stream='packet-identity', msg=str(ex)[-600:]))
    for m in mism[:3]:
        report_mismatch(C, m, "wire format")
    for m in mism:
        C.disagreement('serialize', dict(tree=m['entry']['name'], kind=m['kind']))
    return C.finish()


def replay(path):
    return gen_replay(path)
