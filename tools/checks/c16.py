"""C16 - Invalid objects are refused, never silently mis-serialized."""
from vlib import *
from genharness import *
from gencheck import *


def run(tier):
    C = Check('C16', tier)
    C.prove('Properties/C16.v', bridges={'Model/Recover.v': [], 'Properties/C02R.v': []})
    C.cov['tie']['protocol_code_generator + generated code'] = 'correspondence-only: real generator + generated serializers on enumerated single-violation mutants; reference Model/Elab.v + Model/Ser.v'
    quick = tier == 'quick'
    trees, rng = build_trees(C, 24 if quick else 250)
    runner = GenRunner(C.scratch, workers=8)
    entries = []
    nm = 0
    kinds = {}
    for t in trees:
        R = Resolver(t['tree'])
        vg = ValueGen(t['tree'], rng, plain_strings=True)
        jobs = []
        for cls, body in classes_of(t['tree']):
            for k in range(2 if quick else 4):
                try:
                    v = vg.obj(cls, body)
                    ms = list(obj_mutants(R, vg, cls, body, v))
                except Exception as ex:
                    C.harness_failure('value-generation', f"{t['name']} {cls}: {type(ex).__name__}: {ex}")
                    continue
                jobs.append(dict(op='ser', cls=cls, value=v, san=False, valid=True))
                if len(ms) > (14 if quick else 40):
                    ms = rng.sample(ms, 14 if quick else 40)
                for d, m in ms:
                    jobs.append(dict(op='ser', cls=cls, value=m, san=False, mutant=d))
                    nm += 1
                    kk = ('None' if '= None' in d else 'case-data' if '_data' in d.split('->')[-1] else 'length' if ('length' in d or 'elements' in d) else 'integer')
                    kinds[kk] = kinds.get(kk, 0) + 1
        entries.append(dict(name=t['name'], tree=t['tree'], jobs=jobs, want_sources=True))
    run_entries(C, runner, entries)
    recover_stream(C, entries, 'c16')
    render_stream(C, entries, 'c16')
    C.cov['tie']['generated serialize methods (semantics)'] = ('way 1 for generated code: tools/py2stmt.py parses every generated serialize method from the SOURCE TEXT (generic, fail-closed) into the statement language of Model/PyStmt.v; Model/RenderCheck.v checks inside Coq that it equals render_serialize (elab tree); Properties/C02R.v proves that running those statements IS Model/Ser.v, for all objects and writer states')
    C.cov['tie']['generated classes (structure)'] = ('translation validation: tools/gen2instr.py recovers the instruction lists of every generated serialize / deserialize / __init__ from the SOURCE TEXT (fail-closed) and Model/Recover.v compares them with elab of the same tree (vm_compute): the theorems about the elaborated instruction lists apply to the code as emitted, for all objects and bytes')
    # ---- oracle: every declaration-violating mutant must raise SerializationError or ValueError
    nref = nconstr = 0
    for e in entries:
        for job, out in zip(e['jobs'], e['result'].get('results', [])):
            if 'mutant' not in job:
                if 'res' in out and out['res'][0] != 'ok' and not C.violations:
                    C.violation(f"tree '{e['name']}': a valid {job['cls']} object was refused: {out['res']}",
                                dict(unit='generated serialize', input=dict(tree=e['name'], xml=tree_xml(e['tree']), cls=job['cls'], value=job['value'])))
                continue
            if 'res' not in out:
                nconstr += 1
                continue
            nref += 1
            res = out['res']
            if res[0] == 'ok' or res[1] not in ('ESerialization', 'EValue'):
                C.violation(f"tree '{e['name']}': invalid object ({job['mutant']}) was not refused: serialize "
                            f"{'returned normally with bytes ' + str(out['bytes']) if res[0] == 'ok' else 'raised ' + str(res[1:])}",
                            dict(unit='generated serialize', input=dict(tree=e['name'], xml=tree_xml(e['tree']), cls=job['cls'], value=job['value'], mutant=job['mutant'])))
    C.stream('oracle.mutants-refused', nref, nref, sample=dict(mutant=next((j['mutant'] for e in entries for j in e['jobs'] if 'mutant' in j), None)))
    C.cov['distribution'] = dict(mutants=nm, not_constructible=nconstr, refused_checked=nref, by_kind=kinds)
    mism = compare_entries(C, 'c16', entries, 'serialize-mutants', want=('ser',), max_cases_per_tree=500)
    for m in mism[:3]:
        report_mismatch(C, m, "refusal of invalid objects")
    for m in mism:
        C.disagreement('serialize-mutants', dict(tree=m['entry']['name'], kind=m['kind']))
    return C.finish()


def replay(path):
    return gen_replay(path)
