"""C14 - Protocol enums accept every integer and keep its value."""
from vlib import *
from genharness import *
from gencheck import *
import json

NAMES = ['A', 'B', 'C', 'None', 'Down', 'Up', 'Ok', 'Banned', 'X1', 'Lo', 'Hi', 'Zed']


def gen_decl(rng, it, allow_alias):
    n = rng.randrange(1, 9)
    names = rng.sample(NAMES, n)
    mx = IMAX[it]
    style = rng.choice(['dense', 'sparse', 'edge'])
    if style == 'dense':
        ords = list(range(n))
    elif style == 'sparse':
        ords = rng.sample(range(0, min(mx, 400) + 1), n)
    else:
        pool = [0, 1, 2, 252, 253, 254, 255, mx, mx - 1]
        pool = sorted(set(x for x in pool if 0 <= x <= mx))
        ords = rng.sample(pool, min(n, len(pool)))
        names = names[:len(ords)]
    if allow_alias and len(ords) > 1 and rng.random() < 0.5:
        ords[-1] = ords[0]
    return list(zip(names, ords))


def calls_for(rng, decl, it):
    vals = [v for _, v in decl]
    c = list(vals) + [v + d for v in vals for d in (-1, 1)] + [0, 252, 253, 254, 255, 256, 64008, 64009, IMAX[it], IMAX[it] + 1, 2 ** 31, 2 ** 64, -1, -253]
    c += [rng.randrange(0, 70000) for _ in range(6)]
    rng.shuffle(c)
    return c + list(vals)       # declared ones again at the end (same object every time, after unrecognised ones were built)


def decl_by0(jobs, name):
    return next(j['decl'] for j in jobs if j.get('cls') == name)


def run(tier):
    C = Check('C14', tier)
    C.prove('Properties/C14.v')
    C.cov['tie']['protocol_enum_meta.py + generated enum classes'] = 'correspondence-only (behaviour lives in CPython enum.EnumMeta): classes made by the REAL generator, by class source and by the functional API'
    quick = tier == 'quick'
    rng = C.rng
    runner = GenRunner(C.scratch, workers=6)
    entries = []
    for k in range(10 if quick else 80):
        t = empty_tree()
        jobs = []
        decls = []
        for j in range(4):
            it = rng.choice(INTS)
            decl = gen_decl(rng, it, False)
            name = f"Gen{j}"
            t[rng.choice(['', 'pub', 'net', 'map'])]['enums'].append({'name': name, 'type': it, 'values': [(n, str(v)) for n, v in decl]})
            jobs.append(dict(op='enum', cls=name, calls=calls_for(rng, decl, it), decl=decl, how='generated'))
        # enum-typed fields and arrays in a generated struct, with underlying-type overrides: read-then-write keeps every ordinal,
        # and what deserialize hands out is an instance of the enum (declared member or Unrecognized), never a bare int
        enames = [f"Gen{j}" for j in range(4)]
        under = {e['name']: e['type'] for f_ in t.values() for e in f_['enums']}
        wider = lambda it: INTS[min(INTS.index(it) + 1, 4)] if it != 'byte' else 'short'
        holder = [F('a', enames[0]), F('b', enames[1] + ':' + wider(under[enames[1]])), F('c', enames[2] + ':' + rng.choice(['short', 'three', 'int'])),
                  A('xs', enames[0], length='2'), L('n', 'char'), A('ys', enames[1] + ':' + wider(under[enames[1]]), length='n'),
                  F('o', enames[3], optional='true'), A('zs', enames[3], optional='true')]
        t['net']['structs'].append({'name': 'EnumHolder', 'body': holder})
        # a switch on an enum field: a case for a declared member, and a case addressed BY NUMBER for an ordinal the enum does not name
        # (how a spec keeps the data of a value only newer protocol versions name)
        d0 = decl_by0(jobs, enames[0])
        free = next(z for z in range(0, 254) if z not in [v for _, v in d0])
        t['net']['structs'].append({'name': 'EnumSwitch', 'body': [F('k', enames[0]), SW('k', CASE(d0[0][0], F('m', 'short')),
                                                                                  CASE(str(free), F('u', 'three'), F('w', enames[1]))), F('after', 'char')]})
        decl_by = {j['cls']: j['decl'] for j in jobs}

        def ev(name, it):
            # any ordinal the field's (possibly overridden) underlying type can carry: declared or not
            vals = [v for _, v in decl_by[name] if v <= IMAX[it]]
            z = rng.choice(vals + [rng.randrange(0, IMAX[it] + 1), IMAX[it], min(IMAX[it], 253), min(IMAX[it], 300)])
            return {'e': name, 'v': z}
        for _ in range(6):
            wb, wc = wider(under[enames[1]]), holder[2]['attrs']['type'].split(':')[1]
            v = {'o': 'EnumHolder', 'f': [['a', ev(enames[0], under[enames[0]])], ['b', ev(enames[1], wb)], ['c', ev(enames[2], wc)],
                                          ['xs', {'l': [ev(enames[0], under[enames[0]]) for _ in range(2)]}],
                                          ['ys', {'l': [ev(enames[1], wb) for _ in range(rng.randrange(0, 4))]}],
                                          ['o', ev(enames[3], under[enames[3]])], ['zs', {'l': [ev(enames[3], under[enames[3]]) for _ in range(rng.randrange(1, 4))]}]]}
            jobs.append(dict(op='ser', cls='EnumHolder', value=v, san=False, then_deser=True, mutants=0, how='struct-fields'))
        # read-then-write on hostile bytes (0x00 decodes to digit -1, 0xFE ends a number, 0xFF is digit 254): whatever the reader hands out,
        # writing it back behaves as the reference semantics says - in particular an unrecognised ordinal read from the wire can be written again
        for cls_, n_ in (('EnumHolder', 24), ('EnumSwitch', 10)):
            for _ in range(8):
                data = [rng.choice([0, 0, 1, 2, 8, 0xFE, 0xFF, free + 1, rng.randrange(256)]) for _ in range(rng.randrange(1, n_))]
                jobs.append(dict(op='deser', cls=cls_, data=data, chunked=False, reser=True, how='read-then-write'))
        vg0 = ValueGen(t, rng)
        for kv, dcls, df in ((free, f"EnumSwitch.KData{free}", [['u', {'i': rng.randrange(0, 1000)}], ['w', ev(enames[1], under[enames[1]])]]),
                             (d0[0][1], f"EnumSwitch.KData{d0[0][0]}", [['m', {'i': rng.randrange(0, 60000)}]]),
                             (next(z for z in range(free + 1, 254) if z not in [v_ for _, v_ in d0]), None, None)):
            v = {'o': 'EnumSwitch', 'f': [['k', {'e': enames[0], 'v': kv}], ['k_data', {'o': dcls, 'f': df} if dcls else None], ['after', {'i': rng.randrange(0, 253)}]]}
            jobs.append(dict(op='ser', cls='EnumSwitch', value=v, san=False, then_deser=True, mutants=0, how='struct-fields'))
        jobs.append(dict(op='deser', cls='EnumSwitch', data=[free + 1, 5, 6, 7, 9, 11], chunked=False, reser=True, how='read-then-write'))
        jobs.append(dict(op='deser', cls='EnumSwitch', data=[d0[0][1] + 1, 5, 6, 7, 9, 11] if 0 <= d0[0][1] < 252 else [1], chunked=False, reser=True, how='read-then-write'))
        # the two skeleton enums, which every tree has
        jobs.append(dict(op='enum', cls='PacketFamily', calls=calls_for(rng, [('Init', 255), ('Talk', 18), ('Welcome', 5)], 'byte'), decl=[('Init', 255), ('Talk', 18), ('Welcome', 5)], how='generated'))
        for j in range(3):
            it = rng.choice(INTS)
            decl = gen_decl(rng, it, True)
            body = '\n'.join(f"    {'None_' if n == 'None' else n} = {v}" for n, v in decl)
            src = ("from enum import IntEnum\nfrom eolib.protocol.protocol_enum_meta import ProtocolEnumMeta\n"
                   f"class E(IntEnum, metaclass=ProtocolEnumMeta):\n{body}\n")
            jobs.append(dict(op='enum', src=src, calls=calls_for(rng, decl, it), decl=[('None_' if n == 'None' else n, v) for n, v in decl], how='class-source'))
            decl2 = gen_decl(rng, it, False)
            jobs.append(dict(op='enum', functional=[[('None_' if n == 'None' else n), v] for n, v in decl2], calls=calls_for(rng, decl2, it),
                             decl=[('None_' if n == 'None' else n, v) for n, v in decl2], how='functional-api'))
        # a hand-written protocol enum whose members carry an extra attribute (custom __new__, the enum HOWTO recipe)
        declx = gen_decl(rng, 'char', False)
        bodyx = '\n'.join(f"    {'None_' if n == 'None' else n} = ({v}, 'label-{v}')" for n, v in declx)
        srcx = ("from enum import IntEnum\nfrom eolib.protocol.protocol_enum_meta import ProtocolEnumMeta\n"
                "class E(IntEnum, metaclass=ProtocolEnumMeta):\n"
                "    def __new__(cls, value, label):\n        obj = int.__new__(cls, value)\n        obj._value_ = value\n        obj.label = label\n        return obj\n"
                f"{bodyx}\n")
        jobs.append(dict(op='enum', src=srcx, calls=calls_for(rng, declx, 'char'), decl=[('None_' if n == 'None' else n, v) for n, v in declx], how='class-source-custom-new'))
        # the auto-numbered functional API, with and without an explicit start
        for start in (None, 0, 1, rng.randrange(2, 300)):
            nm = rng.sample([n for n in NAMES if n != 'None'], rng.randrange(1, 6))
            decl3 = [(n, (1 if start is None else start) + i) for i, n in enumerate(nm)]
            jobs.append(dict(op='enum', functional_names=rng.choice([' '.join(nm), ', '.join(nm), nm]), start=start, calls=calls_for(rng, decl3, 'short'),
                             decl=decl3, how='functional-api-auto'))
        entries.append(dict(name=f"enums-{k}", tree=t, jobs=jobs))
    run_entries(C, runner, entries)
    cases = []
    ncalls = 0
    hows = {}
    gen_cases = {}
    for e in entries:
        r = e['result']
        if not r.get('accepted'):
            C.violation(f"enum tree {e['name']} rejected: {r.get('error')}", dict(unit='protocol_code_generator', input=dict(xml=tree_xml(e['tree']))))
            continue
        for job, out in zip(e['jobs'], r.get('results', [])):
            if job['op'] == 'ser':
                ok = impl_roundtrip_ok(job, out)
                d = (out.get('deser') or [{}])[0]
                if not ok and not C.violations:
                    C.violation(f"enum-typed fields do not survive write-then-read: {job['value']} -> bytes {out.get('bytes')} -> {json.dumps(d.get('res'))[:400]}",
                                dict(unit='generated enum fields', input=dict(xml=tree_xml(e['tree']), value=job['value'])))
                elif ok:
                    # every enum-typed slot must hold an enum instance of the declared class
                    got = dict((k, v) for k, v in d['res'][1]['f'])
                    for k, v in job['value']['f']:
                        want = [x for x in (v['l'] if v and 'l' in v else [v])]
                        have = [x for x in (got[k]['l'] if got[k] and 'l' in got[k] else [got[k]])]
                        for w_, h_ in zip(want, have):
                            if w_ and 'e' in w_ and not (h_ and h_.get('e') == w_['e']) and not C.violations:
                                C.violation(f"deserialized enum field {k} holds {h_}, not an instance of {w_['e']}",
                                            dict(unit='generated enum fields', input=dict(xml=tree_xml(e['tree']), value=job['value'])))
                    gen_cases.setdefault(id(e), (e, []))[1].append(ser_case(job, {k: v for k, v in out.items() if k != 'deser'}))
                    gen_cases[id(e)][1].append(deser_case(job['cls'], d))
                hows['struct-fields'] = hows.get('struct-fields', 0) + 1
                continue
            if job['op'] == 'deser':
                hows['read-then-write'] = hows.get('read-then-write', 0) + 1
                if 'res' in out and not out.get('heavy'):
                    gen_cases.setdefault(id(e), (e, []))[1].append(deser_case(job['cls'], out))
                    if 'reser' in out:
                        gen_cases[id(e)][1].append(ser_case(dict(cls=job['cls'], value=strip_bs(out['res'][1]), san=False), out['reser']))
                continue
            if 'obs' not in out:
                C.violation(f"constructing a protocol enum failed ({job['how']}): {out}", dict(unit='protocol_enum_meta', input=dict(decl=job['decl'], calls=job['calls'])))
                continue
            hows[job['how']] = hows.get(job['how'], 0) + 1
            ncalls += len(job['calls'])
            if out['problems'] and not C.violations:
                C.violation(f"protocol enum {job['decl']} ({job['how']}): {out['problems'][0]}", dict(unit='protocol_enum_meta', input=dict(decl=job['decl'], calls=job['calls'], how=job['how'])))
            # generated classes rename None -> None_
            decl = [('None_' if (n == 'None' and job['how'] == 'generated') else n, v) for n, v in job['decl']]
            cases.append(((decl, job['calls']), (out['obs'], out['members'])))
    C.stream('oracle.enum-calls', ncalls, ncalls, sample=dict(decl=cases[0][0][0], calls=cases[0][0][1][:8]) if cases else None)
    C.cov['distribution'] = dict(enum_classes=len(cases), calls=ncalls, made_by=hows)
    term = lambda c: (f"({clist(c[0][0], lambda p: f'({cs(p[0])}, {cz(p[1])})')}, {clist(c[0][1])}, "
                      f"{clist(c[1][0], lambda o: f'({cbool(o[0])}, {cz(o[1])}, {cs(o[2])}, {cz(o[3])})')}, {clist(c[1][1], lambda p: f'({cs(p[0])}, {cz(p[1])})')})")
    specs = [dict(label='M.enum_check', ty='list (string * Z) * list Z * list (bool * Z * string * Z) * list (string * Z)', cases=cases, term=term, chk='enum_check')]
    corr_streams(C, 'c14', specs, "From EO Require Import Model.Spec Model.EnumMeta.\nOpen Scope string_scope.\nOpen Scope list_scope.\nOpen Scope Z_scope.\n")
    items = [(e['tree'], True, cs_) for e, cs_ in gen_cases.values()]
    if items:
        try:
            fl = run_tree_cases('c14g', items)
            for (tree, _, cs_), f in zip(items, fl):
                for i in f[:1]:
                    C.disagreement('enum-fields', dict(case=cs_[i][:300] if i >= 0 else 'accept/reject'))
            C.stream('corr.enum-fields', sum(len(i[2]) for i in items), sum(len(i[2]) for i in items))
        except CoqCaseError as ex:
            C.broken.append(dict(kind='correspondence', stream='enum-fields', msg=str(ex)[-600:]))
    for b in [b for b in C.broken if b.get('kind') == 'correspondence' and b.get('case')][:1]:
        C.violation(f"protocol enum behaviour differs from the model on {b['case']}", dict(unit='protocol_enum_meta', input=b['case'], observed=b.get('impl')))
    return C.finish()


def replay(path):
    r = json.load(open(path))
    inp = r.get('input')
    if not inp:
        return replay_broken(r, 'C14')
    if isinstance(inp, dict) and 'decl' in inp and 'calls' in inp:
        # the enum is rebuilt with the functional API from the recorded declaration and the recorded calls are made again
        s_ = Scratch()
        load_leaf(s_.src, 'eolib.protocol.protocol_enum_meta')
        import gen_driver
        try:
            if inp.get('how') == 'functional-api-auto':
                # the auto-numbered form: names only, numbering from the first declared ordinal
                job_ = dict(functional_names=[n for n, _ in inp['decl']], start=inp['decl'][0][1], calls=inp['calls'])
            else:
                job_ = dict(functional=[[('None_' if n == 'None' else n), v] for n, v in inp['decl']], calls=inp['calls'])
            out = gen_driver.do_enum(None, job_)
            decl_ = [[('None_' if n == 'None' else n), v] for n, v in inp['decl']]
            if out['members'] != decl_:
                out['problems'].insert(0, f"the enum built from the declaration has members {out['members']}, declared {decl_}")
            probs = out['problems']
        except BaseException as ex:
            probs = [f"{type(ex).__name__}: {ex}"]
        print("replay:", probs[0] if probs else "property holds on this input")
        return 1 if probs else 0
    if isinstance(inp, dict) and 'xml' in inp and 'value' in inp:
        S = Scratch()
        runner = GenRunner(S, workers=1)
        job = dict(op='ser', cls=inp['value']['o'], value=inp['value'], san=False, then_deser=True, mutants=0)
        res = runner.run([dict(id=0, files=inp['xml'], jobs=[job])])[0]
        out = (res.get('results') or [{}])[0]
        ok = bool(res.get('accepted')) and impl_roundtrip_ok(job, out)
        print("replay:", "property holds on this input" if ok else f"enum-typed fields do not survive write-then-read: {json.dumps(out)[:600]}")
        return 0 if ok else 1
    return replay_broken(r, 'C14')
