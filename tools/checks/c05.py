"""C05 - EoReader follows the chunked-reading model and never leaves its data."""
import itertools
from vlib import *
from dataharness import *

MENU = [('byte',), ('bytes', 0), ('bytes', 2), ('bytes', 5), ('char',), ('short',), ('int',), ('string',), ('fixed', 2, True), ('fixedenc', 3, False),
        ('setchunked', True), ('setchunked', False), ('remaining',), ('nextchunk',), ('slice', None, None), ('slice', 1, 2)]


def invariants(data_lens, ops, obs):
    """position within data, remaining >= 0, exhausted reads yield 0/empty, no exception other than documented ones"""
    for i, ((h, op), o) in enumerate(zip(ops, obs)):
        out, pos, rem, mode = o
        if pos < 0 or rem < 0:
            return f"op #{i} {op}: position {pos} / remaining {rem} negative"
        if out[0] == 'Err' and not (op[0] == 'nextchunk' and out[1] == 'ERuntime') and not (out[1] == 'EValue' and op[0] in ('fixed', 'fixedenc', 'slice')):
            return f"op #{i} {op} raised {out[1]}"
    return None


def bounded(tier):
    alpha = [0x00, 0x01, 0xFE, 0xFF]
    dl, ol = (3, 3) if tier == 'quick' else (4, 3)
    datas = [list(t) for L in range(0, dl + 1) for t in itertools.product(alpha, repeat=L)]
    scripts = [list(t) for L in range(1, ol + 1) for t in itertools.product(range(len(MENU)), repeat=L)]
    return datas, scripts


def run(tier):
    C = Check('C05', tier)
    C.prove('Properties/C05.v', units=['G_eo_numeric_limits', 'G_number_encoding_utils', 'G_string_encoding_utils', 'G_eo_reader'], bridges={'Bridge/B_reader.v': ['G_eo_numeric_limits', 'G_number_encoding_utils', 'G_string_encoding_utils', 'G_eo_reader']})
    check_cp1252(C)
    rmod = load_leaf(C.scratch.src, 'eolib.data.eo_reader')
    rng = C.rng
    # ---- bounded-exhaustive on the implementation against the documented model (Python transcription = oracle)
    datas, scripts = bounded(tier)
    nbe = 0
    be_cases = []
    for d in datas:
        for sc in scripts:
            ops = []
            nr = 1
            for k in sc:
                op = MENU[k]
                ops.append((nr - 1 if op[0] != 'slice' else 0, op))
                if op[0] == 'slice':
                    nr += 1
            obs = run_reader(rmod, d, ops)
            nbe += 1
            if not C.violations:
                w = reader_oracle(d, ops, obs) or invariants(None, ops, obs)
                if w:
                    C.violation(w, dict(unit='eo_reader', input=dict(data=d, ops=[[h, list(o)] for h, o in ops])))
            if nbe % 37 == 0:
                be_cases.append(((d, ops), obs))
    C.stream('oracle.bounded-exhaustive', nbe, nbe, exhaustive=True, sample=dict(data=datas[40], script=[list(MENU[k]) for k in scripts[300]]))
    C.cov['bounded_exhaustive'] = f"{len(datas)} data strings (length <= {len(datas[-1])} over 00,01,FE,FF) x {len(scripts)} scripts (length <= {len(scripts[-1])} over a {len(MENU)}-op menu)"
    # ---- random histories with up to 5 live readers (slices of slices)
    hist = [gen_history(rng, 30) for _ in range(1200 if tier == 'quick' else 12000)]
    # documented scripts of tests/data/test_eo_reader.py (under-, over-, double-read, mode toggling)
    hist += [([0x7C, 0x67, 0x61, 0xEF, 0xFF, 0x6F, 0x82, 0xFF, 0x01], [(0, ('setchunked', True)), (0, ('short',)), (0, ('char',)), (0, ('nextchunk',)), (0, ('int',)), (0, ('nextchunk',)), (0, ('string',)), (0, ('remaining',))]),
             ([0x01, 0xFF, 0x02, 0x03, 0x04, 0x05], [(0, ('setchunked', True)), (0, ('int',)), (0, ('nextchunk',)), (0, ('short',)), (0, ('short',)), (0, ('short',))]),
             ([0x01, 0x02, 0xFF, 0x03, 0x04, 0x5, 0xFF, 0x06], [(0, ('setchunked', True)), (0, ('nextchunk',)), (0, ('nextchunk',)), (0, ('nextchunk',)), (0, ('nextchunk',)), (0, ('position',))]),
             ([1, 2, 3, 4, 5, 6], [(0, ('byte',)), (0, ('setchunked', True)), (0, ('slice', None, None)), (1, ('slice', 1, None)), (2, ('slice', 1, 2)), (3, ('remaining',)), (0, ('remaining',))]),
             ([0x01, 0x02, 0xFF, 0x03, 0x04, 0x05, 0xFF, 0x06], [(0, ('setchunked', True)), (0, ('byte',)), (0, ('setchunked', False)), (0, ('bytes', 3)), (0, ('setchunked', True)), (0, ('remaining',)), (0, ('byte',)), (0, ('nextchunk',)), (0, ('byte',))])]
    # slices taken from a chunked parent that has ADVANCED (one, two chunks), starting before / inside / at the parent's current chunk, then read
    # in chunked mode themselves: a slice knows nothing of its parent's cursor
    for d in ([1, 255, 2, 3, 255, 4, 5], [255, 1, 255, 255, 2], [1, 2, 255, 3, 255]):
        for adv in (1, 2):
            for b, ln in ((0, None), (0, len(d)), (1, None), (1, 3), (2, 4), (3, None)):
                child = [(1, ('setchunked', True)), (1, ('remaining',)), (1, ('byte',)), (1, ('nextchunk',)), (1, ('remaining',)), (1, ('position',)), (1, ('byte',)),
                         (1, ('slice', 0, None)), (2, ('setchunked', True)), (2, ('remaining',)), (2, ('nextchunk',)), (2, ('remaining',)), (2, ('byte',))]
                hist.append((d, [(0, ('setchunked', True))] + [(0, ('nextchunk',))] * adv + [(0, ('slice', b, ln))] + child + [(0, ('remaining',)), (0, ('byte',))]))
    cases = []
    for d, ops in hist:
        obs = run_reader(rmod, d, ops)
        cases.append(((d, ops), obs))
        if not C.violations:
            w = reader_oracle(d, ops, obs) or invariants(None, ops, obs)
            if w:
                C.violation(w, dict(unit='eo_reader', input=dict(data=d, ops=[[h, list(o)] for h, o in ops])))
    nt = lambda c: any(o[0] == 'nextchunk' for _, o in c[0][1]) and 0xFF in c[0][0]
    C.stream('oracle.random-histories', len(cases), len({repr(c[0]) for c in cases if nt(c)}), sample=dict(data=hist[5][0], ops=[[h, list(o)] for h, o in hist[5][1][:8]]))
    C.cov['distribution'] = dict(histories=len(cases), ops=sum(len(c[0][1]) for c in cases), with_slices=sum(1 for c in cases if any(o[0] == 'slice' for _, o in c[0][1])),
                                 with_next_chunk=sum(1 for c in cases if any(o[0] == 'nextchunk' for _, o in c[0][1])),
                                 errors=sum(1 for c in cases for o in c[1] if o[0][0] == 'Err'),
                                 by_kind={k: sum(1 for c in cases for _, o in c[0][1] if o[0] == k) for k in READ_KINDS})
    # ---- correspondence with the Coq models R (faithful, cached break) and A (documented model)
    allc = cases + be_cases
    term = lambda c: f"({clist(c[0][0])}, {clist(c[0][1], lambda ho: f'({ho[0]}%nat, {crop(ho[1])})')}, {clist(c[1], crobs)})"
    specs = [dict(label='R.rtrace', ty='list Z * list (nat * rop) * list robs', cases=allc, term=term, chk="rcheck", nontrivial=nt),
             dict(label='A.atrace', ty='list Z * list (nat * rop) * list robs', cases=allc, term=term, chk="acheck", nontrivial=nt)]
    corr_streams(C, 'c05', specs, "From EO Require Import Model.Reader Model.ReaderSpec Model.Harness.\n")

    def search():
        r2 = random.Random(99)
        for _ in range(60000):
            d, ops = gen_history(r2, 14)
            obs = run_reader(rmod, d, ops)
            w = reader_oracle(d, ops, obs) or invariants(None, ops, obs)
            if w:
                return C.violation(w, dict(unit='eo_reader', input=dict(data=d, ops=[[h, list(o)] for h, o in ops])))
    return C.finish(search=search)


def replay(path):
    import json
    r = json.load(open(path))
    s = Scratch()
    rmod = load_leaf(s.src, 'eolib.data.eo_reader')
    d = r['input']['data']
    ops = [(h, tuple(o)) for h, o in r['input']['ops']]
    obs = run_reader(rmod, d, ops)
    w = reader_oracle(d, ops, obs) or invariants(None, ops, obs)
    print("replay:", w or "property holds on this input")
    return 1 if w else 0
