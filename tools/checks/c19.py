"""C19 - Generated protocol objects are immutable snapshots."""
from vlib import *
from genharness import *
from gencheck import *


def run(tier):
    C = Check('C19', tier)
    C.prove('Properties/C19.v', bridges={'Model/Recover.v': [], 'Properties/C19R.v': []})
    C.cov['tie']['generated classes'] = ('correspondence-only (CPython attribute protocol is the oracle): every generated class incl. case-data classes is poked through its whole '
                                         'public interface; serializations before/after must be identical; Model/ObjModel.v is the object/heap model the theorems are about')
    quick = tier == 'quick'
    trees, rng = build_trees(C, 24 if quick else 250)
    runner = GenRunner(C.scratch, workers=8)
    entries = []
    for t in trees:
        vg = ValueGen(t['tree'], rng, plain_strings=False)
        R = Resolver(t['tree'])
        jobs = []
        # an invalid object of a class with a chunked section: its serialization fails part-way on the shared writer
        poison = None
        for pcls, pbody in classes_of(t['tree']):
            if any(i['tag'] == 'chunked' for i in pbody):
                try:
                    pv = vg.obj(pcls, pbody)
                    ms = [m for d, m in obj_mutants(R, vg, pcls, pbody, pv)]
                    inner = [m for d, m in obj_mutants(R, vg, pcls, pbody, pv) if 'None (required)' in d]
                    if ms:
                        poison = dict(cls=pcls, value=(inner or ms)[-1])
                        break
                except Exception:
                    pass
        for cls, body in all_classes_of(t['tree']):
            arrays = [i['attrs']['name'] for i in flat_body(body) if i['tag'] == 'array' and str(i['attrs'].get('optional', '')).lower() != 'true']
            for k in range(3 if quick else 5):
                try:
                    # the last one writes as little as the declaration allows: what such an instance puts on the wire (a <dummy>, say) must
                    # not depend on what the writer holds already
                    v = vg.obj(cls, body) if k else vg.obj_minimal(cls, body)
                except Exception as ex:
                    C.harness_failure('value-generation', f"{t['name']} {cls}: {type(ex).__name__}: {ex}")
                    continue
                jobs.append(dict(op='immut', cls=cls, value=v, arrays=arrays, poison=poison))
        entries.append(dict(name=t['name'], tree=t['tree'], jobs=jobs, want_sources=True))
    run_entries(C, runner, entries)
    recover_stream(C, entries, 'c19')
    render_stream(C, entries, 'c19')
    C.cov['tie']['generated constructors (semantics)'] = ("way 1 for generated code: tools/py2stmt.py (IParser) parses every generated __init__ and the read-only properties from the SOURCE TEXT (generic, fail-closed) into the term language of Model/RenderInit.v; Model/RenderCheckI.v decides per tree that they equal render_init / render_getters (elab tree); Properties/C19R.v proves that running the constructor gives the slots `ctor_slots`, the object `init_model` (so C03's program theorem holds with the parsed constructors in place of init_model) and, on the heap model of Model/ObjModel.v, a frozen instance whose argument slots are those of `construct`")
    C.cov['tie']['generated classes (structure)'] = ('translation validation: tools/gen2instr.py recovers the instruction lists of every generated serialize / deserialize / __init__ from the SOURCE TEXT (fail-closed) and Model/Recover.v compares them with elab of the same tree (vm_compute): the theorems about the elaborated instruction lists apply to the code as emitted, for all objects and bytes')
    n = nd = 0
    nde = {}
    ser_cases = {}
    for e in entries:
        for job, out in zip(e['jobs'], e['result'].get('results', [])):
            if 'problems' not in out:
                continue      # harness / construction failures of this job were reported by run_entries (fail closed)
            if out['ser'][0] != 'ok':
                C.violation(f"tree '{e['name']}', class {job['cls']}: a valid instance does not serialize ({out['ser'][:2]}), so nothing about its snapshots could be observed",
                            dict(unit='generated class', input=dict(tree=e['name'], xml=tree_xml(e['tree']), cls=job['cls'], value=job['value'])))
            if 'deser_error' in out:
                nde[out['deser_error']] = nde.get(out['deser_error'], 0) + 1
            n += 1
            nd += 'reser' in out
            for p in out['problems'][:1]:
                key = 'F6-deserialized-blob-is-bytearray' if 'returns a mutable bytearray' in p and 'deserialized' in p else None
                C.violation(f"tree '{e['name']}', class {job['cls']}: {p}", dict(unit='generated class', input=dict(tree=e['name'], xml=tree_xml(e['tree']), cls=job['cls'], value=job['value'])), key=key)
            # the bytes are also what the reference semantics says (ties the poked instances to the model's serialize)
            if out['ser'][0] == 'ok':
                ser_cases.setdefault(id(e), (e, []))[1].append(f"GSer {cs(job['cls'])} {cvalue(job['value'])} false (Ok tt, {clist(out['ser'][1])}, false)")
    C.stream('oracle.immutability', n, n, sample=dict(tree=entries[0]['name']))
    C.cov['distribution'] = dict(instances_constructed=n, instances_deserialized=nd, own_serialization_not_deserializable=nde)
    if n and nd * 10 < n * 8:
        C.harness_failure('deserialized-instances', f"only {nd} of {n} instances could be deserialized from their own serialization: {nde}")
    items = [(e['tree'], True, cases[:120]) for e, cases in ser_cases.values() if e['result'].get('accepted')]
    try:
        fl = run_tree_cases('c19', items)
        for (tree, _, cases), f in zip(items, fl):
            for i in f[:1]:
                C.disagreement('serialize', dict(case=cases[i] if i >= 0 else 'accept/reject'))
        C.stream('corr.serialize', sum(len(i[2]) for i in items), sum(len(i[2]) for i in items))
        C.cov['traces_validated_against_impl'] += sum(len(i[2]) for i in items)
    except CoqCaseError as ex:
        C.broken.append(dict(kind='correspondence', stream='serialize', msg=str(ex)[-600:]))
    return C.finish()


def replay(path):
    """regenerates the recorded tree and pokes an instance of the recorded class again (constructed from the recorded value, and deserialized)"""
    import json
    r = json.load(open(path))
    inp = r.get('input')
    if not isinstance(inp, dict) or 'xml' not in inp or inp.get('value') is None:
        return replay_broken(r, 'C19')
    S = Scratch()
    runner = GenRunner(S, workers=1)
    tree = xml_to_tree(inp['xml'])
    body = dict(all_classes_of(tree)).get(inp['cls'], [])
    arrays = [i['attrs']['name'] for i in flat_body(body) if i['tag'] == 'array' and str(i['attrs'].get('optional', '')).lower() != 'true']
    res = runner.run([dict(id=0, files=inp['xml'], jobs=[dict(op='immut', cls=inp['cls'], value=inp['value'], arrays=arrays, poison=None)])])[0]
    probs = []
    if not res.get('accepted') or res.get('import_error'):
        probs.append(f"generated package unusable: {res.get('error') or res.get('import_error')}")
    for out in res.get('results', []):
        probs += out.get('problems', []) + ([out['harness_error']] if 'harness_error' in out else [])
    print("replay:", probs[0][:500] if probs else "property holds on this input")
    return 1 if probs else 0
