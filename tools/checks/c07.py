"""C07 - EO number codec is a wire-safe bijection on its whole range."""
import itertools
import os
from vlib import *

INT_MAX = 253 ** 4


def boundary_numbers(extra=()):
    s = set()
    for k in range(0, 5):
        for j in (0, 1, 2, 126, 127, 128, 251, 252, 253):
            for d in range(-2, 3):
                s.add(253 ** k * j + d)
    for k1 in range(1, 4):
        for j in (1, 2, 127, 252):
            for k0 in range(0, k1):
                for i in (0, 1, 252):
                    s.add(253 ** k1 * j + 253 ** k0 * i)
    for c in extra:
        for d in range(-2, 3):
            s.add(c + d)
            s.add(c * 253 + d)
    s |= {0, 1, 28, 100, 128, 252, 253, 254, 255, 32003, 32004, 32005, 64008, 64009, 64010, 10000000, 16194276,
          16194277, 16194278, 2048576039, 2048576040, 2048576041, 4097152079, 4097152080, 4097152081, 4097152082,
          2 ** 31, 2 ** 32, 2 ** 64, 10 ** 30, -1, -2, -253, -254, 254 * 253 ** 3 - 1, 254 * 253 ** 3, 255 * 253 ** 3}
    return sorted(s)


def positional_py(bs):
    r = 0
    for i, b in enumerate(bs[:4]):
        if b == 0xFE:
            break
        r += (b - 1) * 253 ** i
    return r


def oracle_number(mod, n):
    """Property oracle on the implementation for an in-range n; returns None or a description."""
    if not (0 <= n < INT_MAX):
        return None
    r = pyexc(mod.encode_number, n)
    if r[0] != 'ok':
        return f"encode_number({n}) raised {r[1]}"
    bs = bytes(r[1])
    if len(bs) != 4:
        return f"encode_number({n}) has length {len(bs)}"
    if any(b == 0 or b == 255 for b in bs):
        return f"encode_number({n}) = {list(bs)} contains 0x00/0xFF"
    d = pyexc(mod.decode_number, bs)
    if d != ('ok', n):
        return f"decode_number(encode_number({n})) = {d}"
    for k in (1, 2, 3):
        if n < 253 ** k:
            d = pyexc(mod.decode_number, bs[:k])
            if d != ('ok', n):
                return f"decode_number(encode_number({n})[:{k}]) = {d}"
            if any(b != 0xFE for b in bs[k:]):
                return f"encode_number({n})[{k}:] = {list(bs[k:])} is not 0xFE filler"
            break
    return None


def oracle_retained(mod, a, b):
    """an encoding is a value: a result kept by the caller is not changed by a later call"""
    ra = pyexc(mod.encode_number, a)
    if ra[0] != 'ok':
        return None
    snap = bytes(ra[1])
    pyexc(mod.encode_number, b)
    if bytes(ra[1]) != snap:
        return f"encode_number({a}) returned {list(snap)}, but after encode_number({b}) the same result object reads {list(bytes(ra[1]))}"
    return None


def oracle_bytes(mod, bs):
    d = pyexc(mod.decode_number, bytes(bs))
    if d != ('ok', positional_py(bs)):
        return f"decode_number({list(bs)}) = {d}, positional formula gives {positional_py(bs)}"
    return None


def run(tier):
    C = Check('C07', tier)
    ok = C.prove('Properties/C07.v', units=['G_eo_numeric_limits', 'G_number_encoding_utils'],
                 bridges={'Bridge/B_number.v': ['G_eo_numeric_limits', 'G_number_encoding_utils']})
    mod = load_leaf(C.scratch.src, 'eolib.data.number_encoding_utils')
    srcfile = os.path.join(C.scratch.src, 'eolib/data/number_encoding_utils.py')
    consts = source_constants(srcfile) + source_constants(os.path.join(C.scratch.src, 'eolib/data/eo_numeric_limits.py'))
    rng = C.rng
    # ---------------- inputs
    nums = boundary_numbers(consts)
    nrand = 1000 if tier == 'quick' else 20000
    for k in range(1, 5):
        nums += [rng.randrange(253 ** (k - 1) if k > 1 else 0, 253 ** k) for _ in range(nrand)]
    nums = sorted(set(nums))
    alpha = [0, 1, 2, 127, 252, 253, 254, 255, 128]
    bss = [list(t) for L in range(0, 3) for t in itertools.product(range(256), repeat=L)] if tier == 'thorough' else \
          [list(t) for L in range(0, 2) for t in itertools.product(range(256), repeat=L)] + \
          [[a, b] for a in list(range(0, 256, 23)) + [1, 2, 253, 254, 255] for b in list(range(0, 256, 3)) + [254, 255]]
    bss += [list(t) for L in (3, 4, 5) for t in itertools.product(alpha if tier == 'thorough' else alpha[:7], repeat=L) if L < 4 or t[0] in (1, 254) and (L < 5 or t[1] in (2, 254))]
    bss += [[rng.randrange(256) for _ in range(rng.randrange(0, 7))] for _ in range(nrand * 2)]
    # ---------------- implementation runs
    enc = [(n, pyexc(mod.encode_number, n)) for n in nums]
    enc = [(n, (r[0], list(r[1])) if r[0] == 'ok' else r) for n, r in enc]
    dec = [(bs, pyexc(mod.decode_number, bytes(bs))) for bs in bss]
    # ---------------- property oracle on the implementation (always, on the same inputs)
    for n in nums:
        w = oracle_number(mod, n)
        if w:
            C.violation(w, dict(unit='number_encoding_utils', input=dict(n=n)))
            break
    for bs in bss:
        w = oracle_bytes(mod, bs)
        if w:
            C.violation(w, dict(unit='number_encoding_utils.decode_number', input=dict(bytes=bs)))
            break
    for a, b in zip(nums[::7], nums[3::7]):
        w = oracle_retained(mod, a, b) if 0 <= a < INT_MAX and 0 <= b < INT_MAX else None
        if w:
            C.violation(w, dict(unit='number_encoding_utils.encode_number', input=dict(n=a, then=b)))
            break
    C.stream('oracle.number', len(nums), len([n for n in nums if 0 <= n < INT_MAX]), sample=dict(n=nums[len(nums) // 2]))
    C.stream('oracle.bytes', len(bss), len({tuple(b) for b in bss if b}), sample=dict(bytes=bss[len(bss) // 2]))
    # ---------------- correspondence: implementation vs model M and vs translated G (E1)
    g_enc = C.has_gen('G_number_encoding_utils', 'encode_number')
    g_dec = C.has_gen('G_number_encoding_utils', 'decode_number')
    imports = "Require EO.Model.Number.\n" + ("Require EO.Gen.G_number_encoding_utils.\n" if g_enc or g_dec else "")
    enc_terms = [f"({cz(n)}, {cres(r, clist)})" for n, r in enc]
    dec_terms = [f"({clist(bs)}, {cres(r, cz)})" for bs, r in dec]
    streams = [
        ('M.encode_number', 'Z * res (list Z)', enc_terms, "fun c => res_eqb list_eqb (EO.Model.Number.encode_number (fst c)) (snd c)"),
        ('M.decode_number', 'list Z * res Z', dec_terms, "fun c => res_eqb Z.eqb (Ok (EO.Model.Number.decode_number (fst c))) (snd c)"),
    ]
    if g_enc:
        streams.append(('G.encode_number', 'Z * res (list Z)', enc_terms, "fun c => res_eqb list_eqb (EO.Gen.G_number_encoding_utils.encode_number (fst c)) (snd c)"))
    if g_dec:
        streams.append(('G.decode_number', 'list Z * res Z', dec_terms, "fun c => res_eqb Z.eqb (Ok (EO.Gen.G_number_encoding_utils.decode_number (fst c))) (snd c)"))
    try:
        res = run_cases('c07', imports, streams)
        for label, idxs in res.items():
            src = enc if 'encode' in label else dec
            for i in idxs[:5]:
                C.disagreement(label, dict(input=src[i][0]), impl=src[i][1])
            C.stream('corr.' + label, len(src), len(src), sample=dict(input=src[len(src) // 3][0], impl=str(src[len(src) // 3][1])))
            C.cov['traces_validated_against_impl'] += len(src)
    except CoqCaseError as e:
        C.broken.append(dict(kind='correspondence', stream=e.label, msg=str(e)[-600:]))

    def search():
        # exhaustive 1..3-byte range (quick: 1-2 byte range + stratified), then stratified 4-byte
        lim = 253 ** 3 if tier == 'thorough' else 253 ** 2 * 8
        for n in range(0, lim):
            w = oracle_number(mod, n)
            if w:
                return C.violation(w, dict(unit='number_encoding_utils', input=dict(n=n)))
        digs = (0, 1, 126, 252)
        for d3 in range(0, 253):
            for d2 in digs:
                for d1 in digs:
                    for d0 in digs:
                        for (a, b, c, d) in ((d3, d2, d1, d0), (d2, d3, d1, d0), (d2, d1, d3, d0), (d2, d1, d0, d3)):
                            n = a * 253 ** 3 + b * 253 ** 2 + c * 253 + d
                            w = oracle_number(mod, n)
                            if w:
                                return C.violation(w, dict(unit='number_encoding_utils', input=dict(n=n)))
        for t in itertools.product(range(256), repeat=2):
            for tail in ([], [1], [254], [255, 3], [2, 2, 9]):
                w = oracle_bytes(mod, list(t) + tail)
                if w:
                    return C.violation(w, dict(unit='number_encoding_utils.decode_number', input=dict(bytes=list(t) + tail)))
    return C.finish(search=search)


def replay(path):
    import json
    r = json.load(open(path))
    inp = r.get('input')
    if not inp:
        return replay_broken(r, 'C07')
    s = Scratch()
    mod = load_leaf(s.src, 'eolib.data.number_encoding_utils')
    if 'bytes' in inp:
        w = oracle_bytes(mod, inp['bytes'])
    elif 'then' in inp:
        w = oracle_retained(mod, inp['n'], inp['then'])
    else:
        w = oracle_number(mod, inp['n'])
    print("replay:", w or "property holds on this input")
    return 1 if w else 0
