"""C01 - Generated serializers round-trip every well-formed message."""
from vlib import *
from genharness import *
from gencheck import *


def run(tier):
    C = Check('C01', tier)
    C.prove('Properties/C01.v', bridges={'Properties/C01B.v': [], 'Model/Recover.v': [], 'Properties/C02R.v': [], 'Properties/C03R.v': []})
    C.cov['tie']['protocol_code_generator + generated code'] = ('correspondence-only: real generator + generated serialize/deserialize round trips; the theorem\'s domain '
                                                               '(wire_ok, valid_obj) is decided inside Coq for every generated (spec, object) pair')
    quick = tier == 'quick'
    trees, rng = build_trees(C, 40 if quick else 400, wire_ok=True)
    runner = GenRunner(C.scratch, workers=8)
    entries = []
    for t in trees:
        jobs = []
        for plain in (True, True, False):
            vg = ValueGen(t['tree'], rng, plain_strings=plain, boundary_lengths=True)
            for cls, body in classes_of(t['tree']):
                for _ in range(2 if quick else 4):
                    try:
                        v = vg.obj(cls, body)
                    except Exception as ex:
                        C.harness_failure('value-generation', f"{t['name']} {cls}: {type(ex).__name__}: {ex}")
                        continue
                    jobs.append(dict(op='ser', cls=cls, value=v, san=False, then_deser=True, mutants=0))
        entries.append(dict(name=t['name'], tree=t['tree'], jobs=jobs, want_sources=True))
    run_entries(C, runner, entries)
    recover_stream(C, entries, 'c01')
    render_stream(C, entries, 'c01')
    C.cov['tie']['generated classes (structure)'] = ('translation validation: tools/gen2instr.py recovers the instruction lists of every generated serialize / deserialize / __init__ from the SOURCE TEXT (fail-closed) and Model/Recover.v compares them with elab of the same tree (vm_compute): the theorems about the elaborated instruction lists apply to the code as emitted, for all objects and bytes')
    items, metas = [], []
    for e in entries:
        r = e['result']
        if not r.get('accepted') or 'results' not in r:
            continue
        cases, cm = [], []
        for job, out in zip(e['jobs'], r['results']):
            if 'res' not in out:
                continue
            cases.append((job['cls'], strip_bs(job['value']), impl_roundtrip_ok(job, out)))
            cm.append((job, out))
        items.append((e['tree'], cases))
        metas.append((e, cm))
    try:
        rs = run_c01_cases('c01', items)
    except CoqCaseError as ex:
        C.broken.append(dict(kind='correspondence', stream='roundtrip', msg=str(ex)[-800:]))
        rs = []
    tot = ind = indA = 0
    for (e, cm), (tree, cases), (n, bad, dis, nA) in zip(metas, items, rs):
        tot += len(cases)
        ind += max(n, 0)
        indA += max(nA, 0)
        for i in bad[:2]:
            job, out = cm[i]
            d = (out.get('deser') or [{}])[0]
            C.violation(f"tree '{e['name']}': a valid {job['cls']} object of a wire-unambiguous class does not round-trip: serialized to {out.get('bytes')}, "
                        f"deserialized to {json.dumps(d.get('res'))[:300]} at position {d.get('pos')}",
                        dict(unit='generated serialize+deserialize', input=dict(tree=e['name'], xml=tree_xml(e['tree']), cls=job['cls'], value=job['value'])))
        for i in dis[:2]:
            job, out = cm[i]
            C.disagreement('roundtrip', dict(tree=e['name'], cls=job['cls'], value=job['value']), impl=dict(bytes=out.get('bytes'), roundtrips=cases[i][2]))
            if not C.violations:
                shown = show_case('c01', e['tree'], f"GRound {cs(job['cls'])} {cvalue(strip_bs(job['value']))} (Err EUnexpected)")
                C.violation(f"tree '{e['name']}': the generated code and the reference semantics disagree on whether a {job['cls']} object round-trips "
                            f"(generated code: {cases[i][2]}; bytes {out.get('bytes')}); model: {shown[-300:]}",
                            dict(unit='generated serialize+deserialize', input=dict(tree=e['name'], xml=tree_xml(e['tree']), cls=job['cls'], value=job['value'])))
    C.stream('corr.roundtrip', tot, ind, sample=dict(tree=entries[0]['name'], cls=(metas[0][1][0][0]['cls'] if metas and metas[0][1] else None)))
    C.cov['traces_validated_against_impl'] += tot
    C.cov['distribution'] = dict(objects=tot, inside_theorem_domain=ind, inside_stage_A_domain=indA, trees=len(items))
    if rs and ind == 0:
        C.broken.append(dict(kind='correspondence', stream='roundtrip', msg='no generated (spec, object) pair fell inside the theorem\'s domain: vacuous run'))
    return C.finish()


def replay(path):
    return gen_replay(path)
