"""C09 - EoWriter validates atomically and sanitises exactly when asked."""
from vlib import *
from dataharness import *


def histories(C, tier):
    rng = C.rng
    out = []
    # bounded-exhaustive: every single edge op x both modes x preceded by 0/1/3 bytes
    singles = []
    for k in ('byte', 'char', 'short', 'three', 'int'):
        lim = LIMITS[k]
        for v in sorted({0, 1, 252, 253, 254, 255, 256, lim - 2, lim - 1, lim, lim + 1, 2 ** 31, 2 ** 64, 10 ** 30, -1, -2} | {SHORT_MAX - 1, SHORT_MAX}):
            singles.append((k, v))
    brace = lambda t: [ord(c) for c in t]
    strs = [[], [65], [0xFF], [65, 0xFF, 66], [0x7E], [0x20AC, 0x263A], [0xFF, 0xFF], [0x79, 0xFF, 0x50, 0x4F, 0x22, 0x7F], [0xD800],
            brace('{name} x'), brace('{0} and {1}'), brace('{}{}'), brace('{0[k]}'), brace('%s %d {'), brace('}{')]
    for s in strs:
        singles += [('string', s), ('enc', s)]
        for d in (-1, 0, 1, 3):
            for p in (False, True):
                n = len(s) + d
                if n >= 0:
                    singles += [('fixed', s, n, p), ('fixedenc', s, n, p)]
    singles += [('bytes', []), ('bytes', [0, 255, 254]), ('fixed', [65], -1, True), ('fixed', [], -1, False)]
    # paddings far longer than any numeric limit of the protocol (the padding is length - len(string) bytes, whatever it is)
    for n in (253, 254, 255, 256, 300, 700):
        singles += [('fixed', [72, 105], n, True), ('fixedenc', [72, 105], n, True), ('fixed', [], n, True)]
    for op in singles:
        for san in (False, True):
            for pre in ([], [('char', 7)], [('bytes', [1, 255, 3])]):
                out.append(pre + ([('san', True)] if san else []) + [op])
    # the same string written on both sides of a mode toggle (any pair of string writers), both directions
    def sop(k, s):
        return (k, s) if k in ('string', 'enc') else (k, s, len(s) + (2 if k.endswith('p') else 0), k.endswith('p'))
    kinds = [('string',), ('enc',), ('fixed',), ('fixedenc',), ('fixedp',), ('fixedencp',)]
    for s in ([0xFF], [65, 0xFF, 66], [0xFF, 0x7E, 0xFF]):
        for (k1,) in kinds:
            for (k2,) in kinds:
                o1 = sop(k1, s); o1 = (k1.rstrip('p'),) + o1[1:]
                o2 = sop(k2, s); o2 = (k2.rstrip('p'),) + o2[1:]
                out.append([o1, ('san', True), o2, ('san', False), o1, o2])
                out.append([('san', True), o1, ('san', False), o2, ('san', True), o2])
    nb = len(out)
    # random histories (strings drawn from a small per-history pool, so that the same string recurs across mode toggles)
    n = 350 if tier == 'quick' else 4000
    for _ in range(n):
        pool = [gen_string(rng) for _ in range(3)] + [[0xFF], [0x79, 0xFF]]
        h = []
        for _ in range(rng.choice([rng.randrange(1, 8), rng.randrange(1, 41)])):
            op = gen_wop(rng)
            if op[0] in ('string', 'enc') and rng.random() < 0.6:
                op = (op[0], rng.choice(pool))
            elif op[0] in ('fixed', 'fixedenc') and rng.random() < 0.6:
                ps = rng.choice(pool)
                op = (op[0], ps, len(ps) + rng.choice([0, 0, 1, 3]), op[3] or rng.random() < 0.5)
            h.append(op)
        out.append(h)
    return out, nb


def run(tier):
    C = Check('C09', tier)
    C.prove('Properties/C09.v', units=['G_eo_numeric_limits', 'G_number_encoding_utils', 'G_string_encoding_utils', 'G_eo_writer'], bridges={'Bridge/B_writer.v': ['G_eo_numeric_limits', 'G_number_encoding_utils', 'G_string_encoding_utils', 'G_eo_writer']})
    check_cp1252(C)
    wmod = load_leaf(C.scratch.src, 'eolib.data.eo_writer')
    hs, nb = histories(C, tier)
    cases = []
    for ops in hs:
        obs = run_writer(wmod, ops)
        cases.append((ops, obs))
        if not C.violations:
            w = writer_oracle(ops, obs)
            if w:
                C.violation(w, dict(unit='eo_writer', input=dict(ops=[list(o) for o in ops])))
    failing = sum(1 for ops, obs in cases if any(o[0][0] == 'err' for o in obs))
    C.stream('oracle.histories', len(cases), len({repr(c[0]) for c in cases}), sample=dict(ops=[list(o) for o in hs[nb + 1][:6]]))
    C.cov['distribution'] = dict(histories=len(cases), bounded_exhaustive_single_ops=nb, with_a_failing_step=failing,
                                 ops=sum(len(c[0]) for c in cases),
                                 by_kind={k: sum(1 for c in cases for o in c[0] if o[0] == k) for k in
                                          ('byte', 'bytes', 'char', 'short', 'three', 'int', 'string', 'fixed', 'enc', 'fixedenc', 'san')})
    term = lambda c: f"({clist(c[0], cwop)}, {clist([(o[0], o[1], o[2]) for o in c[1]], cwobs)})"
    specs = [dict(label='M.wtrace', ty='list wop * list wobs', cases=cases, term=term, nontrivial=lambda c: len(c[0]) > 1,
                  chk="wcheck")]
    corr_streams(C, 'c09', specs, "From EO Require Import Model.Writer Model.Harness.\n")

    def search():
        rng = random.Random(12345)
        for _ in range(20000):
            ops = [gen_wop(rng) for _ in range(rng.randrange(1, 12))]
            obs = run_writer(wmod, ops)
            w = writer_oracle(ops, obs)
            if w:
                # shrink: drop ops while it still fails
                i = 0
                while i < len(ops):
                    t = ops[:i] + ops[i + 1:]
                    if t and writer_oracle(t, run_writer(wmod, t)):
                        ops = t
                    else:
                        i += 1
                return C.violation(writer_oracle(ops, run_writer(wmod, ops)), dict(unit='eo_writer', input=dict(ops=[list(o) for o in ops])))
    return C.finish(search=search)


def replay(path):
    import json
    r = json.load(open(path))
    s = Scratch()
    wmod = load_leaf(s.src, 'eolib.data.eo_writer')
    ops = [tuple(o) for o in r['input']['ops']]
    w = writer_oracle(ops, run_writer(wmod, ops))
    print("replay:", w or "property holds on this input")
    return 1 if w else 0
