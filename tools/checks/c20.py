"""C20 - The public namespace resolves every documented name to the right object."""
from vlib import *
from genharness import *
from gencheck import *

FIRSTS = ['eolib', 'eolib.data', 'eolib.encrypt', 'eolib.packet', 'eolib.protocol', 'eolib.protocol.net', 'eolib.protocol.map', 'eolib.protocol.pub',
          'eolib.protocol.net.client', 'eolib.protocol.net.server', 'eolib.protocol.pub.server', 'eolib.protocol.net.packet', 'eolib.data.eo_reader',
          'eolib.encrypt.encryption_utils', 'eolib.packet.sequence_start', 'eolib.protocol.serialization_error', 'eolib.protocol.protocol_enum_meta']


def snake(name):
    r = ""
    for i, c in enumerate(name):
        if i > 0 and c.isupper() and ((i + 1 < len(name) and not name[i + 1].isupper()) or name[i - 1].islower()):
            r += "_"
        r += c.lower()
    return r


def declared(tree):
    out = []
    for p, f in sorted(tree.items()):
        for e in f['enums']:
            out.append(dict(name=e['name'], dir=p, module=snake(e['name'])))
        for s in f['structs']:
            out.append(dict(name=s['name'], dir=p, module=snake(s['name'])))
        for pk in f['packets']:
            n = pk['family'] + pk['action'] + ('ClientPacket' if p == 'net/client' else 'ServerPacket')
            out.append(dict(name=n, dir=p, module=snake(n)))
    return out


def run(tier):
    C = Check('C20', tier)
    C.prove('Properties/C20.v')
    C.cov['tie']['src/eolib/**/__init__.py + generated package'] = ('correspondence-only (CPython\'s import system is the oracle): fresh interpreters, each importing a different eolib module first, '
                                                                   'dump module identity along every dotted path and object identity of every public name; the import programs of the static '
                                                                   '__init__ files are re-extracted from the source on every run and must equal the skeleton the theorems are about')
    quick = tier == 'quick'
    trees, rng = build_trees(C, 10 if quick else 120)
    runner = GenRunner(C.scratch, workers=8)
    entries = []
    for t in trees:
        firsts = FIRSTS if (not quick or t['name'].startswith('mini-eo')) else ['eolib'] + rng.sample(FIRSTS[1:], 5)
        entries.append(dict(name=t['name'], tree=t['tree'], jobs=[dict(op='namespace', declared=declared(t['tree']), firsts=firsts, hashseed=rng.randrange(0, 1000))]))
    run_entries(C, runner, entries)
    nprobe = npaths = 0
    for e in entries:
        r = e['result']
        if not r.get('accepted'):
            continue
        for out in r.get('results', []):
            for pr in out.get('probes', []):
                nprobe += 1
                npaths += len(pr.get('modules', []))
                if pr['errors']:
                    C.violation(f"tree '{e['name']}': importing {pr['first']} first, then eolib, failed: {pr['errors'][0]}",
                                dict(unit='eolib package', input=dict(tree=e['name'], first_import=pr['first'], xml=tree_xml(e['tree']))))
                for m in pr['path_mismatches'][:1]:
                    C.violation(f"tree '{e['name']}', first import {pr['first']}: documented module path {m['path']} "
                                f"{'resolves to ' + m['resolves_to'] if 'resolves_to' in m else 'is not reachable (' + m.get('why', '') + ')'}",
                                dict(unit='eolib package', input=dict(tree=e['name'], first_import=pr['first'], path=m['path'], xml=tree_xml(e['tree']))),
                                key='F5-submodules-shadowed-by-star-imports')
                for m in pr['name_mismatches'][:1]:
                    C.violation(f"tree '{e['name']}', first import {pr['first']}: public name {m['name']} defined in {m['defined_in']} is not that object in {m.get('looked_up_in')}: {m.get('got', m.get('why'))}",
                                dict(unit='eolib package', input=dict(tree=e['name'], first_import=pr['first'], name=m['name'], xml=tree_xml(e['tree']))))
    C.stream('oracle.namespace-probes', nprobe, nprobe, sample=dict(tree=entries[0]['name'], firsts=entries[0]['jobs'][0]['firsts'][:4]))
    C.cov['distribution'] = dict(fresh_interpreters=nprobe, module_paths_checked=npaths, trees=len(entries))
    extra = getattr(sys.modules[__name__], 'extra_checks', None)
    if extra:
        extra(C, entries)
    return C.finish()


def replay(path):
    print("replay: the replay file names the tree, the first import and the path/name; re-run `./bin/check C20 quick`")
    return 0
