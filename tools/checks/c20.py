"""C20 - The public namespace resolves every documented name to the right object."""
from vlib import *
from genharness import *
from gencheck import *

FIRSTS = ['eolib', 'eolib.data', 'eolib.encrypt', 'eolib.packet', 'eolib.protocol', 'eolib.protocol.net', 'eolib.protocol.map', 'eolib.protocol.pub',
          'eolib.protocol.net.client', 'eolib.protocol.net.server', 'eolib.protocol.pub.server', 'eolib.protocol.net.packet', 'eolib.data.eo_reader',
          'eolib.encrypt.encryption_utils', 'eolib.packet.sequence_start', 'eolib.protocol.serialization_error', 'eolib.protocol.protocol_enum_meta']


def snake(name):
    r = ""
    for i, c in enumerate(name):
        if i > 0 and c.isupper() and ((i + 1 < len(name) and not name[i + 1].isupper()) or name[i - 1].islower()):
            r += "_"
        r += c.lower()
    return r


def declared(tree):
    out = []
    for p, f in sorted(tree.items()):
        for e in f['enums']:
            out.append(dict(name=e['name'], dir=p, module=snake(e['name'])))
        for s in f['structs']:
            out.append(dict(name=s['name'], dir=p, module=snake(s['name'])))
        for pk in f['packets']:
            n = pk['family'] + pk['action'] + ('ClientPacket' if p == 'net/client' else 'ServerPacket')
            out.append(dict(name=n, dir=p, module=snake(n)))
    return out


def cstmt(st):
    k = st[0]
    if k == 'star':
        return f"SStar {cs(st[1])}"
    if k == 'from':
        return f"SFrom {cs(st[1])} {clist(st[2], lambda ab: f'({cs(ab[0])}, {cs(ab[1])})')}"
    if k == 'import':
        return f"SImport {cs(st[1])} {cs(st[2])} {cs(st[3])}"
    if k == 'def':
        return f"SDef {cs(st[1])}"
    if k == 'all':
        return f"SAll {clist(st[1], cs)}"
    if k == 'rebind':
        return f"SRebind {clist(st[1], cs)}"
    raise ValueError(st)


def cprogram(prog):
    return clist(prog, lambda m: f"({cs(m[0])}, {clist(m[1], cstmt)})")


def model_verdicts(name, items):
    """items: list of (program, [(first, [(pkg, home, name)])]) -> per item, per first: (bad paths, bad name triples) according to Model/PyImport.v"""
    os.makedirs(CASES, exist_ok=True)
    fn = os.path.join(CASES, f"{name}.v")
    with open(fn, 'w') as f:
        f.write("From EO Require Import Prelude.Py Model.Spec Model.PyImport.\nOpen Scope string_scope.\nOpen Scope list_scope.\n")
        for k, (prog, probes) in enumerate(items):
            f.write(f"Definition P{k} : program := {cprogram(prog)}.\n")
            for j, (first, names) in enumerate(probes):
                f.write(f"Eval vm_compute in (match fresh_run 4000 P{k} {cs(first)} with None => ([\"OUT-OF-FUEL\"%string], []) | Some w => (paths_ok_all P{k} w, List.filter (fun t => negb (name_ok w (fst (fst t)) (snd (fst t)) (snd t))) "
                        f"{clist(names, lambda t: f'({cs(t[0])}, {cs(t[1])}, {cs(t[2])})')}) end).\n")
    rc, out = sh(['bash', '-c', f'ulimit -s unlimited 2>/dev/null; exec timeout 900 coqc -Q {COQ} EO -w -all {fn}'], cwd=COQ, timeout=1000)
    if rc != 0:
        raise CoqCaseError(name, fn, out)
    chunks = re.split(r'\n\s*=\s*', '\n' + out)[1:]
    res = []
    for ch in chunks:
        body = ch.split('\n     :')[0]
        # (paths list, triples list)
        depth, split_at = 0, None
        for i, c in enumerate(body):
            if c == '[':
                depth += 1
            elif c == ']':
                depth -= 1
                if depth == 0 and split_at is None:
                    split_at = i
                    break
        paths = re.findall(r'"([^"]*)"', body[:split_at + 1])
        trip = re.findall(r'"([^"]*)"', body[split_at + 1:])
        res.append((sorted(paths), sorted(tuple(trip[i:i + 3]) for i in range(0, len(trip), 3))))
    out_items, k = [], 0
    for prog, probes in items:
        out_items.append(res[k:k + len(probes)])
        k += len(probes)
    if k != len(res):
        raise CoqCaseError(name, fn, out)
    return out_items


def extra_checks(C, entries):
    """the import programs extracted from the real files, run through Model/PyImport.v, must give CPython's verdicts"""
    items, metas = [], []
    for e in entries:
        r = e['result']
        for out in r.get('results', []):
            if out.get('unreadable'):
                # the extractor is fail-closed: a module it cannot read means the model is not tied to this package
                C.cov['tie']['import programs'] = f"NOT extracted (extractor: {out['unreadable'][:2]})"
                C.broken.append(dict(kind='correspondence', stream='import-model', msg=f"tree {e['name']}: import program not extractable: {out['unreadable'][:2]}"))
                continue
            if 'program' not in out:
                continue
            probes = [(pr['first'], [tuple(t) for t in pr.get('names_checked', [])]) for pr in out['probes'] if not pr['errors']]
            items.append(([(m[0], [tuple(x) if not isinstance(x, tuple) else x for x in map(lambda st: tuple(st[:1]) + tuple((tuple(map(tuple, y)) if (isinstance(y, list) and y and isinstance(y[0], list)) else y) for y in st[1:]), m[1])]) for m in out['program']], probes))
            metas.append((e, [pr for pr in out['probes'] if not pr['errors']]))
    if not items:
        return
    try:
        verdicts = model_verdicts('c20', items)
    except CoqCaseError as ex:
        C.broken.append(dict(kind='correspondence', stream='import-model', msg=str(ex)[-800:]))
        return
    n = 0
    for (e, probes), vs in zip(metas, verdicts):
        for pr, (mp, mn) in zip(probes, vs):
            n += 1
            ip = sorted(m['path'] for m in pr['path_mismatches'])
            inn = sorted((m.get('looked_up_in'), m['defined_in'], m['name']) for m in pr['name_mismatches'] if m.get('looked_up_in'))
            if ip != mp or inn != mn:
                C.disagreement('import-model', dict(tree=e['name'], first=pr['first']), model=dict(paths=mp, names=mn[:5]), impl=dict(paths=ip, names=inn[:5]))
    C.stream('corr.import-model', n, n, sample=dict(tree=metas[0][0]['name'], first=metas[0][1][0]['first']))
    C.cov['traces_validated_against_impl'] += n
    C.cov['tie'].setdefault('import programs', 'extracted from every eolib module (static and generated) on this run by tools/impprog.py and evaluated by Model/PyImport.v')


def run(tier):
    C = Check('C20', tier)
    C.prove('Properties/C20.v')
    C.cov['tie']['src/eolib/**/__init__.py + generated package'] = ('correspondence-only (CPython\'s import system is the oracle): fresh interpreters, each importing a different eolib module first, '
                                                                   'dump module identity along every dotted path and object identity of every public name; the import programs of every eolib module '
                                                                   '(static and generated) are re-extracted from the source on every run and evaluated by the model, whose verdicts must equal CPython\'s')
    quick = tier == 'quick'
    trees, rng = build_trees(C, 10 if quick else 120)
    runner = GenRunner(C.scratch, workers=8)
    entries = []
    for t in trees:
        firsts = FIRSTS if not quick else (['eolib', 'eolib.packet', 'eolib.protocol.net.packet'] + rng.sample(FIRSTS[1:], 6 if t['name'].startswith('mini-eo') else 3))
        firsts = list(dict.fromkeys(firsts))
        entries.append(dict(name=t['name'], tree=t['tree'], reuse=(len(entries) % 2 == 1),       # every other package comes from a generator object that generated another tree before
                            jobs=[dict(op='namespace', declared=declared(t['tree']), firsts=firsts, hashseed=rng.randrange(0, 1000))]))
    # a root type using a type of net/client (every reference of the official protocol points the other way): known finding
    up = empty_tree()
    up['net/client']['structs'] += [{'name': 'Inner', 'body': [F('a', 'char')]}]
    up['']['structs'] += [{'name': 'RootHolder', 'body': [F('i', 'Inner')]}]
    up['net/client']['packets'] += [{'family': 'Init', 'action': 'Init', 'body': [F('x', 'char')]}]
    entries.append(dict(name='descendant-reference', tree=up, jobs=[dict(op='namespace', declared=declared(up), firsts=['eolib', 'eolib.protocol.net.client', 'eolib.data'], hashseed=0)]))
    # types named after the directory they live in (their module is <dir>/<dir>.py, their star-exported module attribute is named like the package)
    own = empty_tree()
    own['pub/server']['structs'] += [{'name': 'Server', 'body': [F('a', 'char')]}]
    own['net/client']['structs'] += [{'name': 'Client', 'body': [F('s', 'Server')]}]
    own['map']['structs'] += [{'name': 'Map', 'body': [F('m', 'char')]}]
    own['pub']['structs'] += [{'name': 'Pub', 'body': [F('p', 'char')]}]
    own['net']['structs'] += [{'name': 'Net', 'body': [F('n', 'Pub')]}]
    own['net/client']['packets'] += [{'family': 'Talk', 'action': 'Request', 'body': [F('c', 'Client'), F('n', 'Net')]}]
    own['net/server']['packets'] += [{'family': 'Talk', 'action': 'Request', 'body': [F('m', 'Map')]}]
    entries.append(dict(name='own-directory-names', tree=own, jobs=[dict(op='namespace', declared=declared(own), firsts=FIRSTS if not quick else ['eolib', 'eolib.protocol.pub.server', 'eolib.protocol.net.client', 'eolib.protocol.pub', 'eolib.data'], hashseed=1)]))
    # a type whose module name equals the name of a public function of the library (known finding)
    fn_ = empty_tree()
    fn_['']['structs'] += [{'name': 'Interleave', 'body': [F('a', 'char')]}]
    entries.append(dict(name='function-name-collision', tree=fn_, jobs=[dict(op='namespace', declared=declared(fn_), firsts=['eolib', 'eolib.protocol', 'eolib.encrypt'], hashseed=2)]))
    run_entries(C, runner, entries)
    nprobe = npaths = 0
    for e in entries:
        r = e['result']
        if not r.get('accepted'):
            if 'driver_error' not in r and not e['name'].startswith('random'):
                C.violation(f"tree '{e['name']}' is a valid specification but the generator rejects it: {r.get('error')}",
                            dict(unit='protocol_code_generator', input=dict(tree=e['name'], xml=tree_xml(e['tree']))))
            elif 'driver_error' not in r:
                C.harness_failure('random-tree-rejected', f"tree {e['name']}: {r.get('error')}")
            continue
        for out in r.get('results', []):
            if 'probes' not in out:
                C.harness_failure('namespace-probe', f"tree {e['name']}: no probes in the driver result: {str(out)[:200]}")
            for pr in out.get('probes', []):
                nprobe += 1
                npaths += len(pr.get('modules', []))
                if pr['errors']:
                    C.violation(f"tree '{e['name']}': importing {pr['first']} first, then eolib, failed: {pr['errors'][0]}",
                                dict(unit='eolib package', input=dict(tree=e['name'], first_import=pr['first'], xml=tree_xml(e['tree']))))
                for m in pr['path_mismatches']:
                    C.violation(f"tree '{e['name']}', first import {pr['first']}: documented module path {m['path']} "
                                f"{'resolves to ' + m['resolves_to'] if 'resolves_to' in m else 'is not reachable (' + m.get('why', '') + ')'}",
                                dict(unit='eolib package', input=dict(tree=e['name'], first_import=pr['first'], path=m['path'], xml=tree_xml(e['tree']))),
                                key='F5-submodules-shadowed-by-star-imports')
                for m in pr['name_mismatches']:
                    C.violation(f"tree '{e['name']}', first import {pr['first']}: public name {m['name']} defined in {m['defined_in']} is not that object in {m.get('looked_up_in')}: {m.get('got', m.get('why'))}",
                                dict(unit='eolib package', input=dict(tree=e['name'], first_import=pr['first'], name=m['name'], xml=tree_xml(e['tree']))),
                                key=('names-lost-when-a-type-references-a-descendant-directory' if e['name'] == 'descendant-reference' and m['name'] == 'InitInitClientPacket' else
                                     'type-name-shadows-public-function' if e['name'] == 'function-name-collision' and m['name'] == 'interleave' else None))
    C.stream('oracle.namespace-probes', nprobe, nprobe, sample=dict(tree=entries[0]['name'], firsts=entries[0]['jobs'][0]['firsts'][:4]))
    C.cov['distribution'] = dict(fresh_interpreters=nprobe, module_paths_checked=npaths, trees=len(entries))
    extra = getattr(sys.modules[__name__], 'extra_checks', None)
    if extra:
        extra(C, entries)
    return C.finish()


def replay(path):
    """regenerates the recorded tree and repeats the namespace probes (recorded first import, plus `eolib`) in fresh interpreters"""
    import json
    r = json.load(open(path))
    inp = r.get('input')
    if not isinstance(inp, dict) or 'xml' not in inp:
        return replay_broken(r, 'C20')
    S = Scratch()
    runner = GenRunner(S, workers=1)
    tree = xml_to_tree(inp['xml'])
    firsts = list(dict.fromkeys([inp.get('first_import', 'eolib'), 'eolib', 'eolib.protocol.net.client']))
    res = runner.run([dict(id=0, files=inp['xml'], jobs=[dict(op='namespace', declared=declared(tree), firsts=firsts, hashseed=0)])])[0]
    probs = []
    if not res.get('accepted'):
        probs.append(f"the generator rejects the tree: {res.get('error')}")
    if res.get('import_error'):
        probs.append(f"the package cannot be imported: {res['import_error']}")
    for out in res.get('results', []):
        for pr in out.get('probes', []):
            probs += [f"first import {pr['first']}: {e}" for e in pr['errors']]
            probs += [f"first import {pr['first']}: module path {m['path']} {m.get('resolves_to', m.get('why'))}" for m in pr['path_mismatches']]
            probs += [f"first import {pr['first']}: {m['name']} of {m['defined_in']} is not that object in {m.get('looked_up_in')}: {m.get('got', m.get('why'))}" for m in pr['name_mismatches']]
    print("replay:", probs[0][:400] if probs else "property holds on this input")
    return 1 if probs else 0
