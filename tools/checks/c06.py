"""C06 - Chunk framing isolates chunks from over- and under-reads."""
import itertools
from vlib import *
from dataharness import *

FIELD_KINDS = ['char', 'short', 'three', 'int', 'fixed', 'encfixed']
SURPLUS = [('byte',), ('char',), ('short',), ('three',), ('int',), ('string',), ('enc',), ('bytes', 3), ('fixed', 2, False), ('fixed', 3, True),
           ('fixedenc', 2, False), ('remaining',)]
SURPLUS_OUT = {'byte': ('Z', 0), 'char': ('Z', 0), 'short': ('Z', 0), 'three': ('Z', 0), 'int': ('Z', 0), 'string': ('Str', []), 'enc': ('Str', []),
               'bytes': ('Bytes', []), 'fixed': ('Str', []), 'fixedenc': ('Str', []), 'remaining': ('Z', 0)}


# chunk lists tried first: strings holding RUNS of y-diaeresis (every one of them is a break byte unless sanitised), in each string form,
# followed by chunks whose fields show any shift
CORPUS = [
    [[('fixed', [255, 255])], [('char', 5), ('short', 300)]],
    [[('encfixed', [83, 255, 255, 108, 118])], [('char', 7)]],
    [[('char', 1), ('str', [255, 255, 255])], [('int', 9)]],
    [[('encstr', [255, 65, 255, 255])], [('three', 70000)], [('char', 2)]],
    [[('fixed', [255] * 5)], [('fixed', [255, 121, 255, 255]), ('char', 3)]],
    [[('short', 1), ('encstr', [255] * 4)], [], [('char', 9), ('str', [255, 255])], [('char', 4)]],
]


def write_chunks(wmod, chunks, pollute=False):
    if pollute:
        # the process has already written the same strings elsewhere with sanitisation off (other writers, other packets)
        other = wmod.EoWriter()
        for its in chunks:
            for it in its:
                apply_wop(other, item_wop(it))
    w = wmod.EoWriter()
    w.string_sanitization_mode = True
    for i, its in enumerate(chunks):
        if i:
            w.add_byte(0xFF)
        for it in its:
            apply_wop(w, item_wop(it))
    return list(w.to_bytearray())


def read_chunks(rmod, data, plans, prefix=None):
    if prefix:
        # a reader over the same bytes obtained as a slice of a longer buffer (e.g. packet body after its header)
        r = rmod.EoReader(bytes(prefix + data + [0xFF, 7])).slice(len(prefix), len(data))
    else:
        r = rmod.EoReader(bytes(data))
    r.chunked_reading_mode = True
    outs = []
    for p in plans:
        o = []
        for op in p:
            try:
                x = apply_rop(r, op)
            except Exception as e:
                x = ('Err', exc_class(e))
            o.append(x)
        outs.append(o)
        r.next_chunk()
    return outs


def sanitised_expected(it):
    e = item_expected(it)
    if e[0] == 'Str':
        return ('Str', [cp_image_py(0x79 if c == 0xFF else c) for c in it[1]])
    return e


def gen_chunk(rng):
    n = rng.randrange(0, 6)
    its = [gen_item(rng, False, FIELD_KINDS) for _ in range(n)]
    if rng.random() < 0.4:
        its.append(gen_item(rng, True, ['str', 'encstr']))
    return its


def std_plan(rng, its):
    """any prefix of the chunk's matching reads followed by any number of surplus reads -> (plan, expected outputs)"""
    j = rng.randrange(0, len(its) + 1)
    plan = [item_rop(it) for it in its[:j]]
    exp = [sanitised_expected(it) for it in its[:j]]
    if j == len(its):
        for _ in range(rng.choice([0, 0, 1, 2, 4])):
            op = rng.choice(SURPLUS)
            plan.append(op)
            exp.append(SURPLUS_OUT[op[0]])
    return plan, exp


def run(tier):
    C = Check('C06', tier)
    C.prove('Properties/C06.v', units=['G_eo_numeric_limits', 'G_number_encoding_utils', 'G_string_encoding_utils', 'G_eo_reader', 'G_eo_writer'], bridges={'Bridge/B_reader.v': ['G_eo_numeric_limits', 'G_number_encoding_utils', 'G_string_encoding_utils', 'G_eo_reader'], 'Bridge/B_writer.v': ['G_eo_numeric_limits', 'G_number_encoding_utils', 'G_string_encoding_utils', 'G_eo_writer']})
    wmod, rmod = load_leaf(C.scratch.src, 'eolib.data.eo_writer', 'eolib.data.eo_reader')
    rng = C.rng
    cases = []
    n = 500 if tier == 'quick' else 6000
    nprefix = nsurplus = narb = 0
    for t in range(n):
        chunks = [list(c) for c in CORPUS[t]] if t < len(CORPUS) else [gen_chunk(rng) for _ in range(rng.randrange(1, 7))]
        data = write_chunks(wmod, chunks, pollute=(t % 3 == 1))
        std = [std_plan(rng, its) for its in chunks]
        plans = [p for p, _ in std]
        arbitrary = t % 4 == 3
        prefix = [[], [1, 2], [0xFF, 3, 0xFF], [5]][t % 4] if t % 2 else None
        if arbitrary:   # arbitrary reads instead of the matching ones
            plans = [[rng.choice(SURPLUS) for _ in range(rng.randrange(0, 7))] for _ in chunks]
            narb += 1
        outs = read_chunks(rmod, data, plans, prefix)
        cases.append(((chunks, plans), (data, outs)))
        if C.violations:
            continue
        # (1) no break byte inside any chunk's bytes: the data has exactly len(chunks)-1 breaks
        if data.count(0xFF) != len(chunks) - 1:
            C.violation(f"chunks {chunks}: the written data {data} contains {data.count(0xFF)} break bytes for {len(chunks)} chunks",
                        dict(unit='eo_writer', input=dict(chunks=[[list(i) for i in c] for c in chunks])))
            continue
        # (2) prefix reads return the fields, surplus reads return 0 / empty
        if not arbitrary:
            for k, ((p, exp), o) in enumerate(zip(std, outs)):
                nprefix += 1
                nsurplus += len(p) > len(chunks[k])
                if o != exp:
                    C.violation(f"chunk #{k} of {chunks} read with plan {p} gave {o}, expected {exp}",
                                dict(unit='eo_reader', input=dict(chunks=[[list(i) for i in c] for c in chunks], plans=[[list(o) for o in q] for q in plans])))
                    break
        # (3) isolation: what chunk k's plan sees does not depend on the other chunks' plans
        k = rng.randrange(len(chunks))
        alt = [plans[i] if i == k else rng.choice([[], [item_rop(it) for it in chunks[i]], [rng.choice(SURPLUS) for _ in range(9)]]) for i in range(len(chunks))]
        outs2 = read_chunks(rmod, data, alt, prefix)
        if outs2[k] != outs[k] and not C.violations:
            C.violation(f"chunk #{k} of {chunks}: plan {plans[k]} returned {outs[k]} under plans {plans} but {outs2[k]} under plans {alt}",
                        dict(unit='eo_reader', input=dict(chunks=[[list(i) for i in c] for c in chunks], plans=[[list(o) for o in q] for q in plans], alt=[[list(o) for o in q] for q in alt])))
    nt = lambda c: len(c[0][0]) > 1 and any(len(p) > 0 for p in c[0][1])
    C.stream('oracle.chunks', len(cases), len({repr(c[0]) for c in cases if nt(c)}),
             sample=dict(chunks=[[list(i) for i in c] for c in cases[3][0][0]], plans=[[list(o) for o in q] for q in cases[3][0][1]]))
    C.cov['distribution'] = dict(cases=len(cases), chunk_plans_checked=nprefix, with_surplus_reads=nsurplus, arbitrary_plan_cases=narb,
                                 chunks=sum(len(c[0][0]) for c in cases), fields=sum(len(x) for c in cases for x in c[0][0]))
    term = lambda c: (f"({clist(c[0][0], lambda ch: clist(ch, citem))}, {clist(c[0][1], lambda p: clist(p, crop))}, "
                      f"({clist(c[1][0])}, {clist(c[1][1], lambda o: clist(o, crout))}))")
    specs = [dict(label='M.chunks_run', ty='list (list item) * list (list rop) * (list Z * list (list rout))', cases=cases, term=term, chk="chunks_check", nontrivial=nt)]
    corr_streams(C, 'c06', specs, "From EO Require Import Model.Writer Model.Reader Model.Items Model.Harness.\n")

    def search():
        r2 = random.Random(777)
        for _ in range(20000):
            chunks = [gen_chunk(r2) for _ in range(r2.randrange(1, 4))]
            data = write_chunks(wmod, chunks)
            std = [std_plan(r2, its) for its in chunks]
            outs = read_chunks(rmod, data, [p for p, _ in std])
            for k, ((p, exp), o) in enumerate(zip(std, outs)):
                if o != exp:
                    return C.violation(f"chunk #{k} of {chunks} read with plan {p} gave {o}, expected {exp}",
                                       dict(unit='eo_reader', input=dict(chunks=[[list(i) for i in c] for c in chunks], plans=[[list(o) for o in q] for q, _ in std])))
    return C.finish(search=search)


def replay(path):
    """re-writes the recorded chunks, re-reads them with the recorded plans (over a stand-alone buffer and as a slice of a longer one) and
    decides with the independent transcription of the documented chunked-reading model (dataharness.SpecReader)"""
    import json
    r = json.load(open(path))
    inp = r.get('input')
    if not inp or 'chunks' not in inp:
        return replay_broken(r, 'C06')
    s = Scratch()
    wmod, rmod = load_leaf(s.src, 'eolib.data.eo_writer', 'eolib.data.eo_reader')
    chunks = [[tuple(i) for i in c] for c in inp['chunks']]
    why = None
    for pollute in (False, True):
        data = write_chunks(wmod, chunks, pollute=pollute)
        if data.count(0xFF) != len(chunks) - 1:
            why = f"the written data {data} contains {data.count(0xFF)} break bytes for {len(chunks)} chunks"
            break
        for key in ('plans', 'alt'):
            if key not in inp or why:
                continue
            plans = [[tuple(o) for o in p] for p in inp[key]]
            for prefix in ([], [1, 2], [0xFF, 3, 0xFF]):
                # one reader over prefix+data+junk; handle 1 = its slice covering exactly the data
                whole = prefix + data + [0xFF, 7]
                ops = [(0, ('slice', len(prefix), len(data))), (1, ('setchunked', True))]
                for pl in plans:
                    ops += [(1, op) for op in pl] + [(1, ('nextchunk',))]
                w = reader_oracle(whole, ops, run_reader(rmod, whole, ops))
                if w:
                    why = w
                    break
            # the matching reads return what was written
            outs = read_chunks(rmod, data, plans)
            for k, (its, pl, o) in enumerate(zip(chunks, plans, outs)):
                m = 0
                while m < len(its) and m < len(pl) and tuple(pl[m]) == tuple(item_rop(its[m])):
                    m += 1
                if m == len(pl) or m == len(its):
                    exp = [sanitised_expected(it) for it in its[:m]]
                    if o[:m] != exp and not why:
                        why = f"chunk #{k}: matching reads returned {o[:m]}, written {exp}"
    print("replay:", why or "property holds on this input")
    return 1 if why else 0
