"""Reproduction of the `_differs` examples 1-5 of coq/Proofs/RenderDeser.v on the REAL generator: a tree whose structs have fields named
like the local variables of the generated `deserialize` (i, <array>_length, reader_start_position, old_chunked_reading_mode,
byte_size; result and a late `i` are harmless; reader / bytes / int / range break the method).  The tree is accepted; the generated
deserializers are run on a few bytes and the tree is sent through render_stream (5 classes 'outside the theorem', 4 unparsed, 2 clean).

usage: render_name_collisions.py [substring of a generated file to print ...]"""
import json, os, sys
sys.path.insert(0, os.path.dirname(os.path.abspath(__file__)))
from vlib import *
from genharness import *
from gencheck import *

def tree():
    t = empty_tree()
    t['']['structs'] += [
        {'name': 'LoopVar', 'body': [F('i', 'char'), A('xs', 'char', length='2')]},
        {'name': 'RemLen', 'body': [F('xs_length', 'char'), A('xs', 'char')]},
        {'name': 'StartPos', 'body': [F('reader_start_position', 'char'), F('b', 'char')]},
        {'name': 'OldMode', 'body': [F('old_chunked_reading_mode', 'char'), F('b', 'char')]},
        {'name': 'ByteSize', 'body': [F('byte_size', 'char'), F('b', 'char')]},
        {'name': 'ResultName', 'body': [F('result', 'char'), F('b', 'char')]},
        {'name': 'LoopVarAfter', 'body': [A('xs', 'char', length='2'), F('i', 'char')]},
        {'name': 'ReaderName', 'body': [F('reader', 'char'), F('b', 'char')]},
        {'name': 'BytesName', 'body': [F('bytes', 'char'), F('b', 'blob')]},
        {'name': 'IntName', 'body': [F('int', 'char'), A('xs', 'char')]},
        {'name': 'RangeName', 'body': [F('range', 'char'), A('xs', 'char', length='2')]},
    ]
    return t

cases = [('LoopVar', [8, 3, 4]), ('RemLen', [8, 3, 4]), ('StartPos', [8, 3]), ('OldMode', [8, 3]), ('ByteSize', [8, 3]),
         ('ResultName', [8, 3]), ('LoopVarAfter', [3, 4, 8]), ('ReaderName', [8, 3]), ('BytesName', [8, 3]), ('IntName', [8, 3, 4]),
         ('RangeName', [8, 3, 4])]
S = Scratch()
R = GenRunner(S, workers=1)
t = tree()
jobs = [dict(op='deser', cls=c, data=d, chunked=False) for c, d in cases]
res = R.run([dict(id=0, files=tree_xml(t), jobs=jobs, seed=0, want_sources=True)])
r = res[0]
print('accepted:', r.get('accepted'), r.get('error'))
for (c, d), o in zip(cases, r.get('results', [])):
    print(c, d, '->', json.dumps(o)[:400])
if len(sys.argv) > 1:
    for p, src in r['sources'].items():
        if any(k in p for k in sys.argv[1:]):
            print('=====', p); print(src)

entries = [dict(name='name-collisions', tree=t, result=r)]
problems = render_stream(None, entries, 'nc')
print(render_stream.last)
for p in problems:
    print('PROBLEM', p['cls'], p['what'], p.get('method'), p.get('why'))
