"""Shared driver of the generator checks: builds specification trees (corpus + random), runs the real generator and the
generated code through gen_driver.py, compares with the Coq reference semantics (E1), and turns disagreements into
violations with replayable inputs."""
import copy
import hashlib
import json
import os
from vlib import *
from genharness import *
import minieo


def classes_of(tree):
    """top-level generated classes with their bodies: structs and packets"""
    out = []
    for p, f in sorted(tree.items()):
        for st in f['structs']:
            out.append((st['name'], st['body']))
        for pk in f['packets']:
            if p in ('net/client', 'net/server'):
                out.append((pk['family'] + pk['action'] + ('ClientPacket' if p == 'net/client' else 'ServerPacket'), pk['body']))
    return out


def all_classes_of(tree):
    """top-level classes and, recursively, the public case-data classes nested in them"""
    out = []

    def walk(cls, body):
        out.append((cls, body))
        for i in flat_body(body):
            if i['tag'] == 'switch':
                for c in i['cases']:
                    if c['body']:
                        suffix = 'Default' if str(c['attrs'].get('default', '')).lower() == 'true' else c['attrs'].get('value')
                        if suffix is not None:
                            walk(f"{cls}.{pascal(i['attrs']['field'])}Data{suffix}", c['body'])
    for cls, body in classes_of(tree):
        walk(cls, body)
    return out


def build_trees(C, n_random, wire_ok=False, corpus=True, seed_shift=0):
    rng = random.Random(C.seed * 1000003 + seed_shift + sum(map(ord, C.pid)))
    G = SpecGen(rng, wire_ok=wire_ok)
    trees = []
    if corpus:
        for name, t in minieo.corpus():
            trees.append(dict(name=name, tree=t))
        trees.append(dict(name='mini-eo-features+explicit-defaults', tree=explicit_defaults(dict(minieo.corpus())['mini-eo-features'], rng)))
    for k in range(n_random):
        t = G.tree()
        # a third of the random trees spell every boolean attribute's default explicitly (optional="false", default="False", ...)
        if k % 3 == 2:
            t = explicit_defaults(t, rng)
        trees.append(dict(name=f"random-{k}" + ('+explicit' if k % 3 == 2 else ''), tree=t))
    C.cov['feature_matrix'] = dict(sorted(G.features.items()))
    return trees, rng


def run_entries(C, runner, entries, env_extra=None):
    """entries: list of dict(name, tree, jobs, [seed]) -> adds 'result'"""
    payload = [dict(id=k, files=tree_xml(e['tree']), jobs=e.get('jobs', []), seed=e.get('seed', k), want_sources=e.get('want_sources', False), reuse=e.get('reuse', False))
               for k, e in enumerate(entries)]
    t0 = time.time()
    res = runner.run(payload, env_extra=env_extra)
    log(f"[{C.pid}] real generator + generated code on {len(payload)} trees: {time.time() - t0:.1f}s")
    for k, e in enumerate(entries):
        e['result'] = res.get(k, {'driver_error': 'missing'})
        if 'driver_error' in e['result']:
            C.harness_failure('driver', f"tree {e['name']}: no result from the driver: {e['result']['driver_error'][:300]}")
        outs = e['result'].get('results', [])
        if e['result'].get('accepted') and not e['result'].get('import_error') and len(outs) != len(e.get('jobs', [])):
            C.harness_failure('driver', f"tree {e['name']}: {len(outs)} results for {len(e.get('jobs', []))} jobs")
        for job, out in zip(e.get('jobs', []), outs):
            if 'harness_error' in out:
                C.harness_failure('job', f"tree {e['name']}, {job.get('op')} {job.get('cls', '')}: {out['harness_error'][:300]}")
            elif 'construct_error' in out and not (job.get('mutant') or job.get('valid') is False or job.get('may_not_construct')):
                # a value produced by the value generator for this class could not even be constructed
                C.harness_failure('construct', f"tree {e['name']}, {job.get('cls', '')}: {out['construct_error']} {out.get('msg', '')[:200]}")
        if e['result'].get('import_error') and e.get('jobs'):
            # an accepted tree whose generated package cannot be imported: nothing of it could be exercised
            if C.pid in ('C18', 'C20'):
                C.violation(f"tree '{e['name']}' was accepted but the generated package cannot be imported: {e['result']['import_error']}",
                            dict(unit='generated package', input=dict(tree=e['name'], xml=tree_xml(e['tree']))))
            else:
                C.broken.append(dict(kind='correspondence', stream='import', msg=f"tree {e['name']}: generated package not importable: {e['result']['import_error'][:300]}"))
        if e['name'].startswith('mini-eo') and '+' not in e['name'] and e['result'].get('accepted') is False:
            # the hand-written corpus is meant to be valid: a rejection is a defect of the corpus or of the generator
            C.violation(f"corpus tree '{e['name']}' was rejected by the generator: {e['result'].get('error')}",
                        dict(unit='protocol_code_generator', input=dict(tree=e['name'], xml=tree_xml(e['tree']))))
    return entries


def ser_case(job, out):
    return f"GSer {cs(job['cls'])} {cvalue(job['value'])} {cbool(job['san'])} ({cresv(out['res'], None)}, {clist(out['bytes'])}, {cbool(out['mode'])})"


def deser_case(cls, d):
    return f"GDeser {cs(cls)} {clist(d['data'])} {cbool(d['chunked'])} ({cresv(d['res'], cvalue)}, {d['pos']}, {cbool(d['mode'])})"


def compare_entries(C, name, entries, label, want=('ser', 'deser'), max_cases_per_tree=400):
    """Builds the E1 cases from the driver results and evaluates the model. Returns list of mismatch dicts."""
    items, metas = [], []
    for e in entries:
        r = e['result']
        if 'driver_error' in r:
            C.broken.append(dict(kind='correspondence', stream=label, msg=f"driver failed on tree {e['name']}: {r['driver_error']}"))
            continue
        if r.get('import_error'):
            e['import_error'] = r['import_error']
        cases, cm = [], []
        for job, out in zip(e.get('jobs', []), r.get('results', [])):
            if 'harness_error' in out:
                C.broken.append(dict(kind='correspondence', stream=label, msg=f"harness error on tree {e['name']}: {out['harness_error']}"))
                continue
            if 'res' not in out:
                continue      # construction failed: not an object of the class
            if 'ser' in want and job['op'] == 'ser' and not job.get('pre'):
                cases.append(ser_case(job, out))
                cm.append(dict(kind='ser', job=job, out={k: v for k, v in out.items() if k != 'deser'}))
            if 'deser' in want:
                for d in out.get('deser', []):
                    if d.get('heavy'):
                        continue
                    cases.append(deser_case(job['cls'], d))
                    cm.append(dict(kind='deser', cls=job['cls'], out=d))
        if len(cases) > max_cases_per_tree:
            idx = sorted(C.rng.sample(range(len(cases)), max_cases_per_tree))
            cases, cm = [cases[i] for i in idx], [cm[i] for i in idx]
        items.append((e['tree'], bool(r.get('accepted')), cases))
        metas.append((e, cm))
    try:
        t0 = time.time()
        fails = run_tree_cases(name, items)
        log(f"[{C.pid}] E1 ({label}): {sum(len(i[2]) for i in items)} cases on {len(items)} trees in {time.time() - t0:.1f}s")
    except CoqCaseError as ex:
        C.broken.append(dict(kind='correspondence', stream=label, msg=str(ex)[-800:]))
        return []
    mism = []
    ncases = 0
    for (e, cm), (tree, acc, cases), f in zip(metas, items, fails):
        ncases += len(cases)
        if not f:
            continue
        if f == [-1]:
            mism.append(dict(kind='accept', entry=e, accepted=acc, error=e['result'].get('error')))
        else:
            for i in f[:3]:
                mism.append(dict(kind=cm[i]['kind'], entry=e, case=cm[i], term=cases[i]))
    nt = sum(1 for (e, cm) in metas for c in cm if (c['kind'] == 'ser' and c['out']['bytes']) or (c['kind'] == 'deser' and c['out']['data']))
    # every tree also contributes one comparison of its own: the generator's accept / reject verdict against the reference elaboration
    C.stream('corr.' + label, ncases + len(items), nt + len(items), sample=(metas[0][1][0] if metas and metas[0][1] else None))
    C.cov['traces_validated_against_impl'] += ncases + len(items)
    C.cov.setdefault('trees', {})[label] = dict(trees=len(items), accepted=sum(1 for i in items if i[1]), cases=ncases)
    return mism


def report_mismatch(C, m, what_prefix):
    """A disagreement between the generated code and the reference semantics on a concrete input."""
    e = m['entry']
    xml = tree_xml(e['tree'])
    if m['kind'] == 'accept':
        what = (f"{what_prefix}: the generator {'accepted' if m['accepted'] else 'rejected (' + str(m['error'])[:150] + ')'} specification tree "
                f"'{e['name']}' but the eo-protocol reference elaboration {'rejects' if m['accepted'] else 'accepts'} it")
        C.violation(what, dict(unit='protocol_code_generator', input=dict(tree=e['name'], xml=xml)))
        return
    shown = show_case(C.pid.lower(), e['tree'], m['term'])
    c = m['case']
    if m['kind'] == 'ser':
        what = (f"{what_prefix}: {c['job']['cls']}.serialize (tree '{e['name']}', entry sanitisation {c['job']['san']}) produced "
                f"{c['out']['res']} bytes={c['out']['bytes']} final mode={c['out']['mode']}; the reference semantics gives: {shown[-400:]}")
        C.violation(what, dict(unit='generated serialize', input=dict(tree=e['name'], xml=xml, cls=c['job']['cls'], value=c['job']['value'], san=c['job']['san']),
                               observed=c['out'], model=shown))
    else:
        what = (f"{what_prefix}: {c['cls']}.deserialize (tree '{e['name']}') on bytes {c['out']['data']} (chunked entry {c['out']['chunked']}) gave "
                f"{json.dumps(c['out']['res'])[:300]} position={c['out']['pos']} mode={c['out']['mode']}; the reference semantics gives: {shown[-400:]}")
        C.violation(what, dict(unit='generated deserialize', input=dict(tree=e['name'], xml=xml, cls=c['cls'], data=c['out']['data'], chunked=c['out']['chunked']),
                               observed=c['out'], model=shown))


def explicit_defaults(tree, rng, spell=None):
    """the same tree with every absent boolean attribute spelled out with its default value"""
    t = copy.deepcopy(tree)
    F_ = spell or (lambda: rng.choice(['false', 'False', 'FALSE']))
    T_ = lambda: rng.choice(['true', 'True'])

    def walk(body):
        for i in body:
            a = i.get('attrs')
            if i['tag'] == 'field':
                a.setdefault('optional', F_())
                a.setdefault('padded', F_())
            elif i['tag'] == 'array':
                a.setdefault('optional', F_())
                a.setdefault('delimited', F_())
                a.setdefault('trailing-delimiter', T_())
            elif i['tag'] == 'length':
                a.setdefault('optional', F_())
            elif i['tag'] == 'chunked':
                walk(i['body'])
            elif i['tag'] == 'switch':
                for c in i['cases']:
                    c['attrs'].setdefault('default', F_())
                    walk(c['body'])
    for f in t.values():
        for s in f['structs']:
            walk(s['body'])
        for p in f['packets']:
            walk(p['body'])
    return t


def src_digest(sources):
    h = hashlib.sha256()
    for k in sorted(sources):
        h.update(k.encode())
        h.update(sources[k].encode())
    return h.hexdigest()


# ------------------------------------------------------------------------------------------------ C01 helpers
def strip_bs(v):
    if v is None:
        return None
    if 'l' in v:
        return {'l': [strip_bs(x) for x in v['l']]}
    if 'o' in v:
        return {'o': v['o'], 'f': [[k, strip_bs(x)] for k, x in v['f'] if k != 'byte_size']}
    if 'e' in v:
        return {'i': v['v']}
    return v


def impl_roundtrip_ok(job, out):
    """did the generated code round-trip this object? (serialize ok, deserialize ok, equal field by field, all consumed, byte_size = length)"""
    if 'res' not in out or out['res'][0] != 'ok' or not out.get('deser'):
        return False
    d = out['deser'][0]
    if d['res'][0] != 'ok' or d['data'] != out['bytes']:
        return False
    obj = d['res'][1]
    bs = dict((k, v) for k, v in obj['f']).get('byte_size')
    return strip_bs(obj) == strip_bs(job['value']) and d['pos'] == len(out['bytes']) and bs == {'i': len(out['bytes'])}


def run_c01_cases(name, items, timeout=900):
    """items: list of (tree, [(cls, value, impl_ok)]) -> list of (n_in_domain, failing_in_domain, disagreeing)"""
    os.makedirs(CASES, exist_ok=True)
    PER = 10
    files = []
    for off in range(0, len(items), PER):
        fn = os.path.join(CASES, f"{name}_{off // PER}.v")
        with open(fn, 'w') as f:
            f.write("From EO Require Import Prelude.Py Prelude.Corr Model.Spec Model.Elab Model.GenHarness Model.GenHarnessB.\nOpen Scope string_scope.\nOpen Scope list_scope.\nOpen Scope Z_scope.\n")
            for k, (tree, cases) in enumerate(items[off:off + PER]):
                f.write(f"Definition t{k} : list rfile := {coq_tree(tree)}.\n")
                f.write(f"Definition c{k} : list (string * value * bool) :=\n  [" + ";\n   ".join(f"({cs(c)}, {cvalue(v)}, {cbool(ok)})" for c, v, ok in cases) + "].\n")
                f.write(f"Eval vm_compute in (tree_c01B t{k} c{k}).\n")
        files.append((fn, off, min(PER, len(items) - off)))
    results = [None] * len(items)
    procs = []
    for fn, off, n in files:
        while len([p for p in procs if p[0].poll() is None]) >= 4:
            time.sleep(0.05)
        p = subprocess.Popen(['bash', '-c', f'ulimit -s unlimited 2>/dev/null; exec timeout {timeout} coqc -Q {COQ} EO -w -all {fn}'], stdout=subprocess.PIPE, stderr=subprocess.STDOUT, text=True, cwd=COQ)
        procs.append((p, fn, off, n))
    for p, fn, off, n in procs:
        out, _ = p.communicate()
        if p.returncode != 0:
            raise CoqCaseError(name, fn, out)
        ms = re.findall(r'=\s*\((-?\d+),\s*(-?\d+),\s*(\[[^\]]*\])\s*(?:%Z)?,\s*(\[[^\]]*\])\s*(?:%Z)?\)', out, flags=re.S)
        if len(ms) != n:
            raise CoqCaseError(name, fn, out)
        for k, (a, a0, b, c) in enumerate(ms):
            results[off + k] = (int(a), [int(x) for x in re.findall(r'-?\d+', b)], [int(x) for x in re.findall(r'-?\d+', c)], int(a0))
    return results


# ------------------------------------------------------------------------------------------------ replay
def gen_replay(path):
    """Re-run the recorded input (specification XML + class + object / bytes) on the current /repo working tree and decide it against the
    reference semantics (Model/Elab.v, Ser.v, Deser.v evaluated by coqc): exit 1 while the implementation still differs from what the
    specification prescribes on this input (or the generated package is unusable), 0 once it agrees."""
    r = json.load(open(path))
    inp = r.get('input', {})
    if not isinstance(inp, dict) or 'xml' not in inp:
        return replay_broken(r, r.get('property', 'C02'))
    S = Scratch()
    runner = GenRunner(S, workers=1)
    jobs = []
    if inp.get('value') is not None and 'cls' in inp:
        jobs.append(dict(op='ser', cls=inp['cls'], value=inp['value'], san=bool(inp.get('san', False)), then_deser=True, mutants=0, fail_at=inp.get('fail_at'), fail_base=inp.get('fail_base')))
    if inp.get('data') is not None and 'cls' in inp:
        jobs.append(dict(op='deser', cls=inp['cls'], data=inp['data'], chunked=bool(inp.get('chunked', False)), fail_at=inp.get('fail_at'), fail_base=inp.get('fail_base')))
    res = runner.run([dict(id=0, files=inp['xml'], jobs=jobs or [dict(op='deser', cls='(import only)', data=[], chunked=False)])])[0]
    print("generator:", "accepted" if res.get('accepted') else f"rejected ({res.get('error')})", res.get('import_error', ''))
    still = bool(res.get('import_error')) or 'driver_error' in res
    cases = []
    for job, out in zip(jobs, res.get('results', [])):
        show = {k: v for k, v in out.items() if k != 'deser'}
        print(job['op'], job['cls'], '->', json.dumps(show)[:1200])
        if 'res' not in out:
            continue
        injected = bool(job.get('fail_at'))
        if job['op'] == 'ser':
            if injected:
                still = still or out['mode'] != job['san']          # C15: the mode must be what it was, however the call ended
            else:
                cases.append(ser_case(job, out))
            for d in out.get('deser', [])[:1]:
                print("  then deserialize ->", json.dumps(d)[:1200])
                if not d.get('heavy'):
                    cases.append(deser_case(job['cls'], d))
        elif job['op'] == 'deser':
            if injected:
                still = still or out['mode'] != job['chunked']
            elif not out.get('heavy'):
                cases.append(deser_case(job['cls'], out))
            if out['res'][0] == 'err' and out['res'][1] == 'EFuel':
                still = True
    try:
        fl = run_tree_cases('replay', [(xml_to_tree(inp['xml']), bool(res.get('accepted')), cases)])[0]
        if fl:
            still = True
            print("reference semantics disagrees on:", [('accept/reject' if i < 0 else cases[i][:300]) for i in fl[:3]])
    except CoqCaseError as ex:
        print("could not evaluate the reference semantics:", str(ex)[-300:])
        still = True
    print("recorded:", r.get('what', '')[:400])
    print("replay:", "the implementation still deviates on this input" if still else "property holds on this input (implementation = reference semantics)")
    return 1 if still else 0


# ------------------------------------------------------------------------------------------------ structural tie (translation validation)
def recover_stream(C, entries, name, per_file=40, timeout=600):
    """For every accepted entry that carries result['sources'] (the driver returns them for entries run with want_sources=True
    and no jobs): recover, with tools/gen2instr.py, the instruction lists of serialize / deserialize of every generated class
    from the SOURCE TEXT, and compare them in Coq (Model/Recover.v, vm_compute) with sd_body of the same class in `elab tree`;
    also the generated enum members / packet identities with pk_enums / pk_packets.
    Every Unrecognised statement and every class that differs is reported as a broken correspondence of stream 'recover'.
    Returns the list of problems: dict(tree, cls, what, ...).
    Typical use inside a check (about 8 s for 40 trees / 300 classes, one or two coqc calls):
        src = [dict(name=t['name'], tree=t['tree'], jobs=[], want_sources=True) for t in trees]
        run_entries(C, runner, src)
        recover_stream(C, src, 'c02')"""
    import gen2instr
    t0 = time.time()
    items, problems = [], []
    n_classes = 0
    for e in entries:
        r = e.get('result') or {}
        if not r.get('accepted') or r.get('sources') is None:
            continue
        if e['name'].startswith('mini-eo-literals'):
            continue      # literal text is compared exactly by Recover.v; this tree spells numerals non-canonically on purpose (checked by E1 and by importing)
        try:
            rec = gen2instr.recover_sources(r['sources'])
        except Exception as ex:          # the recogniser itself failed: fail closed
            problems.append(dict(tree=e['name'], cls='<package>', what='recogniser crashed', detail=f"{type(ex).__name__}: {ex}"))
            continue
        bad = set()
        for u in rec['unrecognised']:
            bad.add(u.cls.split('.')[0] if u.method != 'module' else '*')      # an unreadable module: its classes are all missing
            problems.append(dict(tree=e['name'], cls=u.cls, what='unrecognised', method=u.method, lineno=u.lineno, why=u.why, dump=u.dump[:600]))
        try:
            terms = (gen2instr.coq_classes(rec['classes']),
                     clist(sorted(rec['enums'].items()), lambda kv: f"({cs(kv[0])}, {clist(kv[1], lambda nv: f'({cs(nv[0])}, {cz(nv[1])})')})"),
                     clist(rec['packets'], lambda p: f"({cs(p[0])}, {cz(p[1])}, {cz(p[2])})"),
                     coq_tree(e['tree']))
        except (ValueError, AssertionError) as ex:      # text that the Coq terms of this harness cannot carry (non-ASCII): fail closed
            problems.append(dict(tree=e['name'], cls='<package>', what='unrecognised', why=f"not expressible as a Coq term: {ex}"))
            continue
        n_classes += len(rec['classes'])
        items.append((e, rec, terms, bad))
    os.makedirs(CASES, exist_ok=True)
    procs = []
    for off in range(0, len(items), per_file):
        fn = os.path.join(CASES, f"{name}_recover_{off // per_file}.v")
        with open(fn, 'w') as f:
            f.write("From EO Require Import Prelude.Py Prelude.Corr Model.Spec Model.Elab Model.Recover.\n"
                    "Open Scope string_scope.\nOpen Scope list_scope.\nOpen Scope Z_scope.\n")
            for k, (e, rec, terms, bad) in enumerate(items[off:off + per_file]):
                f.write(f"Definition t{k} : list rfile := {terms[3]}.\n")
                f.write(f"Definition r{k} : recovered :=\n  {terms[0]}.\n")
                f.write(f"Eval vm_compute in (recover_detail t{k} r{k}).\n")
                f.write(f"Eval vm_compute in (recover_meta t{k} {terms[1]} {terms[2]}).\n")
        while len([p for p in procs if p[0].poll() is None]) >= 4:
            time.sleep(0.05)
        p = subprocess.Popen(['bash', '-c', f'ulimit -s unlimited 2>/dev/null || ulimit -s 1000000; exec timeout {timeout} coqc -Q {COQ} EO -w -all {fn}'],
                             stdout=subprocess.PIPE, stderr=subprocess.STDOUT, text=True, cwd=COQ)
        procs.append((p, fn, off, min(per_file, len(items) - off)))
    for p, fn, off, n in procs:
        out, _ = p.communicate()
        det = re.findall(r'=\s*(\[.*?\])\s*:\s*list \(string \* string\)', out, flags=re.S)
        meta = re.findall(r'=\s*(\[[^\]]*\])\s*:\s*list string', out, flags=re.S)
        if p.returncode != 0 or len(det) != n or len(meta) != n:
            problems.append(dict(tree='*', cls='<coq>', what='coqc failed on ' + fn, detail=out[-800:]))
            continue
        for k in range(n):
            e, rec, terms, bad = items[off + k]
            for cls, what in re.findall(r'\("([^"]*)",\s*"([^"]*)"\)', det[k]):
                if what == 'missing' and (cls.split('.')[0] in bad or '*' in bad):
                    continue          # already reported as unrecognised
                r = next((c for c in rec['classes'] if c['name'] == cls), None)
                pr = dict(tree=e['name'], cls=cls, what='mismatch: ' + what)
                if r is not None:
                    pr['recovered'] = {s: [gen2instr.coq_instr(i) for i in r[s]] for s in 'SD'}
                problems.append(pr)
            for cls in re.findall(r'"([^"]*)"', meta[k]):
                if cls in bad or '*' in bad:
                    continue          # an unrecognised packet / enum: already reported
                problems.append(dict(tree=e['name'], cls=cls, what='mismatch: enum members / packet identity'))
    # the model's view of the first few mismatching classes, for the report
    shown = 0
    for pr in problems:
        if pr['what'].startswith('mismatch: ') and pr.get('recovered') and shown < 3:
            e = next(x for x in entries if x['name'] == pr['tree'])
            fn = os.path.join(CASES, f"{name}_recover_show.v")
            with open(fn, 'w') as f:
                f.write("From EO Require Import Prelude.Py Prelude.Corr Model.Spec Model.Elab Model.Recover.\n"
                        "Open Scope string_scope.\nOpen Scope list_scope.\nOpen Scope Z_scope.\n")
                f.write(f"Definition t : list rfile := {coq_tree(e['tree'])}.\nEval vm_compute in (recover_show t {cs(pr['cls'])}).\n")
            rc, out = sh(['timeout', '120', 'coqc', '-Q', COQ, 'EO', '-w', '-all', fn], cwd=COQ)
            pr['model'] = re.sub(r'\s+', ' ', out)[-2500:]
            shown += 1
    for pr in problems:
        if pr['what'].startswith('mismatch') or pr['what'] == 'unrecognised':
            C.disagreement('recover', dict(tree=pr['tree'], cls=pr['cls'], what=pr['what'], method=pr.get('method'), lineno=pr.get('lineno'), why=pr.get('why')),
                           model=pr.get('model'), impl=pr.get('recovered') or pr.get('dump'))
        else:
            C.broken.append(dict(kind='correspondence', stream='recover', msg=f"{pr['what']}: {pr.get('detail', '')}"[:1000]))
    C.stream('corr.recover', n_classes, n_classes, sample=(dict(tree=items[0][0]['name'], cls=items[0][1]['classes'][0]['name'],
                                                               S=[gen2instr.coq_instr(i) for i in items[0][1]['classes'][0]['S']])
                                                          if items and items[0][1]['classes'] else None))
    C.cov.setdefault('trees', {})['recover'] = dict(trees=len(items), classes=n_classes, problems=len(problems))
    log(f"[{C.pid}] recover: {n_classes} classes of {len(items)} trees, {len(problems)} problem(s), {time.time() - t0:.1f}s")
    return problems



# ------------------------------------------------------------------------------------------------ semantic tie of `serialize` (statement level)
def render_stream(C, entries, name, per_file=25, timeout=900):
    """For every accepted entry that carries result['sources'] (entries run with want_sources=True): parse, with the GENERIC
    fail-closed parser tools/py2stmt.py, the bodies of `serialize`, `deserialize` AND `__init__` of every generated class into the
    terms of coq/Model/PyStmt.v / coq/Model/PyStmtR.v / coq/Model/RenderInit.v, and check inside Coq (Model/RenderCheck.v,
    Model/RenderCheckD.v, Model/RenderCheckI.v, vm_compute) that they are syntactically equal to `render_serialize`
    (Model/RenderSer.v) / `render_deserialize` (Model/RenderDeser.v) / `render_init` (Model/RenderInit.v) of the same class's body in
    `elab tree` - the functions about which Proofs/RenderSer.v, Proofs/RenderDeser.v and Proofs/RenderInit.v prove: running these
    statements (interpreters of Model/PyStmt.v, Model/PyStmtR.v, Model/RenderInit.v) = Model/Ser.v, Model/Deser.v, and the
    constructor models `init_model` / `ctor_slots` / ObjModel.construct.
    The read-only properties of every class (py2stmt.getters_of) are compared with Model/RenderCheckI.render_getters in the same
    evaluation as `__init__` (what: 'properties').
    Classes whose body is outside a theorem's static side condition are counted separately ('outside the theorem').
    Returns the list of problems: dict(tree, cls, what, ...); problems of the other methods carry method='deserialize' / '__init__' /
    'properties'."""
    import py2stmt
    t0 = time.time()
    items, problems = [], []
    n_classes = n_dclasses = n_iclasses = 0
    for e in entries:
        r = e.get('result') or {}
        if not r.get('accepted') or r.get('sources') is None:
            continue
        if e['name'].startswith('mini-eo-literals'):
            continue      # non-ASCII literal text cannot be carried by the Coq string terms of this harness
        try:
            par = py2stmt.parse_sources(r['sources'])
        except Exception as ex:          # the parser itself failed: fail closed
            problems.append(dict(tree=e['name'], cls='<package>', what='parser crashed', detail=f"{type(ex).__name__}: {ex}"))
            continue
        bad, dbad, ibad = set(), set(), set()
        gbad = set()
        for u in par['gunparsed']:
            gbad.add(u.cls)
            problems.append(dict(tree=e['name'], cls=u.cls, what='unparsed', method='properties', lineno=u.lineno, why=u.why, dump=u.dump[:600]))
        for u in par['iunparsed']:
            ibad.add(u.cls)
            problems.append(dict(tree=e['name'], cls=u.cls, what='unparsed', method='__init__', lineno=u.lineno, why=u.why, dump=u.dump[:600]))
        for u in par['unparsed']:
            bad.add(u.cls)
            problems.append(dict(tree=e['name'], cls=u.cls, what='unparsed', lineno=u.lineno, why=u.why, dump=u.dump[:600]))
        for u in par['dunparsed']:
            dbad.add(u.cls)
            problems.append(dict(tree=e['name'], cls=u.cls, what='unparsed', method='deserialize', lineno=u.lineno, why=u.why, dump=u.dump[:600]))
        try:
            terms = (py2stmt.coq_parsed(par['classes']), coq_tree(e['tree']), py2stmt.coq_parsed(par['dclasses']), py2stmt.coq_parsed(par['iclasses']),
                     py2stmt.coq_parsed(par['gclasses']))
        except (ValueError, AssertionError) as ex:
            problems.append(dict(tree=e['name'], cls='<package>', what='unparsed', why=f"not expressible as a Coq term: {ex}"))
            continue
        n_classes += len(par['classes'])
        n_dclasses += len(par['dclasses'])
        n_iclasses += len(par['iclasses'])
        items.append((e, par, terms, bad, dbad, ibad | {('g', c) for c in gbad}))
    os.makedirs(CASES, exist_ok=True)
    HEAD = ("From EO Require Import Prelude.Py Prelude.Corr Model.Spec Model.Elab Model.PyStmt Model.RenderSer Model.RenderCheck "
            "Model.PyStmtR Model.RenderDeser Model.RenderCheckD Model.RenderInit Model.RenderCheckI.\n"
            "Open Scope string_scope.\nOpen Scope list_scope.\nOpen Scope Z_scope.\n")
    procs = []
    for off in range(0, len(items), per_file):
        fn = os.path.join(CASES, f"{name}_render_{off // per_file}.v")
        with open(fn, 'w') as f:
            f.write(HEAD)
            for k, (e, par, terms, bad, dbad, ibad) in enumerate(items[off:off + per_file]):
                f.write(f"Definition t{k} : list rfile := {terms[1]}.\n")
                f.write(f"Definition p{k} : parsed :=\n  {terms[0]}.\n")
                f.write(f"Eval vm_compute in (render_detail t{k} p{k}).\n")
                f.write(f"Definition q{k} : dparsed :=\n  {terms[2]}.\n")
                f.write(f"Eval vm_compute in (render_detail_d t{k} q{k}).\n")
                f.write(f"Definition r{k} : iparsed :=\n  {terms[3]}.\n")
                f.write(f"Definition g{k} : gparsed :=\n  {terms[4]}.\n")
                f.write(f"Eval vm_compute in (render_detail_i t{k} r{k} ++ render_detail_g t{k} g{k}).\n")
        while len([p for p in procs if p[0].poll() is None]) >= 4:
            time.sleep(0.05)
        p = subprocess.Popen(['bash', '-c', f'ulimit -s unlimited 2>/dev/null || ulimit -s 1000000; exec timeout {timeout} coqc -Q {COQ} EO -w -all {fn}'],
                             stdout=subprocess.PIPE, stderr=subprocess.STDOUT, text=True, cwd=COQ)
        procs.append((p, fn, off, min(per_file, len(items) - off)))
    n_outside = n_doutside = n_ioutside = 0
    outside_d, outside_i = [], []
    for p, fn, off, n in procs:
        out, _ = p.communicate()
        det = re.findall(r'=\s*(\[.*?\])\s*:\s*list \(string \* string\)', out, flags=re.S)
        if p.returncode != 0 or len(det) != 3 * n:
            problems.append(dict(tree='*', cls='<coq>', what='coqc failed on ' + fn, detail=out[-800:]))
            continue
        for k in range(n):
            e, par, terms, bad, dbad, ibad = items[off + k]
            for cls, what in re.findall(r'\("([^"]*)",\s*"([^"]*)"\)', det[3 * k + 2]):
                if (what == 'missing' and cls in ibad) or (what == 'missing properties' and (('g', cls) in ibad or cls in ibad)):
                    continue
                if what == 'outside the theorem':
                    n_ioutside += 1
                    outside_i.append((e['name'], cls))
                    continue
                pr = dict(tree=e['name'], cls=cls, what='mismatch: ' + what, method='__init__')
                pr['parsed'] = dict(par['iclasses']).get(cls)
                problems.append(pr)
            for cls, what in re.findall(r'\("([^"]*)",\s*"([^"]*)"\)', det[3 * k]):
                if what == 'missing' and cls in bad:
                    continue          # already reported as unparsed
                if what == 'outside the theorem':
                    n_outside += 1
                    continue
                pr = dict(tree=e['name'], cls=cls, what='mismatch: ' + what)
                pr['parsed'] = dict(par['classes']).get(cls)
                problems.append(pr)
            for cls, what in re.findall(r'\("([^"]*)",\s*"([^"]*)"\)', det[3 * k + 1]):
                if what == 'missing' and cls in dbad:
                    continue
                if what == 'outside the theorem':
                    n_doutside += 1
                    outside_d.append((e['name'], cls))
                    continue
                pr = dict(tree=e['name'], cls=cls, what='mismatch: ' + what, method='deserialize')
                pr['parsed'] = dict(par['dclasses']).get(cls)
                problems.append(pr)
    shown = 0
    for pr in problems:
        if pr['what'].startswith('mismatch: ') and shown < 3:
            e = next(x for x in entries if x['name'] == pr['tree'])
            fn = os.path.join(CASES, f"{name}_render_show.v")
            with open(fn, 'w') as f:
                f.write(HEAD)
                show = {'deserialize': 'render_show_d', '__init__': 'render_show_i'}.get(pr.get('method'), 'render_show')
                f.write(f"Definition t : list rfile := {coq_tree(e['tree'])}.\nEval vm_compute in ({show} t {cs(pr['cls'])}).\n")
            rc, out = sh(['timeout', '120', 'coqc', '-Q', COQ, 'EO', '-w', '-all', fn], cwd=COQ)
            pr['model'] = re.sub(r'\s+', ' ', out)[-3000:]
            shown += 1
    if C is not None:
        for pr in problems:
            if pr['what'].startswith('mismatch') or pr['what'] == 'unparsed':
                C.disagreement('render', dict(tree=pr['tree'], cls=pr['cls'], what=pr['what'], method=pr.get('method', 'serialize'), lineno=pr.get('lineno'), why=pr.get('why')),
                               model=pr.get('model'), impl=pr.get('parsed') or pr.get('dump'))
            else:
                C.broken.append(dict(kind='correspondence', stream='render', msg=f"{pr['what']}: {pr.get('detail', '')}"[:1000]))
        C.stream('corr.render', n_classes + n_dclasses + n_iclasses, n_classes + n_dclasses + n_iclasses,
                 sample=(dict(tree=items[0][0]['name'], cls=items[0][1]['classes'][0][0], stmts=items[0][1]['classes'][0][1][:600])
                         if items and items[0][1]['classes'] else None))
        C.cov.setdefault('trees', {})['render'] = dict(trees=len(items), classes=n_classes, outside_theorem=n_outside,
                                                       deserialize_methods=n_dclasses, deserialize_outside_theorem=n_doutside,
                                                       init_methods=n_iclasses, init_outside_theorem=n_ioutside, problems=len(problems))
    log(f"[{C.pid if C is not None else '-'}] render: {n_classes} serialize + {n_dclasses} deserialize + {n_iclasses} __init__ methods of {len(items)} trees, "
        f"{n_outside} + {n_doutside} + {n_ioutside} outside the theorems' static side conditions, {len(problems)} problem(s), {time.time() - t0:.1f}s")
    render_stream.last = dict(trees=len(items), classes=n_classes, outside_theorem=n_outside, deserialize_methods=n_dclasses,
                              deserialize_outside_theorem=n_doutside, problems=len(problems), deserialize_outside=outside_d,
                              init_methods=n_iclasses, init_outside_theorem=n_ioutside, init_outside=outside_i)
    return problems
