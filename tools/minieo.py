"""specs/mini-eo: a hand-written stand-in for the (absent) eo-protocol tree, in the shapes the real protocol uses."""
from genharness import F, A, L, D, SW, CASE, CH, BR, empty_tree


def core():
    t = empty_tree()
    root, net, cl, sv, mp, pub, pubs = t[''], t['net'], t['net/client'], t['net/server'], t['map'], t['pub'], t['pub/server']
    root['enums'] += [
        {'name': 'Direction', 'type': 'char', 'values': [('Down', '0'), ('Left', '1'), ('Up', '2'), ('Right', '3')]},
        {'name': 'AdminLevel', 'type': 'char', 'values': [('Player', '0'), ('Spy', '1'), ('LightGuide', '2'), ('Guardian', '3'), ('None', '9')]},
        {'name': 'Gender', 'type': 'char', 'values': [('Female', '0'), ('Male', '1')]},
    ]
    root['structs'] += [
        {'name': 'Coords', 'body': [F('x', 'char'), F('y', 'char')]},
        {'name': 'BigCoords', 'body': [F('x', 'short'), F('y', 'short')]},
        {'name': 'Version', 'body': [F('major', 'char'), F('minor', 'char'), F('patch', 'char')]},
        {'name': 'Weight', 'body': [F('current', 'char'), F('max', 'char')]},
        {'name': 'Item', 'body': [F('id', 'short'), F('amount', 'int')]},
        {'name': 'ThreeItem', 'body': [F('id', 'short'), F('amount', 'three')]},
        {'name': 'EquipmentPaperdoll', 'body': [F('boots', 'short'), F('accessory', 'short'), A('ring', 'short', length='2'), A('armlet', 'short', length='2')]},
        {'name': 'CharacterBaseStats', 'body': [F('str', 'short'), F('intl', 'short'), F('wis', 'short')]},
    ]
    net['enums'] += [
        {'name': 'InitReply', 'type': 'byte', 'values': [('OutOfDate', '1'), ('Ok', '2'), ('Banned', '3'), ('FileEmf', '4'), ('PlayersList', '8')]},
        {'name': 'InitBanType', 'type': 'byte', 'values': [('Temporary', '1'), ('Permanent', '2')]},
        {'name': 'WelcomeCode', 'type': 'short', 'values': [('SelectCharacter', '1'), ('EnterGame', '2'), ('ServerBusy', '3')]},
        {'name': 'SitState', 'type': 'char', 'values': [('Stand', '0'), ('Chair', '1'), ('Floor', '2')]},
    ]
    net['structs'] += [
        {'name': 'Spell', 'body': [F('id', 'short'), F('level', 'short')]},
        {'name': 'ServerSettings', 'body': [F('jail_map', 'short'), F('rescue_map', 'short'), F('rescue_coords', 'Coords'), F('light_guide_flood_rate', 'short'),
                                            F('guardian_flood_rate', 'short')]},
        {'name': 'CharacterMapInfo', 'body': [CH(
            F('name', 'string'), BR, F('player_id', 'short'), F('map_id', 'short'), F('coords', 'BigCoords'), F('direction', 'Direction'),
            F('class_id', 'char'), F('guild_tag', 'string', length='3'), F('level', 'char'), F('gender', 'Gender'), F('sit_state', 'SitState'),
            F('invisible', 'bool'), F('equipment', 'EquipmentPaperdoll'))]},
        {'name': 'OnlinePlayer', 'body': [CH(F('name', 'string'), BR, F('title', 'string'), BR, F(None, 'char', '0'), F('level', 'char'), F('guild_tag', 'string', length='3', padded='true'))]},
        {'name': 'PlayersList', 'body': [CH(L('players_count', 'short'), BR, A('players', 'OnlinePlayer', length='players_count', delimited='true'))]},
        {'name': 'NearbyInfo', 'body': [CH(L('characters_count', 'char'), BR,
                                           A('characters', 'CharacterMapInfo', length='characters_count', delimited='true'),
                                           A('items', 'Item'))]},
    ]
    cl['packets'] += [
        {'family': 'Init', 'action': 'Init', 'body': [F('challenge', 'three'), F('version', 'Version'), F(None, 'char', '112'), L('hdid_length', 'char'),
                                                      F('hdid', 'string', length='hdid_length')]},
        {'family': 'Talk', 'action': 'Request', 'body': [F('message', 'string')]},
        {'family': 'Welcome', 'action': 'Request', 'body': [F('character_id', 'int')]},
        {'family': 'Talk', 'action': 'Reply', 'body': [CH(F('name', 'string'), BR, F('message', 'string'))]},
        {'family': 'Welcome', 'action': 'Init', 'body': [D('byte', '255')]},
    ]
    sv['packets'] += [
        {'family': 'Init', 'action': 'Init', 'body': [
            F('reply_code', 'InitReply'),
            SW('reply_code',
               CASE('OutOfDate', F('version', 'Version')),
               CASE('Ok', F('seq1', 'char'), F('seq2', 'char'), F('server_encryption_multiple', 'char'), F('client_encryption_multiple', 'char'),
                    F('player_id', 'short'), F('challenge_response', 'three')),
               CASE('Banned', F('ban_type', 'InitBanType'),
                    SW('ban_type', CASE('0', F('minutes_remaining', 'byte')), CASE('Temporary', F('minutes_remaining', 'byte')), CASE('Permanent'))),
               CASE('FileEmf', F('content', 'blob')),
               CASE('PlayersList', CH(F('players_list', 'PlayersList'))))]},
        {'family': 'Welcome', 'action': 'Reply', 'body': [
            F('welcome_code', 'WelcomeCode'),
            SW('welcome_code',
               CASE('SelectCharacter', CH(
                   F('session_id', 'short'), F('character_id', 'int'), F('map_id', 'short'), A('map_rid', 'short', length='2'), F('map_file_size', 'three'),
                   BR, F('name', 'string'), BR, F('title', 'string'), BR, F('guild_name', 'string'), BR, F('admin', 'AdminLevel'), F('level', 'char'),
                   F('experience', 'int'), F('stats', 'CharacterBaseStats'), F('equipment', 'EquipmentPaperdoll'), F('settings', 'ServerSettings'),
                   F('login_message_code', 'char'), BR)),
               CASE('EnterGame', CH(
                   BR, A('news', 'string', length='3', delimited='true'), F('weight', 'Weight'), A('items', 'Item'), BR, A('spells', 'Spell'), BR,
                   F('nearby', 'NearbyInfo'))),
               CASE(None, default=True))]},
        {'family': 'Talk', 'action': 'Request', 'body': [F('player_id', 'short'), F('message', 'string')]},
        {'family': 'Talk', 'action': 'Reply', 'body': [CH(F('result', 'short'), F('name', 'string'))]},
        {'family': 'Welcome', 'action': 'Request', 'body': [CH(A('names', 'string', delimited='true', trailing_delimiter='false'))]},
    ]
    mp['enums'] += [{'name': 'MapType', 'type': 'char', 'values': [('Normal', '0'), ('Pk', '3')]}]
    mp['structs'] += [
        {'name': 'MapNpc', 'body': [F('coords', 'Coords'), F('id', 'short'), F('spawn_type', 'char'), F('spawn_time', 'short'), F('amount', 'char')]},
        {'name': 'MapTileSpecRowTile', 'body': [F('x', 'char'), F('tile_spec', 'char')]},
        {'name': 'MapTileSpecRow', 'body': [F('y', 'char'), L('tiles_count', 'char'), A('tiles', 'MapTileSpecRowTile', length='tiles_count')]},
        {'name': 'MapSign', 'body': [F('coords', 'Coords'), L('string_data_length', 'short', offset='1'), F('string_data', 'encoded_string', length='string_data_length'),
                                     F('title_length', 'char')]},
        {'name': 'Emf', 'body': [F(None, 'string', 'EMF', length='3'), A('rid', 'short', length='2'), F('name', 'encoded_string', length='24', padded='true'),
                                 F('type', 'MapType'), F('width', 'char'), F('height', 'char'), F('can_scroll', 'bool'), F('relog_x', 'char'),
                                 L('npcs_count', 'char'), A('npcs', 'MapNpc', length='npcs_count'),
                                 L('tile_spec_rows_count', 'char'), A('tile_spec_rows', 'MapTileSpecRow', length='tile_spec_rows_count'),
                                 L('signs_count', 'char'), A('signs', 'MapSign', length='signs_count')]},
    ]
    pub['enums'] += [{'name': 'ItemType', 'type': 'char', 'values': [('General', '0'), ('Weapon', '10'), ('Shield', '11')]}]
    pub['structs'] += [
        {'name': 'EifRecord', 'body': [L('name_length', 'char'), F('name', 'string', length='name_length'), F('graphic_id', 'short'), F('type', 'ItemType'),
                                       F('hp', 'short'), F('weight', 'char'), F('size', 'char:byte' if False else 'char'), F('spec1', 'three'), F('flag', 'bool:short')]},
        {'name': 'Eif', 'body': [F(None, 'string', 'EIF', length='3'), A('rid', 'short', length='2'), L('total_items_count', 'short'), F('version', 'char'),
                                 A('items', 'EifRecord', length='total_items_count')]},
    ]
    pubs['structs'] += [
        {'name': 'DropRecord', 'body': [F('item_id', 'short'), F('min_amount', 'three'), F('max_amount', 'three'), F('rate', 'short')]},
        {'name': 'DropNpcRecord', 'body': [F('npc_id', 'short'), L('drops_count', 'short'), A('drops', 'DropRecord', length='drops_count')]},
        {'name': 'DropFile', 'body': [F(None, 'string', 'EDF', length='3'), A('npcs', 'DropNpcRecord')]},
    ]
    return t


def features():
    """second tree: the remaining grammar features in isolation"""
    t = empty_tree()
    root = t['']
    root['enums'] += [{'name': 'Kind', 'type': 'char', 'values': [('A', '1'), ('B', '2'), ('C', '7')]},
                      {'name': 'Wide', 'type': 'three', 'values': [('Lo', '0'), ('Hi', '16194276')]}]
    root['structs'] += [
        {'name': 'Pair', 'body': [F('a', 'char'), F('b', 'short')]},
        {'name': 'Named', 'body': [L('n_len', 'char', offset='2'), F('n', 'string', length='n_len'), F('k', 'Kind')]},
        {'name': 'OptTail', 'body': [F('id', 'short'), F('a', 'char', optional='true'), F('s', 'string', optional='true')]},
        {'name': 'OptArr', 'body': [F('id', 'char'), A('xs', 'short', optional='true')]},
        {'name': 'OptArrLen', 'body': [F('id', 'char'), F('q', 'char', optional='true'), A('ps', 'Pair', length='2', optional='true')]},
        {'name': 'OptDummy', 'body': [F('o', 'char', optional='true'), D('short', '5')]},
        {'name': 'ChunkedText', 'body': [F('id', 'char'), CH(F('name', 'string'), BR, F('note', 'string'))]},
        {'name': 'OptChunked', 'body': [CH(F('name', 'string'), BR, F('x', 'char', optional='true'), F('y', 'char', optional='true'), BR, F('z', 'short', optional='true'))]},
        {'name': 'Hard', 'body': [F('magic', 'string', 'EO', length='2'), F('ver', 'char', '3'), F(None, 'short', '1000'), F(None, 'bool', 'true'), F('flag', 'bool:short')]},
        {'name': 'Overrides', 'body': [F('k1', 'Kind:short'), F('k2', 'Kind'), F('w', 'Wide'), F('w2', 'Wide:int'), A('ks', 'Kind:byte', length='2')]},
        {'name': 'Delims', 'body': [CH(A('xs', 'char', delimited='true'), A('ys', 'Pair', delimited='true', trailing_delimiter='false'))]},
        {'name': 'DelimLen', 'body': [CH(L('c', 'char'), A('names', 'string', length='c', delimited='true', trailing_delimiter='false'), BR, F('tail', 'char'))]},
        {'name': 'Rest', 'body': [F('h', 'char'), A('ps', 'Pair')]},
        {'name': 'RestWhile', 'body': [F('h', 'char'), A('ns', 'Named')]},
        {'name': 'Blobby', 'body': [F('h', 'short'), F('data', 'blob')]},
        {'name': 'BlobParts', 'body': [F('h', 'char'), CH(A('parts', 'blob', delimited='true'), F('tail', 'blob'))]},
        {'name': 'PadEnc', 'body': [F('a', 'encoded_string', length='5', padded='true'), F('b', 'string', length='4', padded='true'), F('c', 'encoded_string', length='3')]},
        {'name': 'IntSwitch', 'body': [F('code', 'char'), SW('code', CASE('1', F('p', 'Pair')), CASE('2'), CASE('3', F('s', 'string'))), ]},
        {'name': 'SwitchDefault', 'body': [F('k', 'Kind'), SW('k', CASE('A', F('q', 'short')), CASE('B'), CASE('5', F('r', 'char')), CASE(None, F('z', 'three'), default=True))]},
        {'name': 'NestedChunk', 'body': [F('id', 'char'), CH(F('d', 'Delims'), BR, F('after', 'string'))]},
        {'name': 'CaseChunked', 'body': [F('k', 'Kind'), CH(SW('k', CASE('A', F('name', 'string'), BR, F('n', 'char')), CASE('B', A('vals', 'short', delimited='true'))), F('end', 'char', optional='true'))]},
        {'name': 'OnlyDummy', 'body': [D('short', '5')]},
        # syntactic nesting of chunked sections (directly, and inside a case of a switch that sits in a chunked section): the inner end
        # must not switch the mode off for the rest of the outer section
        {'name': 'NestedSections', 'body': [F('id', 'char'), CH(F('a', 'string'), BR, CH(F('b', 'char'), BR, F('b2', 'string')), BR, F('c', 'string'), BR, F('d', 'byte'), F('e', 'string'))]},
        {'name': 'CaseSection', 'body': [CH(F('k', 'Kind'), SW('k', CASE('A', CH(F('x', 'string'), BR, F('y', 'char')))), BR, F('after', 'string'), BR, F('z', 'byte'), F('tail', 'string'))]},
        # a switch on an OPTIONAL field (the field may be None): empty default, and a default with data
        {'name': 'OptSwitch', 'body': [F('id', 'char'), F('k', 'Kind', optional='true'), SW('k', CASE('A', F('q', 'char', optional='true')), CASE(None, default=True))]},
        {'name': 'OptSwitchData', 'body': [F('id', 'char'), F('n', 'char', optional='true'), SW('n', CASE('1', F('q', 'char', optional='true')), CASE(None, F('z', 'short', optional='true'), default=True))]},
        {'name': 'OptSwitchEnumData', 'body': [F('k', 'Kind', optional='true'), SW('k', CASE('B'), CASE(None, F('z', 'short', optional='true'), default=True))]},
        # a chunked section that holds only struct-typed members (their strings are sanitised all the same)
        # a chunked section holding nothing but FIXED-SIZE structs made of fixed-length strings: sanitised all the same
        {'name': 'Tag3', 'body': [F('t', 'string', length='3'), F('n', 'char')]},
        {'name': 'ChunkOfFixed', 'body': [F('id', 'char'), CH(F('tag', 'Tag3'), A('tags', 'Tag3', length='2'), F('m', 'char')), F('after', 'string', length='2')]},
        # a class without any named member that still has a chunked section (hardcoded strings and breaks), alone and inside another section
        {'name': 'Banner', 'body': [CH(F(None, 'string', 'hi'), BR, F(None, 'string', 'yo'))]},
        {'name': 'BannerHolder', 'body': [F('id', 'char'), CH(F('b', 'Banner'), BR, F('s', 'string'), BR, F('b2', 'Banner'), F('t', 'string'))]},
        # an optional array counted by an optional length field
        {'name': 'LenOptArr', 'body': [F('id', 'char'), L('zs_len', 'char', optional='true'), A('zs', 'short', length='zs_len', optional='true')]},
        # raw bytes and a plain string AFTER a chunked section (0xFF is data there again), and a second section that has a break of its own
        {'name': 'AfterChunk', 'body': [CH(F('s', 'string'), BR, F('n', 'char')), F('b1', 'byte'), F('b2', 'byte'), F('b3', 'byte'), A('bs', 'byte', length='4'), F('t', 'string', length='2')]},
        {'name': 'TwoBreaks', 'body': [CH(F('a', 'string'), BR, F('n', 'char')), F('mid', 'short'), CH(F('b', 'string'), BR, F('c', 'string'))]},
        {'name': 'ChunkOfStructs', 'body': [F('id', 'char'), CH(F('n', 'Named'), F('p', 'PadEnc'), A('ps', 'Named', length='2')), F('after', 'string', length='2')]},
        # struct-typed fields whose class has no named field at all
        {'name': 'Magic', 'body': [F(None, 'string', 'EO', length='2'), F(None, 'char', '9')]},
        {'name': 'HoldsFieldless', 'body': [F('id', 'char'), F('m', 'Magic'), F('d', 'OnlyDummy'), A('ms', 'Magic', length='2')]},
        # fixed-size element structs holding padded / fixed strings, in a length-less array (element count = remaining // size)
        {'name': 'PadRec', 'body': [F('tag', 'string', length='3', padded='true'), F('n', 'char')]},
        {'name': 'PadRecs', 'body': [F('h', 'char'), A('rs', 'PadRec')]},
        # 0xFF-capable plain fields ahead of a chunked section that reads raw bytes, chars and strings
        {'name': 'BytePrefix', 'body': [F('a', 'byte'), F('b', 'char'), CH(F('x', 'byte'), F('y', 'char'), F('z', 'byte'), F('s', 'string'), BR, F('t', 'byte'))]},
        # two sibling chunked sections in one class
        {'name': 'TwoSections', 'body': [F('id', 'char'), CH(F('a', 'string'), BR, F('n', 'char')), F('mid', 'short'), CH(F('b', 'string'))]},
        {'name': 'ArrOfArr', 'body': [L('rows_count', 'char'), A('rows', 'Rest', length='rows_count')] if False else [L('rows_count', 'char'), A('rows', 'Named', length='rows_count')]},
        {'name': 'LenOpt', 'body': [F('id', 'char'), L('t_len', 'char', optional='true'), F('t', 'string', length='t_len', optional='true')]},
        {'name': 'ByteFields', 'body': [F('b', 'byte'), A('bs', 'byte', length='3'), F('t', 'three'), F('i', 'int')]},
    ]
    t['net/client']['packets'] += [{'family': 'Talk', 'action': 'Init', 'body': [F('p', 'Pair'), F('msg', 'string')]}]
    t['net/server']['packets'] += [{'family': 'Talk', 'action': 'Init', 'body': [CH(F('who', 'string'), BR, F('msg', 'string'))]}]
    # one enum used from its own and from sibling directories, each with another underlying type: whichever file the directory walk
    # reaches first, every use keeps its own width
    t['pub']['enums'] += [{'name': 'Tone', 'type': 'char', 'values': [('Low', '1'), ('High', '2')]}]
    t['pub']['structs'] += [{'name': 'PubTone', 'body': [F('tone', 'Tone'), F('t', 'char')]}]
    t['map']['structs'] += [{'name': 'MapTone', 'body': [F('tone', 'Tone:short'), F('t', 'char')]}]
    t['net/server']['structs'] += [{'name': 'SrvTone', 'body': [A('tones', 'Tone:three', length='2'), F('t', 'char')]}]
    return t


def names():
    """third tree: type names that stress the name -> module -> attribute mapping: acronyms, digits, and names whose
    snake_case module collides with a static submodule name of the package (data, encrypt, protocol, net, map, pub, client, server)"""
    t = empty_tree()
    t['']['enums'] += [{'name': 'NPCType', 'type': 'char', 'values': [('Friendly', '0'), ('Aggressive', '1')]}]
    t['']['structs'] += [{'name': 'Vector2D', 'body': [F('x', 'short'), F('y', 'short')]},
                         {'name': 'NPCPosition', 'body': [F('id', 'char'), F('kind', 'NPCType'), F('at', 'Vector2D')]},
                         {'name': 'Data', 'body': [F('a', 'char')]},
                         {'name': 'Client', 'body': [F('d', 'Data')]},
                         {'name': 'Server', 'body': [F('c', 'Client')]}]
    # (a type whose module name equals a sibling DIRECTORY of the generated package - Net/Map/Pub at the root, Client/Server
    #  in net, Server in pub - is shadowed by that directory: see the known finding of C18)
    t['pub']['structs'] += [{'name': 'EIFData', 'body': [F('v', 'Vector2D'), F('name', 'string')]},
                            {'name': 'Protocol', 'body': [F('version', 'char')]},
                            {'name': 'Encrypt', 'body': [F('key', 'char')]},
                            {'name': 'Net', 'body': [F('s', 'Server')]}]
    t['map']['structs'] += [{'name': 'Pub', 'body': [F('p', 'Protocol')]},
                            {'name': 'HTTPServer2Go', 'body': [F('port', 'short'), F('pub', 'Pub'), F('net', 'Net')]}]
    t['net']['structs'] += [{'name': 'Map', 'body': [F('m', 'char'), F('e', 'EIFData')]}]
    # members named like the words an implementation would pick for its own locals and attributes (none of them is a Python keyword or a name
    # the generated code uses today)
    t['']['structs'] += [{'name': 'Span', 'body': [F('start', 'char'), F('end', 'short'), F('size', 'char'), F('length', 'char'), F('position', 'short'), F('value', 'char'),
                                                    F('count', 'char'), F('index', 'char'), F('old', 'char'), F('mode', 'char'), F('name', 'string', length='2'), F('offset', 'char'),
                                                    F('remaining', 'char'), F('chunk', 'char'), F('buffer', 'char'), F('text', 'string')]}]
    # an enum value called None (spelled None_ as a Python member) used as a packet action; directories sharing a leaf name
    # (net/server, pub/server) referencing each other's types
    t['net']['enums'][1]['values'].append(('None', '0'))
    t['pub/server']['structs'] += [{'name': 'ShopRecord', 'body': [F('id', 'short'), F('v', 'Vector2D')]}]
    t['net/client']['packets'] += [{'family': 'Talk', 'action': 'Init', 'body': [F('pos', 'NPCPosition')]},
                                   {'family': 'Talk', 'action': 'None', 'body': [F('x', 'char')]}]
    t['net/server']['packets'] += [{'family': 'Welcome', 'action': 'Reply', 'body': [F('m', 'Map'), F('h', 'HTTPServer2Go')]},
                                   {'family': 'Talk', 'action': 'None', 'body': [F('shop', 'ShopRecord'), F('e', 'EIFData')]}]
    return t


def literals():
    """fourth tree: literal forms - numerals with leading zeros wherever the grammar has a number (hardcoded values, dummies, lengths,
    case values, offsets, enum ordinals) and hardcoded strings containing quotes and backslashes.  The XML says WHICH number / WHICH
    characters; the emitted Python has to say the same."""
    t = empty_tree()
    t['']['enums'] += [{'name': 'LitKind', 'type': 'char', 'values': [('A', '01'), ('B', '2')]}]
    t['']['structs'] += [
        {'name': 'Lits', 'body': [F('v', 'char', '007'), F(None, 'short', '010'), F('s', 'string', length='03'), A('xs', 'char', length='02'),
                                  F('k', 'char'), SW('k', CASE('01', F('y', 'char')), CASE('002')),
                                  L('n', 'char', offset='01'), F('t', 'string', length='n'),
                                  F('e', 'LitKind'), SW('e', CASE('A', F('z', 'char')), CASE('07', F('u', 'char')))]},
        {'name': 'Quoted', 'body': [F('q', 'string', 'a"b', length='3'), F('w', 'string', 'a\\nb', length='4'), F(None, 'string', 'x\\"y', length='4'),
                                    F('p', 'encoded_string', "it's", length='4', padded='true'), F('tail', 'char')]},
        {'name': 'LitDummy', 'body': [D('char', '01')]},
        {'name': 'Spaced', 'body': [F('a', 'string', 'EO  v2', length='6'), F(None, 'string', 'x   y', length='5'), F('b', 'encoded_string', 'p  q', length='4'), F('t', 'char')]},
        # documentation text (<comment>) becomes docstrings: whatever characters it holds, the emitted module must stay valid Python
        {'name': 'Documented', 'comment': 'A "quoted" word, a back\\slash, three quotes """ and a trailing quote "',
         'body': [dict(F('a', 'char'), comment='ends with a backslash \\'), dict(F('b', 'short'), comment='escapes: \\x41 \\N{DASH} \\u00e9 \\1 \\'),
                  dict(A('cs', 'char', length='2'), comment='"""'), dict(L('n', 'char'), comment="it's <b>bold</b> & more"), dict(F('t', 'string', length='n'), comment='line one\n  line "two"\n""'),
                  F('k', 'LitKind'), SW('k', dict(CASE('A', F('z', 'char')), comment='case "A" \\'))]},
        # hardcoded text outside ASCII: a y-diaeresis (the break byte in windows-1252) in a struct that has no chunked section of its own but is
        # serialized inside another struct's chunked section (sanitised there, raw when serialized on its own), and a character outside the
        # Basic Multilingual Plane (one character, one replacement byte)
        {'name': 'HardInner', 'body': [F(None, 'string', 'a\u00ffb', length='3'), F('tag', 'string', '\u00ff\u00e9', length='2'), F('v', 'char')]},
        {'name': 'HardOuter', 'body': [CH(F('inner', 'HardInner'), BR, F(None, 'string', '\u00ffz'), BR, F('t', 'char'))]},
        {'name': 'Astral', 'body': [F(None, 'string', '\U0001f600', length='1'), F(None, 'string', 'x\U0001f600y'), F('t', 'char')]},
        {'name': 'AstralDummy', 'body': [D('string', '\U0001f600')]},
    ]
    t['']['structs'][-4]['comment'] = 'caf\u00e9 \u2014 na\u00efve \u00ff \U0001f600'      # documentation text outside ASCII
    t['']['enums'][-1]['comment'] = 'kinds """ of \\things"'
    t['']['enums'][-1]['value_comments'] = {'A': 'first "', 'B': 'second \\'}
    t['net/client']['packets'] += [{'family': 'Talk', 'action': 'Init', 'comment': 'packet "doc" \\N', 'body': [F('d', 'Documented')]}]
    return t


def corpus():
    return [('mini-eo-core', core()), ('mini-eo-features', features()), ('mini-eo-names', names()), ('mini-eo-literals', literals())]
