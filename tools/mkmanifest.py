#!/usr/bin/env python3
"""Writes /verif/MANIFEST.json from the table below (kept here so the manifest is always valid)."""
import json, os
V = os.path.dirname(os.path.dirname(os.path.abspath(__file__)))
props = [json.loads(l)['id'] for l in open(os.path.join(V, 'properties.jsonl'))]

COMMON_NOTE = ("Trusted: Coq 8.16.1 kernel + VM (vm_compute), no axioms (Print Assumptions: closed); tools/py2coq.py and "
               "coq/Prelude/Py.v (Python semantics of the translated subset); the correspondence harness. ")

CHECKS = {
 'C07': dict(
   text="Coq theorems over ALL integers of the range / ALL byte lists (Properties/C07.v: round trip, wire safety, prefix "
        "decoding, positional formula, injectivity), proved about the model and transported to the source by bridge lemmas "
        "'translated source = model for all inputs' (Bridge/B_number.v) re-proved on every run after py2coq regenerates "
        "coq/Gen from /repo; plus differential correspondence (Python vs model vs translation, E1 vm_compute).",
   technique="Coq proof (lia over Euclidean division) + py2coq translation bridge + vm_compute correspondence",
   note=COMMON_NOTE + "bytes([..]) range check modelled by py_bytes.", ref="8 (C07), 4, 5"),
}
NA_REASON = "check not built yet (build in progress; see DESIGN.md section 12)"

m = dict(version=1, setup_cmd="./bin/setup",
         hooks=dict(guard="EOLIB_VERIF", enable="no source hooks: every observation is through the public API of /repo's working tree (scratch copy per run)",
                    baseline_off_cmd="cd /repo && /venv/bin/python -m pytest -ra -q -p no:cacheprovider --timeout=900 --continue-on-collection-errors",
                    source_commits=[], add_only=True),
         engines=[dict(name="coq", path="coq/", serves_properties=sorted(CHECKS), kind_free_text="Coq 8.16.1 development: Prelude, Model, Proofs, Properties, Bridge; Gen regenerated per run by tools/py2coq.py"),
                  dict(name="E1", path="tools/vlib.py", serves_properties=sorted(CHECKS), kind_free_text="correspondence: implementation outputs written into coq/Cases/*.v and compared with the model by vm_compute")],
         checks=[], not_applicable=[])
for p in props:
    if p in CHECKS:
        c = CHECKS[p]
        m['checks'].append(dict(property_id=p, quick_cmd=f"./bin/check {p} quick", thorough_cmd=f"./bin/check {p} thorough",
                                evidence_file=f"evidence/{p}.json", replay_cmd_template=f"./bin/check {p} --replay {{path}}",
                                engine="coq", level_claimed=dict(category=c.get('category', 'proof'), text=c['text'], design_ref=c['ref']),
                                level_note=c['note'], technique=c['technique']))
    else:
        m['not_applicable'].append(dict(property_id=p, reason=NA_REASON))
json.dump(m, open(os.path.join(V, 'MANIFEST.json'), 'w'), indent=1)
print("manifest:", len(m['checks']), "checks,", len(m['not_applicable']), "not claimed")
