#!/usr/bin/env python3
"""Writes /verif/MANIFEST.json from the table below (kept here so the manifest is always valid)."""
import json, os
V = os.path.dirname(os.path.dirname(os.path.abspath(__file__)))
props = [json.loads(l)['id'] for l in open(os.path.join(V, 'properties.jsonl'))]

COMMON_NOTE = ("Trusted: Coq 8.16.1 kernel + VM (vm_compute), no axioms (Print Assumptions: closed); tools/py2coq.py and "
               "coq/Prelude/Py.v (Python semantics of the translated subset); the correspondence harness. ")

KERNEL_NOTE = ("Trusted: Coq 8.16.1 kernel + VM (vm_compute), no axioms (Print Assumptions: closed); the correspondence harness (no source translation is involved for this property). ")

GEN_NOTE = (COMMON_NOTE + "The generator and the generated code are MODELLED (deep embedding: Model/Spec.v raw XML AST, Model/Elab.v elaboration mirroring the generator's rules, "
   "Model/Ser.v / Model/Deser.v statement-level reference semantics over the writer/reader models) and tied to /repo by running the REAL generator on every "
   "specification tree (hand-written mini-eo corpus + grammar-based random trees with a printed feature matrix) and executing the generated classes; identifier hygiene, "
   "docstrings, HTML unescaping are not modelled. For C01 C02 C03 C15 C16 C19 the emitted code is additionally tied STRUCTURALLY: tools/gen2instr.py (fail-closed, source text only) recovers the "
   "instruction lists of every generated serialize / deserialize / __init__ and Model/Recover.v compares them with the elaboration of the same tree inside Coq, so the theorems about the "
   "elaborated lists apply to the code as emitted for all objects and bytes; trusted there: the recogniser's copy of the templates and Python's ast. For C02 C15 C16 the serialize "
   "methods are moreover parsed generically (tools/py2stmt.py) into the statement language of Model/PyStmt.v, checked in Coq to equal render_serialize (elab tree), and Properties/C02R.v proves "
   "that running those statements is Model/Ser.v; likewise deserialize (Model/PyStmtR.v, Properties/C03R.v: = Model/Deser.v on every byte string) and the constructors / read-only properties (Model/RenderInit.v, Properties/C19R.v: the slots and objects the models assume, frozen instances). Trusted: the generic parser and the three small interpreters of the Python subset. ")

CHECKS = {
 'C07': dict(
   text="Coq theorems over ALL integers of the range / ALL byte lists (Properties/C07.v: round trip, wire safety, prefix "
        "decoding, positional formula, injectivity), proved about the model and transported to the source by bridge lemmas "
        "'translated source = model for all inputs' (Bridge/B_number.v) re-proved on every run after py2coq regenerates "
        "coq/Gen from /repo; plus differential correspondence (Python vs model vs translation, E1 vm_compute).",
   technique="Coq proof (lia over Euclidean division) + py2coq translation bridge + vm_compute correspondence",
   note=COMMON_NOTE + "bytes([..]) range check modelled by py_bytes.", ref="8 (C07), 4, 5"),
 'C08': dict(
   text="Coq theorems over ALL byte lists (Properties/C08.v: length, position-wise round trip in both compositions except 0x7E, "
        "exact shape = reversed per-byte reflection, byte map ranges, 0x00/0xFF neither created nor destroyed), transported to the "
        "translated source by Bridge/B_string.v (loop invariant over the in-place for loop); correspondence incl. the exhaustive "
        "(byte value x position parity x length parity) table.",
   technique="Coq proof (induction on lists, lia on nested ifs) + py2coq bridge + vm_compute correspondence",
   note=COMMON_NOTE + "bytearray element stores assumed in range(256) (true for byte inputs; an out-of-range store would show as an exception in the correspondence).", ref="8 (C08)"),
 'C01': dict(
   text="Coq theorems over ALL environments, classes and objects (Properties/C01.v stage A, Properties/C01B.v stage B incl. chunked sections, breaks, delimited arrays): wire_okB E cls (static "
        "wire-unambiguity computed with the static mode and the continuation End/Break/Other: read-to-the-end items only before a break or the end, optionals last in their segment, dummy alone, "
        "implied-length arrays of fixed-size / progress-making elements, no separating-delimiter array without length before a break, fresh names, length fields referenced by exactly their field) and "
        "valid_objB (in range, cp1252-encodable, no U+00FF where sanitised or padded, no '~' in encoded strings, no 0xFF byte/blob values inside or ahead of chunked sections, no empty optional tail or "
        "empty delimited element, exact shape) imply: serialize succeeds and deserialize of the bytes returns the same object field by field, consumes exactly the bytes, byte_size = count; framed "
        "generalisations for nested classes in either mode; stage A is included in stage B; the lossy-character and framing exclusions have necessity witnesses (objects that do not round-trip); the static check is knowingly conservative beyond them. Tie: generated code round trips on corpus + "
        "random trees; the theorem's domain is decided in Coq per (spec, object) pair, must be non-empty, and model and code must agree on every case inside or outside it.",
   technique="Coq proof (reader invariant valid in both modes with stale-but-valid break cache, frame over the pure wire format, induction on instructions and fuel) + differential round-trip correspondence with domain membership decided in Coq",
   note=GEN_NOTE + "Still refused although they round-trip: non-chunked arrays/structs ahead of a chunked section (the 'clean' flag of valid_objB is conservative), a dummy that is not the sole instruction, an optional length field.", ref="8 (C01)"),
 'C02': dict(
   text="Coq theorems over ALL elaborated specs and ALL objects (Properties/C02.v): the statement-level semantics of generated serializers equals a pure declarative wire-format "
        "function enc (ser = Ok iff enc = Some, same bytes, mode kept); document order = concatenation of per-instruction outputs; arrays in closed form (trailing / separating "
        "0xFF / plain); length fields carry len - offset; break = [0xFF]; hardcoded / dummy literals; 0xFF padding; sanitisation exactly by the static mode of <chunked>; the case "
        "selected by the switch value; explicit spelling of boolean attribute defaults leaves elaboration unchanged for whole protocols; packets carry the declared family/action "
        "ordinals. Tie: real generator + generated serializers vs the model on corpus + random trees (bytes, outcome, final mode), explicit-default variants must yield byte-identical sources.",
   technique="Coq proof (refinement ser<->enc by induction, elaboration invariance under attribute normalisation) + differential correspondence with really generated code",
   note=GEN_NOTE, ref="8 (C02), 6"),
 'C03': dict(
   text="Coq theorems over ALL envs, classes, reader states / byte strings (Properties/C03.v): every reader state a deserializer reaches satisfies the invariant 0<=chunk start<=pos<=len "
        "with a valid break cache and is over the same data; every primitive read is a slice at the position bounded by remaining; on a well-formed class (decidable wf_class, evaluated "
        "for every elaborated tree) the ONLY errors are the negative-length ValueError or fuel exhaustion; optional fields are absent exactly when nothing remains; enum ordinals are preserved; "
        "exhausted reads give 0/empty. Termination (Properties/C03T.v): progress_okT E cls mode (decidable, evaluated per class on every run; the classes it refuses are listed in the evidence - in the runs so far only the F4 tree's Holder) implies the "
        "deserializer never runs out of fuel, hence with wf_class the only possible failure is the documented ValueError; delimited loops always terminate (chunk start strictly advances). Termination for EVERY accepted "
        "spec is false (known finding F4: the model returns EFuel, the code hangs). "
        "Acceptance implies well-formedness (Properties/C03W.v): for every specification the (model of the) generator accepts, wf_pkg follows under decidable hypotheses that spell out "
        "'non-degenerate' (distinct class names, no enum named like a class, no length field named like a switch's _data member, no zero-size array elements), no recursive struct, no referenced optional length field (F12); "
        "each of the six hypotheses is shown necessary by an accepted tree violating only it; with progress_okT added, the only failure of every struct/packet class on any bytes (non-chunked entry) is the documented ValueError; "
        "the check evaluates the hypotheses on every accepted tree. Way 1 for the emitted deserialize methods (Properties/C03R.v): the statements parsed from the generated text, run by the interpreter of Model/PyStmtR.v, equal Deser.v up to the whole call tree. "
        "Tie: translation validation + way 1 of the emitted code per tree; generated deserializers vs model on valid serializations (non-chunked entry), every prefix and 0x00/0xFE/0xFF-biased edits / junk (each in one randomly chosen entry mode), random bytes in both entry modes.",
   technique="Coq proof (reader invariant preserved through the deserializer semantics, error-kind analysis under a decidable well-formedness check) + differential correspondence on hostile bytes",
   note=GEN_NOTE + "'Deserializations whose hostile length fields make CPython loop thousands of times are checked by the oracle but excluded from the in-Coq evaluation (marked heavy).", ref="8 (C03)"),
 'C14': dict(
   text="Coq theorems over ALL declarations (any names/ordinals, aliases allowed) and ALL integers (Properties/C14.v): a declared ordinal yields the first declared member of that ordinal - the same "
        "result after any history of other constructions; any other integer yields Unrecognized n, named \"Unrecognized(<decimal n>)\" (names distinct for distinct n), converting back to n; int value "
        "is always kept; the class state (members, value map) is unchanged by any sequence of calls; members are distinct and are exactly the declared ordinals. Tie (the behaviour lives in CPython's "
        "EnumMeta): enum classes made by the REAL generator, by class source and by the functional API are called with declared/neighbouring/limit/huge/negative integers; identity, isinstance, ==, hash, "
        "name, value, list(E), __members__ are observed, and enum-typed fields/arrays (with underlying-type overrides) are written and read back through generated structs.",
   technique="Coq proof (lookup/first-index lemmas over the class-state model, decimal injectivity) + differential correspondence with CPython enum behaviour on generated and hand-made classes",
   note=KERNEL_NOTE + "Only CPython 3.12.1 is available; int.__eq__/__hash__ are runtime behaviour (observed, not proved).", ref="8 (C14)"),
 'C18': dict(
   text="Coq theorems (Properties/C18.v) over ALL import-line lists and ALL file lists: rendering of imports is invariant under permutation and duplication of the set iteration (hash seed), "
        "complete, duplicate-free and future-first; with a valid layout (distinct output paths) the files written do not depend on the walk order, nor on what the output directory held, re-running is "
        "idempotent, other paths are untouched; every declared type has its module file and its directory's __init__ star-imports it; snake_case yields no upper-case letters. Partial by nature: that the "
        "emitted text is valid Python and imports is decided by running CPython. Tie: the REAL generator runs 16 times per tree (PYTHONHASHSEED 0/1/2/random, four patched os.walk orders, one generator object used twice and after a failed run, a C-locale process, reversed "
        "creation order, an output directory whose parents do not exist, re-run into the same directory, pre-populated directory, protocol.py generate / clean; once per check a regeneration over an already imported output directory with SOURCE_DATE_EPOCH pinned) -> byte-identical files; the package is imported and every declared name checked; the model predicts the file set and __init__ lines.",
   technique="Coq proof (sorting/permutation invariance, fold-of-writes with distinct paths) + repeated real generation under varied seeds/orders + import of the result",
   note=KERNEL_NOTE + "Contents of class modules are abstract in the model (their determinism is observed byte-for-byte); cross-directory cyclic type references (circular imports of the generated packages) are a known finding, reported as such.", ref="8 (C18)"),
 'C19': dict(
   text="Coq theorems over ALL envs, heaps, instances and histories of public operations and caller-side mutations (Properties/C19.v, object/heap model Model/ObjModel.v): assignment to any property "
        "is rejected and changes nothing; a constructed instance (array arguments copied by tuple, other arguments immutable as annotated) and every deserialized instance is frozen (no slot refers to a "
        "mutable cell); the instance never changes; every serialization between arbitrary operations equals the first one, under any heap; getters never hand out a mutable cell; the exclusion of "
        "mutable non-array arguments is shown necessary. Tie: every generated class (case-data classes included) is poked through its whole public interface (setattr/delattr on every property incl. "
        "byte_size, in-place mutation of every returned value, mutation of the lists it was built from), re-serialized on fresh and long-lived writers, constructed and deserialized alike.",
   technique="Coq proof (frozen-instance invariant over an object/heap model, serializer reads fields only through lookups) + exhaustive poking of generated classes",
   note=COMMON_NOTE + "CPython's attribute protocol is modelled (data descriptor without setter), CPython is the oracle; assigning new attribute names / private slots is outside 'public interface'.", ref="8 (C19)"),
 'C20': dict(
   text="Coq theorems about an operational model of the import system (Model/PyImport.v; Properties/C20.v) for ALL programs, worlds, fuels and first imports: imports are fuel-monotone and idempotent, "
        "nothing leaves sys.modules, parents are imported to completion first, definitions bind themselves, star-imports copy exactly the public names of the target at that moment, and the key result "
        "C20_own_submodules: in any fresh run, every package whose body ends with the re-binding loop resolves each listed name to its own submodule - whatever the star-imports copied (the defect "
        "is reproduced without the loop). Tie: the import program of EVERY eolib module, static and generated, is re-extracted from the files on each run (tools/impprog.py, fail-closed) and run through "
        "the model; its verdict on every documented path and public name must equal CPython's, observed in fresh interpreters for up to 17 different first imports per tree.",
   technique="Coq proof (operational import-system model; frame and post-condition lemmas by mutual fuel induction) + per-run extraction of import programs + fresh-interpreter identity probes",
   note=COMMON_NOTE + "The import system itself is modelled (CPython is the oracle); the universal theorem covers module paths re-bound by the loop, names are decided per tree by evaluation of the model.", ref="8 (C20)"),
 'C15': dict(
   text="Coq theorems over ALL fuel/env/class/value/writer and reader states, Ok or Err alike (Properties/C15.v): serialize leaves the sanitisation mode and deserialize the chunked mode "
        "as found - for ANY nested callee; inside a body the mode is the static function of the entry mode and the mode statements executed (also on error, up to the failing statement, "
        "which is never a mode statement); a nested struct is entered in the caller's mode and the caller continues in it. Tie: generated code run in both entry modes with validation "
        "errors planted at any depth and writer/reader primitives failing at their k-th call; final mode compared with the entry mode and with the model.",
   technique="Coq proof (mode preservation lemmas per primitive, static-mode invariant by induction over instruction lists and fuel) + differential correspondence incl. injected failures",
   note=GEN_NOTE + "'The restore itself is part of the model (try/finally); that the emitted code has it is what the correspondence checks.", ref="8 (C15)"),
 'C16': dict(
   text="Coq theorems over ALL specs and objects at every nesting depth (Properties/C16.v): a complete serialization implies the object satisfies the declarative validity predicate "
        "valid_decl (required fields present, lengths exact / within padded or length-field bounds, integers below their limit, case data of exactly the selected case's class or None); "
        "per-violation lemmas (required None, length violation, integer at limit, wrong / unmatched case data) give the error kind and leave the writer untouched; earlier output is never lost. "
        "Tie: every single-violation mutant of generated valid objects is serialized by the generated code and must raise SerializationError/ValueError, and agree with the model.",
   technique="Coq proof (soundness of serialization w.r.t. a declarative validity predicate, induction on fuel and instruction lists) + enumerated single-violation mutants on generated code",
   note=GEN_NOTE, ref="8 (C16)"),
 'C17': dict(
   text="The acceptance rules of the generator are a Coq function elab (Model/Elab.v, mirroring type_factory / object / field / switch / code_generator checks in order); "
        "Properties/C17.v has ~90 rule theorems: head-anchored rejection lemmas with hypotheses on the elaboration context for the context-sensitive rules, any-position statements for the context-insensitive ones "
        "(unknown type, break / delimited array outside chunked) and generic propagation theorems (sequence, chunked, case, object, file, protocol, arbitrary path) that lift a context-insensitive violation to ANY position of ANY class body. "
        "Tie: ~115 instruction-level rule snippets, each placed in a sample of 7 nesting contexts and several file/struct/packet placements, plus ~45 declaration-level edits are applied to valid trees; the REAL generator must reject each "
        "(oracle) and accept/reject must equal elab's verdict on every tree.",
   technique="Coq proof (error propagation through elaboration + per-rule rejection lemmas) + differential accept/reject correspondence on catalogued rule-violating edits",
   note=GEN_NOTE, ref="8 (C17)"),
 'C04': dict(
   text="Coq theorems over ALL lists of valid typed items in which only the last may read to the end (Properties/C04.v: every valid write is accepted "
        "and appends exactly item_bytes; each matching read at a reader framed as pre++bytes++post returns the value written - strings as their "
        "cp1252 image - and leaves the reader exactly past the item; whole lists round-trip and consume the output exactly; the two exclusions "
        "(0xFF in padded, '~' in encoded strings) are shown necessary), by induction with a framing invariant over hand-written models of EoWriter "
        "and EoReader; both classes are translated from the source by py2coq on every run and proved equal to the models for all states and arguments (Bridge/B_writer.v, B_reader.v), plus differential correspondence (all pairs of item kinds + random lists) evaluated by vm_compute.",
   technique="Coq proof (framing invariant, induction over item lists) + py2coq class translation with bridge lemmas + vm_compute correspondence",
   note=COMMON_NOTE + "Bridge side conditions: chunk start >= 0, cached break >= -1 (proved invariant from any EoReader(data)); negative-index wraparound of slices is outside the translated subset (sites listed in the generated files); CPython's windows-1252 codec is a table validated exhaustively against CPython on every run.", ref="8 (C04)"),
 'C05': dict(
   text="Coq theorems over ALL data and ALL finite histories of public reader operations incl. slices of slices (Properties/C05.v: the faithful "
        "model R with the cached break index is step-wise simulated by the documented cache-free model A, hence equal outputs for every history; "
        "on A: 0 <= chunk start <= position <= len for every reachable state, remaining >= 0, every read returns exactly data[pos,pos') bounded by "
        "the chunk end / end of data and 0xFF-free in chunked mode, exhausted reads yield 0/empty without moving, next_chunk lands just past the "
        "break or at the end, slices are independent readers over the clipped sub-range). Tie: EoReader is translated from the source by py2coq on every run and proved equal to R for all states/arguments, incl. whole multi-reader histories (Bridge/B_reader.v: reader_bridge_run); "
        "plus differential correspondence with R and A (bounded-exhaustive scripts + random multi-reader histories) and an independent Python transcription of the documented model as oracle.",
   technique="Coq proof (step-wise simulation R<=A, invariants by induction over histories) + py2coq class translation with bridge lemmas + bounded-exhaustive/random correspondence",
   note=COMMON_NOTE + "Bridge side conditions (chunk start >= 0, cached break >= -1) are proved invariant from any EoReader(data); negative length arguments are outside the property and outside the model (RBytes n<0 is flagged, never generated); mutation of the buffer behind the memoryview is not modelled.", ref="8 (C05)"),
 'C06': dict(
   text="Coq theorems over ALL lists of 0xFF-free chunks and ALL read plans (Properties/C06.v: with sanitisation on no in-range integer and no "
        "string field contains 0xFF; what each chunk's plan observes through a chunked reader over the joined data equals what it observes on a "
        "stand-alone reader over that chunk alone - for any plans of the other chunks, any number of surplus reads; the reader stays inside "
        "[chunk start, break] and next_chunk re-establishes the frame), tied to the code by the py2coq bridges of both classes (Bridge/B_reader.v, B_writer.v), by correspondence on generated chunk/plan sets and by "
        "an implementation-level isolation oracle (same chunk plan under different neighbour plans).",
   technique="Coq proof (in-chunk/stand-alone correspondence relation, induction over chunks) + py2coq class bridges + vm_compute correspondence",
   note=COMMON_NOTE + " Padded strings and raw byte(s) fields may carry 0xFF and are excluded from chunk fields, as in the property text.", ref="8 (C06)"),
 'C09': dict(
   text="Coq theorems over ALL writer states, operations and histories (Properties/C09.v: a failing write leaves the state unchanged and fails with "
        "ValueError only; every value at/above its limit and every string violating its fixed/padded length is rejected; every accepted write appends "
        "exactly the declared number of bytes and keeps the mode; in-range values are accepted; with sanitisation on the 0xFF bytes emitted are exactly "
        "the padding bytes and each y-diaeresis becomes 'y'; with it off the exact windows-1252 image is emitted), about a model written in the "
        "statement order of the code; EoWriter is translated from the source by py2coq on every run and proved equal to the model for all states, arguments and histories (Bridge/B_writer.v, no side conditions), "
        "plus differential correspondence after every step of bounded-exhaustive single ops and random histories.",
   technique="Coq proof (case analysis per operation via an emit/fail factorisation, count_occ of 0xFF) + py2coq class translation with bridge lemmas + vm_compute correspondence per step",
   note=COMMON_NOTE + "The translated class keeps the statement order (an effect before a raise would show in G and break the bridge); negative integers behave as in CPython (-1 writes 0x00).", ref="8 (C09)"),
 'C10': dict(
   text="Coq theorems over ALL byte lists / lengths / multiples (Properties/C10.v: interleave and deinterleave are the index maps isrc/dsrc of the "
        "length alone, mutually inverse bijections of [0,n), hence inverse length-preserving permutations; flip is an involution on bytes fixing "
        "0 and 128; swap_multiples rejects negatives, is the identity for 0, and for m>0 is an involution preserving length, multiset, every "
        "non-multiple's position and the set of multiple positions; any pipeline is undone by the inverses in reverse order), tied to the source by "
        "py2coq + bridge lemmas (flip_msb loop; interleave/deinterleave/swap_multiples loops when Bridge/B_encrypt_loops.v is present) and by "
        "correspondence of the implementation with both the model and the translated loops (fuelled while loops evaluated by vm_compute).",
   technique="Coq proof (index-map bijection, run-reversal induction, Permutation) + py2coq bridges + vm_compute correspondence",
   note=COMMON_NOTE + "bytearray stores assumed in range(256) (true for byte inputs).", ref="8 (C10)"),
 'C11': dict(
   text="Coq theorems for ALL challenges (Properties/C11.v: hash = published formula with truncating remainder Z.rem on 0<=c<253^3; "
        "0 <= hash < 253^4 up to 11,092,110 analytically + a 107-value forallb sweep; helper = Z.rem for b>0; the unrepaired helper is "
        "refuted with witness 11092479), bridged to the translated source; differential check against an independent integer-only "
        "transcription of the client arithmetic (exhaustive over all 16,194,277 challenges in the thorough tier and in the search).",
   technique="Coq proof (Z.rem/Z.modulo lemmas, bounded products, finite sweep) + py2coq bridge + exhaustive differential oracle",
   note=COMMON_NOTE + "The 'game client arithmetic' is the published formula with C remainder, as the property states; repaired defect F1 (fix: commit) is a regression seed.", ref="8 (C11), 11"),
 'C12': dict(
   text="Coq theorems for EVERY outcome of the random source (Properties/C12.v: no generate() can request an empty range; every INIT/"
        "PING/ACCOUNT outcome has value and wire components in range and is reconstructed exactly by the from-values constructor), "
        "bridged to the translated source (random.randrange = scripted draw list); correspondence by substituting the random source "
        "(edge draws for every start value in quick, the full 57,751+442,764+240 outcome space in thorough).",
   technique="Coq proof (lia with truncating division) + py2coq bridge + enumeration of substituted random draws",
   note=COMMON_NOTE + "random.randrange's contract is assumed (source substituted); int(x/7) modelled as Z.quot (exact for |x|<2^26).", ref="8 (C12)"),
 'C13': dict(
   text="Coq theorems over ALL finite histories of {next_sequence, set_sequence_start v} and all start values (Properties/C13.v: "
        "output stream = spec 'start in force + n mod 10', counter invariant, an update at any position keeps the position, shift "
        "equivariance), by induction over histories; the translated class simulates the model step for step (Bridge/B_sequencer.v); "
        "bounded-exhaustive + random histories on the implementation.",
   technique="Coq proof (invariant by induction over operation lists) + py2coq class bridge (simulation) + bounded-exhaustive histories",
   note=COMMON_NOTE + "The model abstracts a SequenceStart to its .value; the harness drives the sequencer with the real SequenceStart classes as well as with a duck-typed stub; events outside the two methods (a request that fails because the start raises, a copy.copy of the sequencer, a start object that changes its value) are exercised on the implementation and projected onto model histories by the harness (failed requests and copies dropped, a changed value = an update).", ref="8 (C13)"),
}
NA_REASON = "check not built yet (build in progress; see DESIGN.md section 12)"

m = dict(version=1, setup_cmd="./bin/setup",
         hooks=dict(guard="EOLIB_VERIF", enable="no source hooks: every observation is through the public API of /repo's working tree (scratch copy per run)",
                    baseline_off_cmd="cd /repo && /venv/bin/python -m pytest -ra -q -p no:cacheprovider --timeout=900 --continue-on-collection-errors",
                    source_commits=[], add_only=True),
         engines=[dict(name="coq", path="coq/", serves_properties=sorted(CHECKS), kind_free_text="Coq 8.16.1 development: Prelude, Model, Proofs, Properties, Bridge; Gen regenerated per run by tools/py2coq.py"),
                  dict(name="E1", path="tools/vlib.py", serves_properties=sorted(CHECKS), kind_free_text="correspondence: implementation outputs written into coq/Cases/*.v and compared with the model by vm_compute")],
         checks=[], not_applicable=[])
for p in props:
    if p in CHECKS:
        c = CHECKS[p]
        m['checks'].append(dict(property_id=p, quick_cmd=f"./bin/check {p} quick", thorough_cmd=f"./bin/check {p} thorough",
                                evidence_file=f"evidence/{p}.json", replay_cmd_template=f"./bin/check {p} --replay {{path}}",
                                engine="coq", level_claimed=dict(category=c.get('category', 'proof'), text=c['text'], design_ref=c['ref']),
                                level_note=c['note'], technique=c['technique']))
    else:
        m['not_applicable'].append(dict(property_id=p, reason=NA_REASON))
json.dump(m, open(os.path.join(V, 'MANIFEST.json'), 'w'), indent=1)
print("manifest:", len(m['checks']), "checks,", len(m['not_applicable']), "not claimed")
