#!/bin/bash
# seed_all.sh <ID> : confirm every /tmp/seed/<ID>-out/mK in the scratch worktree, store it under /verif/seeded/, run the check against it
ID=$1; WT=/tmp/seed/$ID-wt
# the scratch worktree follows /repo's HEAD (fix commits may have been made since the seed was produced)
git -C $WT checkout -q -- . ; git -C $WT clean -fdq; git -C $WT checkout -q --detach $(git -C /repo rev-parse HEAD)
for D in /tmp/seed/$ID-out/m*; do
  M=$(basename $D); S=/verif/seeded/$ID-$M
  [ -f $D/patch.diff ] || continue
  git -C $WT checkout -q -- . ; git -C $WT clean -fdq
  /venv/bin/python $D/demo.py $WT >/dev/null 2>&1; P0=$?
  if ! git -C $WT apply $D/patch.diff 2>/dev/null; then
    # context moved by a later fix commit: re-apply with fuzz and keep the refreshed diff
    (cd $WT && patch -p1 --fuzz=3 -s < $D/patch.diff && find . -name "*.orig" -delete) || { echo "$ID-$M APPLY-FAILED"; git -C $WT checkout -q -- .; git -C $WT clean -fdq; continue; }
    git -C $WT diff > $D/patch.diff; echo "patch.diff refreshed against /repo $(git -C /repo rev-parse --short HEAD) (context only)" >> $D/notes.md
  fi
  T=$(cd $WT && PYTHONPATH=$WT/src /venv/bin/python -m pytest -q -p no:cacheprovider --continue-on-collection-errors 2>&1 | grep -v condarc | tail -1)
  /venv/bin/python $D/demo.py $WT >/dev/null 2>&1; P1=$?
  git -C $WT checkout -q -- . ; git -C $WT clean -fdq
  echo "$ID-$M pristine_demo_exit=$P0 patched_demo_exit=$P1 tests: $T"
  if [ $P0 -ne 0 ] || [ $P1 -eq 0 ] || ! echo "$T" | grep -q "140 passed"; then echo "  -> NOT CONFIRMED, skipped"; continue; fi
  mkdir -p $S && cp $D/patch.diff $D/demo.py $S/ && cp $D/notes.md $S/ 2>/dev/null
  # run the property's check against the patched scratch worktree (VERIF_REPO), /repo itself stays untouched
  git -C $WT apply $S/patch.diff || { echo "apply failed"; continue; }
  OUT=$(cd /verif && VERIF_REPO=$WT ./bin/check $ID quick 2>/dev/null | grep -E "^(OK|VIOLATION)" | tail -3)
  git -C $WT checkout -q -- . ; git -C $WT clean -fdq
  V=$(echo "$OUT" | grep -c "^VIOLATION")
  echo "  check: $(echo "$OUT" | tail -1)"
  /venv/bin/python - "$S" "$ID" "$M" "$V" "$OUT" <<'PY'
import json, sys, os
S, ID, M, V, OUT = sys.argv[1:6]
notes = open(os.path.join(S, 'notes.md')).read() if os.path.exists(os.path.join(S, 'notes.md')) else ''
json.dump(dict(property=ID, name=f"{ID}-{M}", needs_to_manifest=notes[:1500],
               confirmed=dict(tests_with_patch="140 passed", demo_pristine_exit=0, demo_patched_exit=1,
                              how="scratch worktree: git apply patch.diff; pytest; demo.py; git checkout"),
               ran=f"./bin/check {ID} quick against the patched scratch worktree (VERIF_REPO=<worktree>; equivalent to git -C /repo apply patch.diff; ./bin/check {ID} quick; git -C /repo checkout -- .)",
               detected=bool(int(V)), check_output=OUT[-600:]), open(os.path.join(S, 'meta.json'), 'w'), indent=1)
PY
done
