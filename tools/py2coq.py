#!/usr/bin/env python3
"""py2coq: fail-closed translator from a small subset of Python (ast) to Gallina.

Way 1 of DESIGN.md section 4.  One Coq file per Python source file.  Anything outside the supported
subset raises Unsupported(node, file:line) and *that unit* (function / class) is reported as
untranslatable; nothing is skipped silently.

Conventions of the output
  * Python int -> Z, bool -> bool, bytes/bytearray/list[int] -> list Z, str -> list Z (code points),
    None -> unit.
  * local variable x -> v_x ; function f -> f (module level, leading underscores kept as 'u_')
  * a function that may raise returns `res T`; one that cannot returns `T`.
  * a function that mutates its first bytearray parameter in place and returns None returns the new
    value of that parameter.
  * loops: for i in range(..) -> for_range lo hi body st, body emitted as its own Definition.
    while -> while_loop fuel cond body st (fuel is an extra first parameter `fuel : nat`).
"""
import ast
import sys
import os


class Unsupported(Exception):
    def __init__(self, msg, node=None):
        self.msg = msg
        self.line = getattr(node, 'lineno', None)
        super().__init__(f"{msg} (line {self.line})")


# ------------------------------------------------------------------------------------ types
Z, B, L, U = 'Z', 'bool', 'list Z', 'unit'


def coq_ty(t):
    if isinstance(t, tuple):
        return '(' + ' * '.join(coq_ty(x) for x in t) + ')'
    return t


def ann_type(ann):
    if ann is None:
        return Z
    if isinstance(ann, ast.Name):
        return {'int': Z, 'bool': B, 'bytes': L, 'bytearray': L, 'str': L, 'memoryview': L}.get(ann.id) or _bad(ann)
    if isinstance(ann, ast.Constant) and ann.value is None:
        return U
    if isinstance(ann, ast.Constant) and isinstance(ann.value, str):
        return ('obj', ann.value)
    _bad(ann)


def _bad(node):
    raise Unsupported(f"annotation {ast.dump(node)}", node)


def cname(name):
    """Coq identifier for a Python module-level name."""
    if name.startswith('_'):
        return 'u' + name
    return name


def vname(name):
    return 'v_' + name.replace('.', '_')


class FuncInfo:
    def __init__(self, name, params, ret, may_raise, mutates, needs_fuel, draws=False):
        self.name = name          # coq name
        self.params = params      # list of (pyname, type)
        self.ret = ret            # coq-level return type (after adding mutated param)
        self.may_raise = may_raise
        self.mutates = mutates    # index of in-place mutated param or None
        self.needs_fuel = needs_fuel
        self.draws = draws        # consumes random draws: extra param `draws : list Z`, returns (.., draws)


class Env:
    """Variable typing environment (Python local name -> type)."""

    def __init__(self, d=None):
        self.d = dict(d or {})

    def copy(self):
        return Env(self.d)

    def __contains__(self, k):
        return k in self.d

    def __getitem__(self, k):
        return self.d[k]

    def set(self, k, t):
        self.d[k] = t


def assigned_vars(stmts):
    """Names assigned anywhere in a statement list (in order of first appearance)."""
    out = []

    def add(n):
        if n not in out:
            out.append(n)

    class V(ast.NodeVisitor):
        def visit_Assign(self, n):
            for t in n.targets:
                self._t(t)
            self.generic_visit(n)

        def visit_AugAssign(self, n):
            self._t(n.target)
            self.generic_visit(n)

        def visit_AnnAssign(self, n):
            self._t(n.target)
            self.generic_visit(n)

        def visit_For(self, n):
            self.generic_visit(n)

        def visit_Expr(self, n):
            # in-place calls: x.reverse(), f(x)
            c = n.value
            if isinstance(c, ast.Call):
                if isinstance(c.func, ast.Attribute) and isinstance(c.func.value, ast.Name):
                    if c.func.attr in ('reverse', 'append', 'extend'):
                        add(c.func.value.id)
                elif isinstance(c.func, ast.Name) and c.args and isinstance(c.args[0], ast.Name):
                    add(('maybe', c.func.id, c.args[0].id))
            self.generic_visit(n)

        def _t(self, t):
            if isinstance(t, ast.Name):
                add(t.id)
            elif isinstance(t, ast.Subscript) and isinstance(t.value, ast.Name):
                add(t.value.id)
            elif isinstance(t, ast.Tuple):
                for e in t.elts:
                    self._t(e)
            elif isinstance(t, ast.Attribute):
                pass
            else:
                raise Unsupported("assignment target", t)

    v = V()
    for s in stmts:
        v.visit(s)
    return out


def contains(stmts, kinds, stop_at_loops=False):
    class V(ast.NodeVisitor):
        found = False

        def generic_visit(self, n):
            if isinstance(n, kinds):
                self.found = True
            if stop_at_loops and isinstance(n, (ast.For, ast.While)):
                return
            super().generic_visit(n)

    v = V()
    for s in stmts:
        if isinstance(s, kinds):
            return True
        v.visit(s)
    return v.found


def always_exits(stmts):
    """True when every path through stmts ends in return/raise."""
    if not stmts:
        return False
    last = stmts[-1]
    if isinstance(last, (ast.Return, ast.Raise)):
        return True
    if isinstance(last, ast.If):
        return always_exits(last.body) and always_exits(last.orelse)
    return False


class ModuleTranslator:
    def __init__(self, path, modname, known=None, consts=None):
        self.path = path
        self.modname = modname
        self.src = open(path).read()
        self.tree = ast.parse(self.src)
        self.funcs = dict(known or {})      # python name -> FuncInfo (imported + local)
        self.consts = dict(consts or {})    # python name -> coq name (int constants)
        self.out = []                       # emitted Coq vernacular
        self.units = {}                     # name -> 'ok' | error string
        self.requires = []
        self.loop_counter = 0
        self.cur = None

    # -------------------------------------------------------------------- module level
    def ordered_body(self):
        """Module statements with functions moved after the functions they call (Python resolves names
        at call time; Coq needs definitions first)."""
        body = list(self.tree.body)
        fdefs = {n.name: n for n in body if isinstance(n, ast.FunctionDef)}
        order, seen = [], set()

        def visit(name):
            if name in seen:
                return
            seen.add(name)
            for c in ast.walk(fdefs[name]):
                if isinstance(c, ast.Call) and isinstance(c.func, ast.Name) and c.func.id in fdefs and c.func.id != name:
                    visit(c.func.id)
            order.append(fdefs[name])
        for n in body:
            if isinstance(n, ast.FunctionDef):
                visit(n.name)
        it = iter(order)
        return [next(it) if isinstance(n, ast.FunctionDef) else n for n in body]

    def translate(self, only=None):
        for node in self.ordered_body():
            if isinstance(node, ast.Expr) and isinstance(node.value, ast.Constant) and isinstance(node.value.value, str):
                continue
            if isinstance(node, (ast.Import, ast.ImportFrom)):
                continue
            if isinstance(node, ast.Assign) and len(node.targets) == 1 and isinstance(node.targets[0], ast.Name):
                name = node.targets[0].id
                if name == '__all__':
                    continue
                try:
                    binds, code, ty = self.expr(node.value, Env())
                    if binds or ty != Z:
                        raise Unsupported("module constant must be a pure int", node)
                    self.out.append(f"Definition {cname(name)} : Z := {code}.")
                    self.consts[name] = cname(name)
                    self.units[name] = 'ok'
                except Unsupported as e:
                    self.units[name] = f"Unsupported: {e}"
                continue
            if isinstance(node, ast.FunctionDef):
                if only is not None and node.name not in only:
                    continue
                self.func_unit(node, node.name, cname(node.name))
                continue
            if isinstance(node, ast.ClassDef):
                if only is not None and node.name not in only:
                    continue
                self.class_unit(node)
                continue
            self.units[f"<stmt line {node.lineno}>"] = f"Unsupported: top-level {type(node).__name__}"
        return self

    def func_unit(self, node, pyname, coqname, static_of=None):
        save = len(self.out)
        try:
            self.function(node, pyname, coqname)
            self.units[pyname] = 'ok'
        except Unsupported as e:
            del self.out[save:]
            self.units[pyname] = f"Unsupported: {e}"

    def class_unit(self, node):
        # Supported classes: (a) classes whose translated content is @staticmethod functions returning
        # constructor calls (sequence_start), handled by treating constructors as tuples;
        # (b) "simple state classes" (packet_sequencer): __init__ assigning self._x, methods.
        cls = node.name
        statics = [n for n in node.body if isinstance(n, ast.FunctionDef)
                   and any(isinstance(d, ast.Name) and d.id == 'staticmethod' for d in n.decorator_list)]
        init = [n for n in node.body if isinstance(n, ast.FunctionDef) and n.name == '__init__']
        for n in statics:
            if n.name in ('zero',):
                continue
            self.func_unit(n, f"{cls}.{n.name}", f"{cls}_{n.name}")
        if cls in SIMPLE_STATE_CLASSES:
            save = len(self.out)
            try:
                self.state_class(node)
                self.units[cls] = 'ok'
            except Unsupported as e:
                del self.out[save:]
                self.units[cls] = f"Unsupported: {e}"

    # -------------------------------------------------------------------- simple state classes
    def state_class(self, node):
        cls = node.name
        fields = []
        init = None
        for n in node.body:
            if isinstance(n, ast.FunctionDef) and n.name == '__init__':
                init = n
        if init is None:
            raise Unsupported("class without __init__", node)
        # fields: self._x = <expr over params>
        env = Env()
        params = []
        for a in init.args.args[1:]:
            t = FIELD_PARAM_TYPES.get((cls, a.arg)) or ann_type(a.annotation if not isinstance(a.annotation, ast.Name) or a.annotation.id in ('int', 'bool', 'bytes', 'bytearray', 'str') else None)
            env.set(a.arg, t)
            params.append((a.arg, t))
        inits = []
        for s in init.body:
            if isinstance(s, ast.Expr) and isinstance(s.value, ast.Constant):
                continue
            if (isinstance(s, ast.Assign) and len(s.targets) == 1 and isinstance(s.targets[0], ast.Attribute)
                    and isinstance(s.targets[0].value, ast.Name) and s.targets[0].value.id == 'self'):
                binds, code, ty = self.expr(s.value, env)
                if binds:
                    raise Unsupported("effectful field initialiser", s)
                fields.append((s.targets[0].attr, ty))
                inits.append(code)
            else:
                raise Unsupported("__init__ statement", s)
        rec = f"{cls}_st"
        self.out.append(f"Record {rec} := mk_{rec} {{ " + '; '.join(f"{cls}_{f} : {coq_ty(t)}" for f, t in fields) + " }.")
        ps = ' '.join(f"({vname(p)} : {coq_ty(t)})" for p, t in params)
        self.out.append(f"Definition {cls}_init {ps} : {rec} := mk_{rec} " + ' '.join(f"({c})" for c in inits) + ".")
        self.class_fields = {f: t for f, t in fields}
        self.class_name = cls
        for n in node.body:
            if isinstance(n, ast.FunctionDef) and n.name != '__init__':
                if n.decorator_list:
                    raise Unsupported("decorated method in state class", n)
                self.method(n, cls, rec, fields)
        self.class_fields = None

    def method(self, node, cls, rec, fields):
        """method(self, args) -> (self', result); self fields are locals f_<name>."""
        env = Env()
        for f, t in fields:
            env.set('self.' + f, t)
        params = []
        for a in node.args.args[1:]:
            t = FIELD_PARAM_TYPES.get((cls, a.arg)) or ann_type(a.annotation if isinstance(a.annotation, ast.Name) and a.annotation.id in ('int', 'bool', 'bytes', 'bytearray', 'str') else None)
            env.set(a.arg, t)
            params.append((a.arg, t))
        self.loop_counter = 0
        self.cur = dict(monadic=False, mut=None, ret=None, fuel=False, name=f"{cls}_{node.name}", method=(rec, fields), draws=False)
        body = [s for s in node.body if not (isinstance(s, ast.Expr) and isinstance(s.value, ast.Constant))]

        def pack(env_):
            return f"mk_{rec} " + ' '.join(vname('self.' + f) for f, _ in fields)

        self.cur['pack'] = pack
        code = self.stmts(body, env, lambda env_: f"({pack(env_)}, tt)")
        ps = ' '.join(f"({vname(p)} : {coq_ty(t)})" for p, t in params)
        unpack = ' '.join(f"let {vname('self.' + f)} := {cls}_{f} self in" for f, _ in fields)
        self.out.append(f"Definition {cls}_{node.name} (self : {rec}) {ps} :=\n  {unpack}\n  {code}.")

    # -------------------------------------------------------------------- functions
    def function(self, node, pyname, coqname):
        if node.args.vararg or node.args.kwarg or node.args.kwonlyargs:
            raise Unsupported("varargs", node)
        env = Env()
        params = []
        for a in node.args.args:
            t = ann_type(a.annotation)
            env.set(a.arg, t)
            params.append((a.arg, t))
        body = [s for s in node.body if not (isinstance(s, ast.Expr) and isinstance(s.value, ast.Constant) and isinstance(s.value.value, str))]
        # does it mutate its first parameter in place?
        mut = None
        if params and params[0][1] == L:
            p0 = params[0][0]
            for a in assigned_vars(body):
                if a == p0:
                    mut = 0
                elif isinstance(a, tuple) and a[2] == p0 and a[1] in self.funcs and self.funcs[a[1]].mutates is not None:
                    mut = 0
        ret_ann = node.returns
        returns_none = ret_ann is None and not contains(body, ast.Return) or (isinstance(ret_ann, ast.Constant) and ret_ann.value is None)
        if not returns_none:
            has_value_return = any(isinstance(n, ast.Return) and n.value is not None for s in body for n in ast.walk(s))
            if not has_value_return:
                returns_none = True
        may_raise = self.may_raise(body) or contains(body, ast.While)
        needs_fuel = contains(body, ast.While) or self.calls_fuel(body)
        draws = self.uses_draws(body)
        self.loop_counter = 0
        self.cur = dict(monadic=may_raise, mut=(params[0][0] if mut is not None else None), ret=None,
                        fuel=needs_fuel, name=coqname, method=None, draws=draws, returns_none=returns_none)
        if draws:
            env.set('$draws', L)

        def final(env_):
            # falling off the end of the function
            if not returns_none:
                raise Unsupported("function may fall off its end without returning a value", node)
            v = vname(self.cur['mut']) if self.cur['mut'] else 'tt'
            self.note_ret(L if self.cur['mut'] else U)
            return self.wrap_ret(v)

        code = self.stmts(body, env, final)
        ps = ' '.join(f"({vname(p)} : {coq_ty(t)})" for p, t in params)
        if needs_fuel:
            ps = "(fuel : nat) " + ps
        if draws:
            ps = ps + " (v_draws : list Z)"
        self.out.append(f"Definition {coqname} {ps} :=\n  {code}.")
        rt = self.cur['ret']
        self.funcs[pyname] = FuncInfo(coqname, params, rt, may_raise, mut, needs_fuel, draws)

    def note_ret(self, t):
        if self.cur['ret'] is None:
            self.cur['ret'] = t
        elif self.cur['ret'] != t:
            raise Unsupported(f"inconsistent return types {self.cur['ret']} vs {t}")

    def wrap_ret(self, v):
        if self.cur.get('draws'):
            v = f"({v}, v_draws)"
        if self.cur['monadic']:
            return f"Ok ({v})"
        return v

    def may_raise(self, body):
        for s in body:
            for n in ast.walk(s):
                if isinstance(n, ast.Raise):
                    return True
                if isinstance(n, ast.Call):
                    f = n.func
                    if isinstance(f, ast.Name):
                        if f.id == 'bytes':
                            return True
                        if f.id in self.funcs and self.funcs[f.id].may_raise:
                            return True
                    if isinstance(f, ast.Attribute) and f.attr == 'randrange':
                        return True
                    if isinstance(f, ast.Attribute) and isinstance(f.value, ast.Name):
                        k = f"{f.value.id}.{f.attr}"
                        if k in self.funcs and self.funcs[k].may_raise:
                            return True
        return False

    def calls_fuel(self, body):
        for s in body:
            for n in ast.walk(s):
                if isinstance(n, ast.Call) and isinstance(n.func, ast.Name) and n.func.id in self.funcs and self.funcs[n.func.id].needs_fuel:
                    return True
        return False

    def uses_draws(self, body):
        for s in body:
            for n in ast.walk(s):
                if isinstance(n, ast.Call) and isinstance(n.func, ast.Attribute) and n.func.attr == 'randrange':
                    return True
        return False

    # -------------------------------------------------------------------- statements (CPS)
    def stmts(self, ss, env, k):
        """Translate statement list ss; k(env) gives the code of what follows."""
        if not ss:
            return k(env)
        s, rest = ss[0], ss[1:]
        cont = lambda env_: self.stmts(rest, env_, k)
        if isinstance(s, ast.Pass):
            return cont(env)
        if isinstance(s, ast.Expr):
            if isinstance(s.value, ast.Constant):
                return cont(env)
            return self.expr_stmt(s, env, cont)
        if isinstance(s, ast.Assign):
            if len(s.targets) != 1:
                raise Unsupported("chained assignment", s)
            return self.assign(s.targets[0], s.value, env, cont, s)
        if isinstance(s, ast.AnnAssign):
            if s.value is None:
                return cont(env)
            return self.assign(s.target, s.value, env, cont, s)
        if isinstance(s, ast.AugAssign):
            op = ast.BinOp(left=self.load_of(s.target), op=s.op, right=s.value)
            ast.copy_location(op, s)
            return self.assign(s.target, op, env, cont, s)
        if isinstance(s, ast.Return):
            if s.value is None:
                if not self.cur.get('returns_none', True):
                    raise Unsupported("bare return in value function", s)
                v = vname(self.cur['mut']) if self.cur['mut'] else 'tt'
                self.note_ret(L if self.cur['mut'] else U)
                return self.wrap_ret(v)
            binds, code, ty = self.expr(s.value, env)
            if self.cur.get('method'):
                self.note_ret(ty)
                return self.emit_binds(binds, f"({self.cur['pack'](env)}, {code})")
            if self.cur['mut']:
                raise Unsupported("value return from in-place function", s)
            self.note_ret(ty)
            return self.emit_binds(binds, self.wrap_ret(code))
        if isinstance(s, ast.Raise):
            if not self.cur['monadic']:
                raise Unsupported("raise in non-monadic function", s)
            return f"Err {self.exc_name(s)}"
        if isinstance(s, ast.If):
            return self.if_stmt(s, rest, env, k)
        if isinstance(s, ast.For):
            return self.for_stmt(s, env, cont)
        if isinstance(s, ast.While):
            return self.while_stmt(s, env, cont)
        raise Unsupported(f"statement {type(s).__name__}", s)

    def exc_name(self, s):
        e = s.exc
        if isinstance(e, ast.Call):
            e = e.func
        if isinstance(e, ast.Name):
            m = {'ValueError': 'EValue', 'RuntimeError': 'ERuntime'}.get(e.id)
            if m:
                return m
        raise Unsupported("raise of unknown exception", s)

    def load_of(self, t):
        if isinstance(t, ast.Name):
            return ast.copy_location(ast.Name(id=t.id, ctx=ast.Load()), t)
        if isinstance(t, ast.Subscript):
            return ast.copy_location(ast.Subscript(value=t.value, slice=t.slice, ctx=ast.Load()), t)
        if isinstance(t, ast.Attribute):
            return ast.copy_location(ast.Attribute(value=t.value, attr=t.attr, ctx=ast.Load()), t)
        raise Unsupported("augmented assignment target", t)

    def emit_binds(self, binds, body):
        code = body
        for name, c, monadic in reversed(binds):
            if monadic:
                code = f"do {name} <- {c};\n  {code}"
            else:
                code = f"let {name} := {c} in\n  {code}"
        return code

    def assign(self, target, value, env, cont, node):
        binds, code, ty = self.expr(value, env)
        if isinstance(target, ast.Name):
            env2 = env.copy()
            if target.id in env and env[target.id] != ty:
                raise Unsupported(f"variable {target.id} changes type {env[target.id]} -> {ty}", node)
            env2.set(target.id, ty)
            return self.emit_binds(binds, f"let {vname(target.id)} := {code} in\n  {cont(env2)}")
        if isinstance(target, ast.Attribute) and isinstance(target.value, ast.Name) and target.value.id == 'self' and self.cur.get('method'):
            key = 'self.' + target.attr
            if key not in env:
                raise Unsupported(f"unknown field {key}", node)
            if env[key] != ty:
                raise Unsupported(f"field {key} changes type", node)
            return self.emit_binds(binds, f"let {vname(key)} := {code} in\n  {cont(env)}")
        if isinstance(target, ast.Subscript) and isinstance(target.value, ast.Name):
            arr = target.value.id
            if arr not in env or env[arr] != L:
                raise Unsupported("subscript assignment to non-list", node)
            if isinstance(target.slice, ast.Slice):
                sl = target.slice
                if sl.lower is None and sl.upper is None and sl.step is None:
                    if ty != L:
                        raise Unsupported("slice assignment of non-list", node)
                    return self.emit_binds(binds, f"let {vname(arr)} := {code} in\n  {cont(env)}")
                raise Unsupported("general slice assignment", node)
            ib, ic, it = self.expr(target.slice, env)
            if it != Z or ty != Z:
                raise Unsupported("subscript assignment types", node)
            return self.emit_binds(binds + ib, f"let {vname(arr)} := zset {vname(arr)} ({ic}) ({code}) in\n  {cont(env)}")
        raise Unsupported("assignment target", node)

    def expr_stmt(self, s, env, cont):
        c = s.value
        if isinstance(c, ast.Call):
            # x.reverse()
            if isinstance(c.func, ast.Attribute) and isinstance(c.func.value, ast.Name) and c.func.attr == 'reverse' and not c.args:
                x = c.func.value.id
                if x in env and env[x] == L:
                    return f"let {vname(x)} := rev {vname(x)} in\n  {cont(env)}"
            # f(x, ...) with f in-place on first parameter
            if isinstance(c.func, ast.Name) and c.func.id in self.funcs:
                fi = self.funcs[c.func.id]
                if fi.mutates is not None and c.args and isinstance(c.args[0], ast.Name):
                    x = c.args[0].id
                    binds, code, ty = self.call(fi, c.args, env, c)
                    return self.emit_binds(binds, f"let {vname(x)} := {code} in\n  {cont(env)}")
        raise Unsupported("expression statement", s)

    def if_stmt(self, s, rest, env, k):
        cb, cc, ct = self.expr(s.test, env)
        cc = self.as_bool(cc, ct, s.test)
        body, orelse = s.body, s.orelse
        exits = contains(body + orelse, (ast.Return, ast.Raise, ast.Break), stop_at_loops=False)
        if not exits:
            mod = [a for a in assigned_vars(body + orelse) if not isinstance(a, tuple)]
            # include in-place call targets
            for a in assigned_vars(body + orelse):
                if isinstance(a, tuple) and a[1] in self.funcs and self.funcs[a[1]].mutates is not None and a[2] not in mod:
                    mod.append(a[2])
            live = [m for m in mod if m in env]
            # variables first assigned inside a branch must be assigned in both to be joined
            new_both = [m for m in mod if m not in env and m in assigned_vars(body) and m in assigned_vars(orelse)]
            joined = live + new_both
            if not joined:
                return self.emit_binds(cb, self.stmts(rest, env, k))
            tup = self.tuple_of([vname(m) for m in joined])
            # translate the branches
            env_b, env_o = env.copy(), env.copy()
            types = {}

            def branch_end(which):
                def f(env_):
                    for m in joined:
                        if m not in env_:
                            raise Unsupported(f"variable {m} not assigned on every path", s)
                        types.setdefault(m, env_[m])
                        if types[m] != env_[m]:
                            raise Unsupported(f"variable {m} has different types in branches", s)
                    return tup
                return f
            bcode = self.stmts(body, env_b, branch_end('b'))
            ocode = self.stmts(orelse, env_o, branch_end('o'))
            env2 = env.copy()
            for m in joined:
                env2.set(m, types[m])
            pat = self.tuple_pat([vname(m) for m in joined])
            return self.emit_binds(cb, f"let {pat} := (if {cc} then {bcode} else {ocode}) in\n  {self.stmts(rest, env2, k)}")
        # branches may exit: duplicate the continuation where needed
        if contains(body + orelse, ast.Break, stop_at_loops=True) and not self.cur.get('in_loop'):
            raise Unsupported("break outside loop", s)
        kk = lambda env_: self.stmts(rest, env_, k)
        bcode = self.stmts(body, env.copy(), kk)
        ocode = self.stmts(orelse, env.copy(), kk)
        return self.emit_binds(cb, f"if {cc} then ({bcode}) else ({ocode})")

    def tuple_of(self, names):
        return names[0] if len(names) == 1 else '(' + ', '.join(names) + ')'

    def tuple_pat(self, names):
        return names[0] if len(names) == 1 else "'(" + ', '.join(names) + ')'

    def as_bool(self, code, ty, node):
        if ty == B:
            return code
        raise Unsupported("non-bool condition", node)

    # ---- loops
    def loop_state(self, body, env):
        mod = []
        for a in assigned_vars(body):
            if isinstance(a, tuple):
                if a[1] in self.funcs and self.funcs[a[1]].mutates is not None:
                    a = a[2]
                else:
                    continue
            if a in env and a not in mod:
                mod.append(a)
        return mod

    def for_stmt(self, s, env, cont):
        if s.orelse:
            raise Unsupported("for-else", s)
        if not (isinstance(s.iter, ast.Call) and isinstance(s.iter.func, ast.Name) and s.iter.func.id == 'range'):
            raise Unsupported("for over non-range", s)
        if not isinstance(s.target, ast.Name):
            raise Unsupported("for target", s)
        if contains(s.body, ast.Raise):
            raise Unsupported("raise inside loop", s)
        args = s.iter.args
        binds = []
        if len(args) == 1:
            lo = "0"
            b, hi, t = self.expr(args[0], env)
            binds += b
        elif len(args) == 2:
            b, lo, t0 = self.expr(args[0], env)
            binds += b
            b, hi, t = self.expr(args[1], env)
            binds += b
        else:
            raise Unsupported("range with step", s)
        if any(m for _, _, m in binds):
            raise Unsupported("effectful range bound", s)
        i = s.target.id
        mod = self.loop_state(s.body, env)
        has_break = contains(s.body, ast.Break, stop_at_loops=True)
        has_ret = contains(s.body, ast.Return)
        if i in mod:
            raise Unsupported("loop variable assigned in body", s)
        state = [vname(m) for m in mod]
        if has_break:
            state.append('brk_')
        ret_ty = None
        if has_ret:
            state.append('ret_')
        if not state:
            return cont(env)
        # free variables of the body that are not state: captured from context -> pass as params
        self.loop_counter += 1
        bname = f"{self.cur['name']}_body{self.loop_counter}"
        env_b = env.copy()
        env_b.set(i, Z)
        saved = dict(self.cur)
        self.cur['in_loop'] = True
        self.cur['loop_state'] = state
        self.cur['loop_has_ret'] = has_ret
        self.cur['loop_ret_ty'] = None
        tup = self.tuple_of(state)

        def end_body(env_):
            return tup

        # break -> set flag and yield state; return -> set ret_ and yield state
        body_code = self.loop_body(s.body, env_b, end_body, tup, has_break, has_ret)
        ret_ty = self.cur.get('loop_ret_ty')
        outer_in_loop = saved.get('in_loop')
        self.cur['in_loop'] = outer_in_loop
        self.cur['loop_state'] = saved.get('loop_state')
        self.cur['loop_has_ret'] = saved.get('loop_has_ret')
        self.cur['loop_ret_ty'] = saved.get('loop_ret_ty')
        guard = None
        if has_break and has_ret:
            guard = "brk_ || (match ret_ with Some _ => true | None => false end)"
        elif has_break:
            guard = "brk_"
        elif has_ret:
            guard = "(match ret_ with Some _ => true | None => false end)"
        if guard:
            body_code = f"if {guard} then {tup} else\n  {body_code}"
        # captured variables: every env var used; simplest is to close over them by making the body
        # a local `let` function would lose the "named Definition" convention, so pass all env vars
        # that occur in the body text as explicit parameters.
        captured = [v for v in env.d if v not in mod and v != i and (vname(v) in _idents(body_code))]
        cap_params = ' '.join(f"({vname(v)} : {coq_ty(env[v])})" for v in captured)
        st_types = [coq_ty(env[m]) for m in mod]
        if has_break:
            st_types.append('bool')
        if has_ret:
            st_types.append(f"option {coq_ty(ret_ty or Z)}")
        st_ty = ' * '.join(st_types)
        pat = self.tuple_pat(state)
        fuelp = "(fuel : nat) " if self.cur['fuel'] and 'fuel' in _idents(body_code) else ""
        self.out.append(
            f"Definition {bname} {fuelp}{cap_params} (v_{i} : Z) (st : {st_ty}) : {st_ty} :=\n"
            f"  let {pat} := st in\n  {body_code}.")
        init = list(state)
        if has_break:
            init[init.index('brk_')] = 'false'
        if has_ret:
            init[init.index('ret_')] = 'None'
        init_t = self.tuple_of(init)
        cap_args = ' '.join(vname(v) for v in captured)
        fuela = "fuel " if fuelp else ""
        call = f"for_range ({lo}) ({hi}) ({bname} {fuela}{cap_args}) {init_t}"
        after = cont(env)
        if has_ret:
            self.note_ret(ret_ty or Z)
            if self.cur.get('method'):
                raise Unsupported("return inside loop in method", s)
            after = f"match ret_ with Some r_ => {self.wrap_ret('r_')} | None =>\n  {after} end"
        return self.emit_binds(binds, f"let {pat} := {call} in\n  {after}")

    def loop_body(self, ss, env, k, tup, has_break, has_ret):
        """Like stmts but `break`/`return` yield the loop state with the flag set."""
        if not ss:
            return k(env)
        s, rest = ss[0], ss[1:]
        if isinstance(s, ast.Break):
            return f"let brk_ := true in {tup}"
        if isinstance(s, ast.Continue):
            return tup
        if isinstance(s, ast.Return):
            if s.value is None:
                raise Unsupported("bare return inside loop", s)
            b, c, t = self.expr(s.value, env)
            if self.cur.get('loop_ret_ty') not in (None, t):
                raise Unsupported("loop return types differ", s)
            self.cur['loop_ret_ty'] = t
            return self.emit_binds(b, f"let ret_ := Some ({c}) in {tup}")
        if isinstance(s, ast.If) and contains([s], (ast.Break, ast.Return, ast.Continue), stop_at_loops=True):
            cb, cc, ct = self.expr(s.test, env)
            cc = self.as_bool(cc, ct, s.test)
            kk = lambda env_: self.loop_body(rest, env_, k, tup, has_break, has_ret)
            bcode = self.loop_body(s.body, env.copy(), kk, tup, has_break, has_ret)
            ocode = self.loop_body(s.orelse, env.copy(), kk, tup, has_break, has_ret)
            return self.emit_binds(cb, f"if {cc} then ({bcode}) else ({ocode})")
        # ordinary statement: reuse stmts for one statement with continuation into loop_body
        return self.stmts([s], env, lambda env_: self.loop_body(rest, env_, k, tup, has_break, has_ret))

    def while_stmt(self, s, env, cont):
        if s.orelse:
            raise Unsupported("while-else", s)
        if contains(s.body, (ast.Raise, ast.Break, ast.Return, ast.Continue)):
            raise Unsupported("exit inside while", s)
        mod = self.loop_state(s.body, env)
        if not mod:
            raise Unsupported("while without state", s)
        state = [vname(m) for m in mod]
        tup = self.tuple_of(state)
        pat = self.tuple_pat(state)
        self.loop_counter += 1
        n = self.loop_counter
        cname_ = f"{self.cur['name']}_cond{n}"
        bname = f"{self.cur['name']}_body{n}"
        cb, cc, ct = self.expr(s.test, env)
        if cb:
            raise Unsupported("effectful while condition", s)
        cc = self.as_bool(cc, ct, s.test)
        body_code = self.stmts(s.body, env.copy(), lambda env_: tup)
        captured = [v for v in env.d if v not in mod and (vname(v) in _idents(body_code) or vname(v) in _idents(cc))]
        cap_params = ' '.join(f"({vname(v)} : {coq_ty(env[v])})" for v in captured)
        cap_args = ' '.join(vname(v) for v in captured)
        st_ty = ' * '.join(coq_ty(env[m]) for m in mod)
        self.out.append(f"Definition {cname_} {cap_params} (st : {st_ty}) : bool :=\n  let {pat} := st in\n  {cc}.")
        self.out.append(f"Definition {bname} {cap_params} (st : {st_ty}) : {st_ty} :=\n  let {pat} := st in\n  {body_code}.")
        if not self.cur['monadic']:
            raise Unsupported("while in non-monadic function (needs fuel error)", s)
        return (f"match while_loop fuel ({cname_} {cap_args}) ({bname} {cap_args}) {tup} with\n"
                f"  | None => Err EFuel\n  | Some {pat.lstrip(chr(39))} =>\n  {cont(env)} end")

    # -------------------------------------------------------------------- expressions
    def expr(self, e, env):
        """-> (binds, code, type); binds = [(coqname, code, monadic)] to run first (in order)."""
        if isinstance(e, ast.Constant):
            if isinstance(e.value, bool):
                return [], ('true' if e.value else 'false'), B
            if isinstance(e.value, int):
                return [], (str(e.value) if e.value >= 0 else f"({e.value})"), Z
            if e.value is None:
                return [], 'tt', U
            raise Unsupported(f"constant {e.value!r}", e)
        if isinstance(e, ast.Name):
            if e.id in env:
                return [], vname(e.id), env[e.id]
            if e.id in self.consts:
                return [], self.consts[e.id], Z
            raise Unsupported(f"unknown name {e.id}", e)
        if isinstance(e, ast.Attribute):
            if isinstance(e.value, ast.Name) and e.value.id == 'self' and ('self.' + e.attr) in env:
                return [], vname('self.' + e.attr), env['self.' + e.attr]
            # obj.value for abstracted objects
            b, c, t = self.expr(e.value, env)
            if isinstance(t, tuple) and t[0] == 'obj':
                raise Unsupported("attribute of object", e)
            if t == ('abs', 'SequenceStart') and e.attr == 'value':
                return b, c, Z
            raise Unsupported(f"attribute {e.attr}", e)
        if isinstance(e, ast.UnaryOp):
            b, c, t = self.expr(e.operand, env)
            if isinstance(e.op, ast.USub) and t == Z:
                return b, f"(- {c})", Z
            if isinstance(e.op, ast.Not) and t == B:
                return b, f"(negb {c})", B
            raise Unsupported("unary op", e)
        if isinstance(e, ast.BinOp):
            # int(a / b)
            lb, lc, lt = self.expr(e.left, env)
            rb, rc, rt = self.expr(e.right, env)
            ops = {ast.Add: '+', ast.Sub: '-', ast.Mult: '*', ast.FloorDiv: '/', ast.Mod: 'mod'}
            if lt == Z and rt == Z:
                for k, v in ops.items():
                    if isinstance(e.op, k):
                        return lb + rb, f"({lc} {v} {rc})", Z
                if isinstance(e.op, ast.BitAnd):
                    return lb + rb, f"(Z.land {lc} {rc})", Z
                if isinstance(e.op, ast.BitXor):
                    return lb + rb, f"(Z.lxor {lc} {rc})", Z
                if isinstance(e.op, ast.BitOr):
                    return lb + rb, f"(Z.lor {lc} {rc})", Z
            raise Unsupported(f"binary op {type(e.op).__name__} on {lt},{rt}", e)
        if isinstance(e, ast.BoolOp):
            parts = [self.expr(v, env) for v in e.values]
            if any(t != B for _, _, t in parts):
                raise Unsupported("boolean operator on non-bool", e)
            if any(b for b, _, _ in parts[1:]):
                raise Unsupported("effect under short-circuit operator", e)
            op = '&&' if isinstance(e.op, ast.And) else '||'
            return parts[0][0], '(' + f' {op} '.join(c for _, c, _ in parts) + ')', B
        if isinstance(e, ast.Compare):
            binds = []
            items = []
            for x in [e.left] + e.comparators:
                b, c, t = self.expr(x, env)
                binds += b
                items.append((c, t))
            conj = []
            for (lc, lt), op, (rc, rt) in zip(items, e.ops, items[1:]):
                if lt == Z and rt == Z:
                    m = {ast.Eq: '=?', ast.Lt: '<?', ast.LtE: '<=?', ast.Gt: '>?', ast.GtE: '>=?'}
                    if type(op) in m:
                        conj.append(f"({lc} {m[type(op)]} {rc})")
                    elif isinstance(op, ast.NotEq):
                        conj.append(f"(negb ({lc} =? {rc}))")
                    else:
                        raise Unsupported("comparison operator", e)
                elif lt == B and rt == B and isinstance(op, (ast.Eq, ast.Is)):
                    conj.append(f"(Bool.eqb {lc} {rc})")
                else:
                    raise Unsupported(f"comparison on {lt},{rt}", e)
            return binds, (conj[0] if len(conj) == 1 else '(' + ' && '.join(conj) + ')'), B
        if isinstance(e, ast.IfExp):
            cb, cc, ct = self.expr(e.test, env)
            tb, tc, tt = self.expr(e.body, env)
            ob, oc, ot = self.expr(e.orelse, env)
            if tb or ob or tt != ot or ct != B:
                raise Unsupported("conditional expression", e)
            return cb, f"(if {cc} then {tc} else {oc})", tt
        if isinstance(e, ast.Subscript):
            b, c, t = self.expr(e.value, env)
            if t != L:
                raise Unsupported("subscript of non-list", e)
            if isinstance(e.slice, ast.Slice):
                sl = e.slice
                if sl.step is not None:
                    raise Unsupported("slice step", e)
                lb, lc = [], "0"
                if sl.lower is not None:
                    lb, lc, lt = self.expr(sl.lower, env)
                if sl.upper is None:
                    ub, uc = [], f"(zlen {c})"
                else:
                    ub, uc, ut = self.expr(sl.upper, env)
                return b + lb + ub, f"(slice {c} ({lc}) ({uc}))", L
            ib, ic, it = self.expr(e.slice, env)
            if it != Z:
                raise Unsupported("non-int index", e)
            return b + ib, f"(zget {c} ({ic}))", Z
        if isinstance(e, ast.List):
            binds, cs = [], []
            for x in e.elts:
                b, c, t = self.expr(x, env)
                if t != Z:
                    raise Unsupported("list of non-int", e)
                binds += b
                cs.append(c)
            return binds, '[' + '; '.join(cs) + ']', L
        if isinstance(e, ast.Call):
            return self.call_expr(e, env)
        raise Unsupported(f"expression {type(e).__name__}", e)

    def fresh(self, base='t'):
        self.loop_counter += 1
        return f"{base}{self.loop_counter}_"

    def call_expr(self, e, env):
        f = e.func
        if e.keywords:
            raise Unsupported("keyword arguments", e)
        if isinstance(f, ast.Name):
            n = f.id
            if n == 'len' and len(e.args) == 1:
                b, c, t = self.expr(e.args[0], env)
                if t != L:
                    raise Unsupported("len of non-list", e)
                return b, f"(zlen {c})", Z
            if n in ('min', 'max') and len(e.args) == 2:
                b1, c1, t1 = self.expr(e.args[0], env)
                b2, c2, t2 = self.expr(e.args[1], env)
                if t1 != Z or t2 != Z:
                    raise Unsupported("min/max of non-int", e)
                return b1 + b2, f"(Z.{n} {c1} {c2})", Z
            if n == 'bytes' and len(e.args) == 1:
                b, c, t = self.expr(e.args[0], env)
                if t != L:
                    raise Unsupported("bytes() of non-list", e)
                v = self.fresh('bs')
                return b + [(v, f"py_bytes {c}", True)], v, L
            if n == 'bytearray' and len(e.args) == 1:
                b, c, t = self.expr(e.args[0], env)
                if t == Z:
                    return b, f"(zrepeat 0 {c})", L
                if t == L:
                    return b, c, L
                raise Unsupported("bytearray() argument", e)
            if n == 'int' and len(e.args) == 1 and isinstance(e.args[0], ast.BinOp) and isinstance(e.args[0].op, ast.Div):
                b1, c1, t1 = self.expr(e.args[0].left, env)
                b2, c2, t2 = self.expr(e.args[0].right, env)
                if t1 != Z or t2 != Z:
                    raise Unsupported("int(a/b) on non-ints", e)
                return b1 + b2, f"(truediv_int {c1} {c2})", Z
            if n in CONSTRUCTORS:
                binds, cs = [], []
                for a in e.args:
                    b, c, t = self.expr(a, env)
                    if t != Z:
                        raise Unsupported("constructor argument", e)
                    binds += b
                    cs.append(c)
                if len(cs) != CONSTRUCTORS[n]:
                    raise Unsupported("constructor arity", e)
                return binds, (cs[0] if len(cs) == 1 else '(' + ', '.join(cs) + ')'), tuple([Z] * len(cs)) if len(cs) > 1 else Z
            if n in self.funcs:
                return self.call(self.funcs[n], e.args, env, e)
            raise Unsupported(f"call of unknown function {n}", e)
        if isinstance(f, ast.Attribute):
            if f.attr == 'randrange' and isinstance(f.value, ast.Name) and f.value.id == 'random' and len(e.args) == 2:
                b1, c1, t1 = self.expr(e.args[0], env)
                b2, c2, t2 = self.expr(e.args[1], env)
                v = self.fresh('r')
                return b1 + b2 + [(f"({v}, v_draws)", f"randrange ({c1}) ({c2}) v_draws", True)], v, Z
        raise Unsupported("call", e)

    def call(self, fi, args, env, node):
        if len(args) != len(fi.params):
            raise Unsupported("arity (defaults unsupported)", node)
        binds, cs = [], []
        for a, (pn, pt) in zip(args, fi.params):
            b, c, t = self.expr(a, env)
            if t != pt:
                raise Unsupported(f"argument type {t} for parameter {pn}:{pt}", node)
            binds += b
            cs.append(f"({c})" if ' ' in c and not c.startswith('(') else c)
        code = fi.name + (' fuel' if fi.needs_fuel else '') + ' ' + ' '.join(cs)
        if fi.draws:
            code += ' v_draws'
        if fi.may_raise or fi.draws:
            v = self.fresh('c')
            pat = f"({v}, v_draws)" if fi.draws else v
            if not fi.may_raise:
                return binds + [("'" + pat if fi.draws else pat, code, False)], v, fi.ret
            return binds + [(pat, code, True)], v, fi.ret
        return binds, f"({code})", fi.ret

    # -------------------------------------------------------------------- output
    def render(self, requires=()):
        hdr = ["(* GENERATED by tools/py2coq.py from %s -- do not edit *)" % os.path.basename(self.path),
               "From EO Require Import Prelude.Py."]
        for r in requires:
            hdr.append(f"From EO Require Import Gen.{r}.")
        hdr.append("Open Scope Z_scope.")
        hdr.append("")
        return '\n'.join(hdr) + '\n' + '\n\n'.join(self.out) + '\n'


def _idents(code):
    import re
    return set(re.findall(r"[A-Za-z_][A-Za-z_0-9.']*", code))


# constructors treated as tuples (sequence_start): name -> arity
CONSTRUCTORS = {'AccountReplySequenceStart': 1, 'InitSequenceStart': 3, 'PingSequenceStart': 3, 'SimpleSequenceStart': 1}
SIMPLE_STATE_CLASSES = {'PacketSequencer'}
# parameters that are abstracted objects: (class, param) -> type
FIELD_PARAM_TYPES = {('PacketSequencer', 'start'): ('abs', 'SequenceStart')}


def coq_ty(t):  # noqa: F811  (extended with abstract objects)
    if isinstance(t, tuple) and t and t[0] == 'abs':
        return 'Z'
    if isinstance(t, tuple):
        return '(' + ' * '.join(coq_ty(x) for x in t) + ')'
    return t


# ------------------------------------------------------------------------------------ driver
UNITS = [
    # (python file relative to src root, Gen module, requires, imported python names)
    ('eolib/data/eo_numeric_limits.py', 'G_eo_numeric_limits', []),
    ('eolib/data/number_encoding_utils.py', 'G_number_encoding_utils', ['G_eo_numeric_limits']),
    ('eolib/data/string_encoding_utils.py', 'G_string_encoding_utils', []),
    ('eolib/encrypt/server_verification_utils.py', 'G_server_verification_utils', []),
    ('eolib/encrypt/encryption_utils.py', 'G_encryption_utils', []),
    ('eolib/packet/sequence_start.py', 'G_sequence_start', ['G_eo_numeric_limits']),
    ('eolib/packet/packet_sequencer.py', 'G_packet_sequencer', []),
]


def translate_all(src_root, out_dir, only_modules=None):
    """Translate every unit; returns {module: {unit: status}}.  Files are rewritten only on change."""
    report = {}
    known, consts = {}, {}
    os.makedirs(out_dir, exist_ok=True)
    for rel, mod, req in UNITS:
        path = os.path.join(src_root, rel)
        try:
            mt = ModuleTranslator(path, mod, known, consts).translate()
            text = mt.render(req)
            report[mod] = mt.units
            known.update(mt.funcs)
            consts.update(mt.consts)
        except (SyntaxError, OSError, Unsupported) as e:
            report[mod] = {'<module>': f"Unsupported: {e}"}
            text = "(* GENERATED: module untranslatable: %s *)\nFrom EO Require Import Prelude.Py.\n" % str(e).replace('*)', '* )')
        outp = os.path.join(out_dir, mod + '.v')
        old = open(outp).read() if os.path.exists(outp) else None
        if old != text:
            with open(outp, 'w') as f:
                f.write(text)
    return report


if __name__ == '__main__':
    import json
    rep = translate_all(sys.argv[1], sys.argv[2])
    print(json.dumps(rep, indent=1))
