#!/usr/bin/env python3
"""py2coq: fail-closed translator from a small subset of Python (ast) to Gallina.

Way 1 of DESIGN.md section 4.  One Coq file per Python source file.  Anything outside the supported
subset raises Unsupported(node, file:line) and *that unit* (function / class) is reported as
untranslatable; nothing is skipped silently.

Conventions of the output
  * Python int -> Z, bool -> bool, bytes/bytearray/list[int] -> list Z, str -> list Z (code points),
    None -> unit.
  * local variable x -> v_x ; function f -> f (module level, leading underscores kept as 'u_')
  * a function that may raise returns `res T`; one that cannot returns `T`.
  * a function that mutates its first bytearray parameter in place and returns None returns the new
    value of that parameter.
  * loops: for i in range(..) -> for_range lo hi body st, body emitted as its own Definition.
    while -> while_loop fuel cond body st (fuel is an extra first parameter `fuel : nat`).
  * object classes (OBJ_CLASSES: EoReader, EoWriter): a record <C>_st of the fields assigned in __init__,
    <C>_init, and one function per member, each its own unit in the report:
      method / property getter / setter (<C>_set_<p>):  self -> args -> <C>_st * T          (cannot raise)
                                                         self -> args -> <C>_st * res T      (can raise; the state
                                                         component is the state at the raise)
      @staticmethod: a plain function <C>_<name>.
    Which of the two shapes is decided by trial (NeedsMonadic), not by a syntactic estimate.  Members are emitted
    in dependency order; calls of members of self thread the state (every field is rebound from the callee's
    result); a field read that precedes such a call in the same expression is snapshotted (seq).  Optional[int]
    parameters are `option Z`, refined by `if x is None:`.  A bytearray parameter mutated in place (and never
    rebound) by a method returning None is returned as the result and rebound at the call site.  The extra
    builtins (cp1252 codec, bytearray.append, bytes.find, slice assignment) live in coq/Prelude/PyStr.v.
    Side conditions (index in range, slice bounds >= 0, bytearray(n) with n >= 0) are listed in a comment at the
    top of the generated file and in ModuleTranslator.side.
"""
import ast
import sys
import os


class Unsupported(Exception):
    def __init__(self, msg, node=None):
        self.msg = msg
        self.line = getattr(node, 'lineno', None)
        super().__init__(f"{msg} (line {self.line})")


# ------------------------------------------------------------------------------------ types
Z, B, L, U = 'Z', 'bool', 'list Z', 'unit'


def coq_ty(t):
    if isinstance(t, tuple):
        return '(' + ' * '.join(coq_ty(x) for x in t) + ')'
    return t


def ann_type(ann):
    if ann is None:
        return Z
    if isinstance(ann, ast.Name):
        return {'int': Z, 'bool': B, 'bytes': L, 'bytearray': L, 'str': L, 'memoryview': L}.get(ann.id) or _bad(ann)
    if isinstance(ann, ast.Constant) and ann.value is None:
        return U
    if isinstance(ann, ast.Constant) and isinstance(ann.value, str):
        return ('obj', ann.value)
    if (isinstance(ann, ast.Subscript) and isinstance(ann.value, ast.Name) and ann.value.id == 'Optional'
            and isinstance(ann.slice, ast.Name) and ann.slice.id in ('int', 'bool')):
        return ('opt', ann_type(ann.slice))
    _bad(ann)


def _bad(node):
    raise Unsupported(f"annotation {ast.dump(node)}", node)


class NeedsMonadic(Unsupported):
    """Raised while translating a unit as non-raising when an exception path shows up (the unit is then
    retried as raising)."""


def _self_field(n):
    return isinstance(n, ast.Attribute) and isinstance(n.value, ast.Name) and n.value.id == 'self'


def cname(name):
    """Coq identifier for a Python module-level name."""
    if name.startswith('_'):
        return 'u' + name
    return name


def vname(name):
    return 'v_' + name.replace('.', '_')


class FuncInfo:
    def __init__(self, name, params, ret, may_raise, mutates, needs_fuel, draws=False):
        self.name = name          # coq name
        self.params = params      # list of (pyname, type)
        self.ret = ret            # coq-level return type (after adding mutated param)
        self.may_raise = may_raise
        self.mutates = mutates    # index of in-place mutated param or None
        self.needs_fuel = needs_fuel
        self.draws = draws        # consumes random draws: extra param `draws : list Z`, returns (.., draws)
        self.defaults = None      # per-parameter default expression (ast) or None
        self.kind = 'function'    # object classes: 'method' | 'getter' | 'setter' | 'static'


class Env:
    """Variable typing environment (Python local name -> type)."""

    def __init__(self, d=None):
        self.d = dict(d or {})

    def copy(self):
        return Env(self.d)

    def __contains__(self, k):
        return k in self.d

    def __getitem__(self, k):
        return self.d[k]

    def set(self, k, t):
        self.d[k] = t


def assigned_vars(stmts):
    """Names assigned anywhere in a statement list (in order of first appearance)."""
    out = []

    def add(n):
        if n not in out:
            out.append(n)

    class V(ast.NodeVisitor):
        def visit_Assign(self, n):
            for t in n.targets:
                self._t(t)
            self.generic_visit(n)

        def visit_AugAssign(self, n):
            self._t(n.target)
            self.generic_visit(n)

        def visit_AnnAssign(self, n):
            self._t(n.target)
            self.generic_visit(n)

        def visit_For(self, n):
            self.generic_visit(n)

        def visit_Expr(self, n):
            # in-place calls: x.reverse(), f(x)
            c = n.value
            if isinstance(c, ast.Call):
                if isinstance(c.func, ast.Attribute) and isinstance(c.func.value, ast.Name):
                    if c.func.attr in ('reverse', 'append', 'extend'):
                        add(c.func.value.id)
                    elif c.func.value.id == 'self':
                        # self.m(x, ..): m may mutate its first argument in place (resolved by the caller)
                        for i_, a_ in enumerate(c.args):
                            if isinstance(a_, ast.Name):
                                add(('maybe', 'self.' + c.func.attr, a_.id, i_))
                elif (isinstance(c.func, ast.Attribute) and _self_field(c.func.value)
                      and c.func.attr in ('reverse', 'append', 'extend')):
                    add('self.' + c.func.value.attr)
                elif isinstance(c.func, ast.Name) and c.args and isinstance(c.args[0], ast.Name):
                    add(('maybe', c.func.id, c.args[0].id))
            self.generic_visit(n)

        def _t(self, t):
            if isinstance(t, ast.Name):
                add(t.id)
            elif isinstance(t, ast.Subscript) and isinstance(t.value, ast.Name):
                add(t.value.id)
            elif isinstance(t, ast.Subscript) and _self_field(t.value):
                add('self.' + t.value.attr)
            elif isinstance(t, ast.Tuple):
                for e in t.elts:
                    self._t(e)
            elif _self_field(t):
                add('self.' + t.attr)
            elif isinstance(t, ast.Attribute):
                pass
            else:
                raise Unsupported("assignment target", t)

    v = V()
    for s in stmts:
        v.visit(s)
    return out


def contains(stmts, kinds, stop_at_loops=False):
    class V(ast.NodeVisitor):
        found = False

        def generic_visit(self, n):
            if isinstance(n, kinds):
                self.found = True
            if stop_at_loops and isinstance(n, (ast.For, ast.While)):
                return
            super().generic_visit(n)

    v = V()
    for s in stmts:
        if isinstance(s, kinds):
            return True
        v.visit(s)
    return v.found


def always_exits(stmts):
    """True when every path through stmts ends in return/raise."""
    if not stmts:
        return False
    last = stmts[-1]
    if isinstance(last, (ast.Return, ast.Raise)):
        return True
    if isinstance(last, ast.If):
        return always_exits(last.body) and always_exits(last.orelse)
    return False


class ModuleTranslator:
    def __init__(self, path, modname, known=None, consts=None):
        self.path = path
        self.modname = modname
        self.src = open(path).read()
        self.tree = ast.parse(self.src)
        self.funcs = dict(known or {})      # python name -> FuncInfo (imported + local)
        self.consts = dict(consts or {})    # python name -> coq name (int constants)
        self.out = []                       # emitted Coq vernacular
        self.units = {}                     # name -> 'ok' | error string
        self.requires = []
        self.loop_counter = 0
        self.cur = None
        self.obj = None                     # object class being translated (see obj_class)
        self.needs_pystr = False            # output uses Prelude.PyStr
        self.side = []                      # side conditions assumed by the translation: (unit, line, text)
        self.imported = set()               # names bound by `from m import a, b`
        for n_ in self.tree.body:
            if isinstance(n_, ast.ImportFrom):
                self.imported.update(a_.asname or a_.name for a_ in n_.names)

    def note_side(self, node, text):
        unit = self.cur['name'] if self.cur else '?'
        item = (unit, getattr(node, 'lineno', None), text)
        if item not in self.side:
            self.side.append(item)

    # -------------------------------------------------------------------- module level
    def ordered_body(self):
        """Module statements with functions moved after the functions they call (Python resolves names
        at call time; Coq needs definitions first)."""
        body = list(self.tree.body)
        fdefs = {n.name: n for n in body if isinstance(n, ast.FunctionDef)}
        order, seen = [], set()

        def visit(name):
            if name in seen:
                return
            seen.add(name)
            for c in ast.walk(fdefs[name]):
                if isinstance(c, ast.Call) and isinstance(c.func, ast.Name) and c.func.id in fdefs and c.func.id != name:
                    visit(c.func.id)
            order.append(fdefs[name])
        for n in body:
            if isinstance(n, ast.FunctionDef):
                visit(n.name)
        it = iter(order)
        return [next(it) if isinstance(n, ast.FunctionDef) else n for n in body]

    def translate(self, only=None):
        for node in self.ordered_body():
            if isinstance(node, ast.Expr) and isinstance(node.value, ast.Constant) and isinstance(node.value.value, str):
                continue
            if isinstance(node, (ast.Import, ast.ImportFrom)):
                continue
            if isinstance(node, ast.Assign) and len(node.targets) == 1 and isinstance(node.targets[0], ast.Name):
                name = node.targets[0].id
                if name == '__all__':
                    continue
                try:
                    binds, code, ty = self.expr(node.value, Env())
                    if binds or ty != Z:
                        raise Unsupported("module constant must be a pure int", node)
                    self.out.append(f"Definition {cname(name)} : Z := {code}.")
                    self.consts[name] = cname(name)
                    self.units[name] = 'ok'
                except Unsupported as e:
                    self.units[name] = f"Unsupported: {e}"
                continue
            if isinstance(node, ast.FunctionDef):
                if only is not None and node.name not in only:
                    continue
                self.func_unit(node, node.name, cname(node.name))
                continue
            if isinstance(node, ast.ClassDef):
                if only is not None and node.name not in only:
                    continue
                self.class_unit(node)
                continue
            self.units[f"<stmt line {node.lineno}>"] = f"Unsupported: top-level {type(node).__name__}"
        return self

    def func_unit(self, node, pyname, coqname, static_of=None):
        save = len(self.out)
        try:
            self.function(node, pyname, coqname)
            self.units[pyname] = 'ok'
        except Unsupported as e:
            del self.out[save:]
            self.units[pyname] = f"Unsupported: {e}"

    def class_unit(self, node):
        # Supported classes: (a) classes whose translated content is @staticmethod functions returning
        # constructor calls (sequence_start), handled by treating constructors as tuples;
        # (b) "simple state classes" (packet_sequencer): __init__ assigning self._x, methods.
        cls = node.name
        if cls in OBJ_CLASSES:
            return self.obj_class_unit(node)
        statics = [n for n in node.body if isinstance(n, ast.FunctionDef)
                   and any(isinstance(d, ast.Name) and d.id == 'staticmethod' for d in n.decorator_list)]
        init = [n for n in node.body if isinstance(n, ast.FunctionDef) and n.name == '__init__']
        for n in statics:
            if n.name in ('zero',):
                continue
            self.func_unit(n, f"{cls}.{n.name}", f"{cls}_{n.name}")
        if cls in SIMPLE_STATE_CLASSES:
            save = len(self.out)
            try:
                self.state_class(node)
                self.units[cls] = 'ok'
            except Unsupported as e:
                del self.out[save:]
                self.units[cls] = f"Unsupported: {e}"

    # -------------------------------------------------------------------- simple state classes
    def state_class(self, node):
        cls = node.name
        fields = []
        init = None
        for n in node.body:
            if isinstance(n, ast.FunctionDef) and n.name == '__init__':
                init = n
        if init is None:
            raise Unsupported("class without __init__", node)
        # fields: self._x = <expr over params>
        env = Env()
        params = []
        for a in init.args.args[1:]:
            t = FIELD_PARAM_TYPES.get((cls, a.arg)) or ann_type(a.annotation if not isinstance(a.annotation, ast.Name) or a.annotation.id in ('int', 'bool', 'bytes', 'bytearray', 'str') else None)
            env.set(a.arg, t)
            params.append((a.arg, t))
        inits = []
        for s in init.body:
            if isinstance(s, ast.Expr) and isinstance(s.value, ast.Constant):
                continue
            if (isinstance(s, ast.Assign) and len(s.targets) == 1 and isinstance(s.targets[0], ast.Attribute)
                    and isinstance(s.targets[0].value, ast.Name) and s.targets[0].value.id == 'self'):
                binds, code, ty = self.expr(s.value, env)
                if binds:
                    raise Unsupported("effectful field initialiser", s)
                fields.append((s.targets[0].attr, ty))
                inits.append(code)
            else:
                raise Unsupported("__init__ statement", s)
        rec = f"{cls}_st"
        self.out.append(f"Record {rec} := mk_{rec} {{ " + '; '.join(f"{cls}_{f} : {coq_ty(t)}" for f, t in fields) + " }.")
        ps = ' '.join(f"({vname(p)} : {coq_ty(t)})" for p, t in params)
        self.out.append(f"Definition {cls}_init {ps} : {rec} := mk_{rec} " + ' '.join(f"({c})" for c in inits) + ".")
        self.class_fields = {f: t for f, t in fields}
        self.class_name = cls
        for n in node.body:
            if isinstance(n, ast.FunctionDef) and n.name != '__init__':
                if n.decorator_list:
                    raise Unsupported("decorated method in state class", n)
                self.method(n, cls, rec, fields)
        self.class_fields = None

    def method(self, node, cls, rec, fields):
        """method(self, args) -> (self', result); self fields are locals f_<name>."""
        env = Env()
        for f, t in fields:
            env.set('self.' + f, t)
        params = []
        for a in node.args.args[1:]:
            t = FIELD_PARAM_TYPES.get((cls, a.arg)) or ann_type(a.annotation if isinstance(a.annotation, ast.Name) and a.annotation.id in ('int', 'bool', 'bytes', 'bytearray', 'str') else None)
            env.set(a.arg, t)
            params.append((a.arg, t))
        self.loop_counter = 0
        self.cur = dict(monadic=False, mut=None, ret=None, fuel=False, name=f"{cls}_{node.name}", method=(rec, fields), draws=False)
        body = [s for s in node.body if not (isinstance(s, ast.Expr) and isinstance(s.value, ast.Constant))]

        def pack(env_):
            return f"mk_{rec} " + ' '.join(vname('self.' + f) for f, _ in fields)

        self.cur['pack'] = pack
        code = self.stmts(body, env, lambda env_: f"({pack(env_)}, tt)")
        ps = ' '.join(f"({vname(p)} : {coq_ty(t)})" for p, t in params)
        unpack = ' '.join(f"let {vname('self.' + f)} := {cls}_{f} self in" for f, _ in fields)
        self.out.append(f"Definition {cls}_{node.name} (self : {rec}) {ps} :=\n  {unpack}\n  {code}.")

    # -------------------------------------------------------------------- object classes
    # EoReader / EoWriter: a record of the `self.x` fields assigned in __init__, and one Coq function per
    # method / property / setter:  self -> args -> self' * result   (result : res T when the member can
    # raise; the state component is then the state at the moment of the raise).  @staticmethods become
    # plain functions.  Every member is its own unit in the report.
    def obj_class_unit(self, node):
        cls = node.name
        save = len(self.out)
        try:
            members = self.obj_class_head(node)
            self.units[cls] = 'ok'
        except Unsupported as e:
            del self.out[save:]
            self.obj = None
            self.units[cls] = f"Unsupported: {e}"
            return
        for kind, name, n in members:
            unit = f"{cls}.{name}" + ('.setter' if kind == 'setter' else '')
            save = len(self.out)
            side_save = len(self.side)
            try:
                self.obj_member(n, kind)
                self.units[unit] = 'ok'
            except Unsupported as e:
                del self.out[save:]
                del self.side[side_save:]
                self.units[unit] = f"Unsupported: {e}"
        self.obj = None
        self.cur = None

    def member_kind(self, n):
        ds = n.decorator_list
        if not ds:
            return 'method'
        if len(ds) == 1:
            d = ds[0]
            if isinstance(d, ast.Name) and d.id == 'staticmethod':
                return 'static'
            if isinstance(d, ast.Name) and d.id == 'property':
                return 'getter'
            if isinstance(d, ast.Attribute) and d.attr == 'setter' and isinstance(d.value, ast.Name) and d.value.id == n.name:
                return 'setter'
        raise Unsupported("decorator", n)

    def obj_class_head(self, node):
        """Record + init; returns the members in dependency order."""
        cls = node.name
        for b in node.bases:
            if not (isinstance(b, ast.Name) and b.id == 'object'):
                raise Unsupported("base class", node)
        if node.keywords or node.decorator_list:
            raise Unsupported("class keywords/decorators", node)
        init, members = None, []
        for n in node.body:
            if isinstance(n, ast.Expr) and isinstance(n.value, ast.Constant) and isinstance(n.value.value, str):
                continue
            if isinstance(n, ast.AnnAssign) and n.value is None and isinstance(n.target, ast.Name):
                continue        # `_x: T` declarations carry no behaviour
            if isinstance(n, ast.FunctionDef):
                if n.name == '__init__':
                    init = n
                else:
                    members.append((self.member_kind(n), n.name, n))
                continue
            raise Unsupported(f"class-level {type(n).__name__}", n)
        if init is None:
            raise Unsupported("class without __init__", node)
        a = init.args
        if a.vararg or a.kwarg or a.kwonlyargs or a.posonlyargs or a.defaults or not a.args or a.args[0].arg != 'self':
            raise Unsupported("__init__ signature", init)
        rec = f"{cls}_st"
        self.cur = dict(monadic=False, mut=None, ret=None, fuel=False, name=f"{cls}_init", method=None, draws=False)
        self.obj = dict(cls=cls, rec=rec, fields=[], kinds={}, pack=None, init=None, members={}, names=set())
        env, params = Env(), []
        for p in a.args[1:]:
            t = ann_type(p.annotation)
            env.set(p.arg, t)
            params.append((p.arg, t))
        fields, inits, kinds = [], [], {}
        for s in init.body:
            if isinstance(s, ast.Expr) and isinstance(s.value, ast.Constant):
                continue
            if not (isinstance(s, ast.Assign) and len(s.targets) == 1 and _self_field(s.targets[0])):
                raise Unsupported("__init__ statement", s)
            f = s.targets[0].attr
            if f in kinds:
                raise Unsupported("field assigned twice in __init__", s)
            binds, code, ty = self.expr(s.value, env)
            if binds or ty not in (Z, B, L):
                raise Unsupported("field initialiser", s)
            v = s.value
            kinds[f] = v.func.id if isinstance(v, ast.Call) and isinstance(v.func, ast.Name) else None
            if ty == L and kinds[f] not in ('bytearray', 'memoryview', 'bytes'):
                raise Unsupported("sequence field must be built by bytearray()/memoryview()/bytes() (aliasing)", s)
            fields.append((f, ty))
            inits.append(code)
        names = {rec, f"mk_{rec}", f"{cls}_init"} | {f"{cls}_{f}" for f, _ in fields}
        if len(names) != 3 + len(fields):
            raise Unsupported("name clash among fields", node)
        self.out.append(f"Record {rec} := mk_{rec} {{ " + '; '.join(f"{cls}_{f} : {coq_ty(t)}" for f, t in fields) + " }.")
        ps = ' '.join(f"({vname(p)} : {coq_ty(t)})" for p, t in params)
        self.out.append(f"Definition {cls}_init {ps} : {rec} :=\n  mk_{rec} " + ' '.join(f"({c})" for c in inits) + ".")
        init_info = FuncInfo(f"{cls}_init", params, ('cls', cls), False, None, False)
        pack = f"mk_{rec} " + ' '.join(vname('self.' + f) for f, _ in fields)
        self.obj = dict(cls=cls, rec=rec, fields=fields, kinds=kinds, pack=pack, init=init_info, members={}, names=names,
                        member_names={(('set', nm) if k == 'setter' else nm) for k, nm, _ in members})
        if len(self.obj['member_names']) != len(members):
            raise Unsupported("member defined twice", node)
        # dependency order (Coq needs callees first); recursion is not supported
        keyed = {(('set', nm) if k == 'setter' else nm): (k, nm, n) for k, nm, n in members}

        def deps(n):
            out = []
            for c in ast.walk(n):
                if _self_field(c) or (isinstance(c, ast.Attribute) and isinstance(c.value, ast.Name) and c.value.id == cls):
                    key = ('set', c.attr) if isinstance(c.ctx, ast.Store) else c.attr
                    if key in keyed and key not in out:
                        out.append(key)
            return out
        order, state = [], {}

        def visit(key):
            if state.get(key) == 'done':
                return
            if state.get(key) == 'open':
                return          # recursion: the callee is not yet translated when the caller is -> rejected there
            state[key] = 'open'
            for d in deps(keyed[key][2]):
                visit(d)
            state[key] = 'done'
            order.append(keyed[key])
        for k, nm, n in members:
            visit(('set', nm) if k == 'setter' else nm)
        return order

    def obj_member(self, node, kind):
        o = self.obj
        cls, rec = o['cls'], o['rec']
        a = node.args
        if a.vararg or a.kwarg or a.kwonlyargs or a.posonlyargs:
            raise Unsupported("varargs", node)
        pyname = node.name
        coqname = f"{cls}_set_{pyname}" if kind == 'setter' else f"{cls}_{pyname}"
        if coqname in o['names']:
            raise Unsupported(f"Coq name clash {coqname}", node)
        if kind == 'static':
            save = len(self.out)
            side_save = len(self.side)
            for monadic in (False, True):
                try:
                    self.function(node, f"{cls}.{pyname}", coqname, monadic=monadic)
                    break
                except NeedsMonadic:
                    del self.out[save:]
                    del self.side[side_save:]
                    if monadic:
                        raise
            fi = self.funcs.pop(f"{cls}.{pyname}")
            fi.kind = 'static'
            o['members'][pyname] = fi
            o['names'].add(coqname)
            return
        if not a.args or a.args[0].arg != 'self':
            raise Unsupported("method without self", node)
        if kind == 'getter' and len(a.args) != 1 or kind == 'setter' and len(a.args) != 2:
            raise Unsupported("property signature", node)
        params, defaults = [], []
        ndef = len(a.defaults)
        for i, p in enumerate(a.args[1:]):
            t = ann_type(p.annotation)
            if p.arg == 'self' or p.arg.startswith('self_'):
                raise Unsupported("parameter name", node)
            params.append((p.arg, t))
            j = i - (len(a.args) - 1 - ndef)
            defaults.append(a.defaults[j] if j >= 0 else None)
        body = [s for s in node.body if not (isinstance(s, ast.Expr) and isinstance(s.value, ast.Constant) and isinstance(s.value.value, str))]
        ret_ann = node.returns
        returns_none = not any(isinstance(n, ast.Return) and n.value is not None for s in body for n in ast.walk(s))
        if returns_none and ret_ann is not None and not (isinstance(ret_ann, ast.Constant) and ret_ann.value is None):
            raise Unsupported("no value returned but annotated to return one", node)
        # a bytearray parameter mutated in place (and never rebound): its final value is the result
        mut = None
        pnames = [p for p, t in params if t == L]
        mutated, rebound = self.param_effects(body, pnames)
        if mutated & rebound:
            raise Unsupported("parameter both mutated in place and rebound", node)
        if mutated:
            if len(mutated) > 1 or not returns_none:
                raise Unsupported("in-place parameter mutation with a return value", node)
            mut = [p for p, _ in params].index(next(iter(mutated)))
        save = len(self.out)
        side_save = len(self.side)
        for monadic in (False, True):
            try:
                code = self.obj_method_body(node, body, coqname, params, mut, returns_none, monadic)
                break
            except NeedsMonadic:
                del self.out[save:]
                del self.side[side_save:]
                if monadic:
                    raise
        rt = self.cur['ret']
        if rt is None:
            raise Unsupported("no return type", node)
        ps = ''.join(f" ({vname(p)} : {coq_ty(t)})" for p, t in params)
        rty = f"res ({coq_ty(rt)})" if monadic else coq_ty(rt)
        self.out.append(f"Definition {coqname} (self : {rec}){ps} : {rec} * {rty} :=\n"
                        f"  let '({o['pack']}) := self in\n  {code}.")
        fi = FuncInfo(coqname, params, rt, monadic, mut, False)
        fi.kind = kind
        fi.defaults = defaults
        o['members'][('set', pyname) if kind == 'setter' else pyname] = fi
        o['names'].add(coqname)

    def obj_method_body(self, node, body, coqname, params, mut, returns_none, monadic):
        o = self.obj
        env = Env()
        for f, t in o['fields']:
            env.set('self.' + f, t)
        for p, t in params:
            env.set(p, t)
        self.loop_counter = 0
        self.cur = dict(monadic=monadic, mut=(params[mut][0] if mut is not None else None), ret=None, fuel=False,
                        name=coqname, method=None, obj=True, precise=True, draws=False, returns_none=returns_none,
                        noexit=0)

        def final(env_):
            if not returns_none:
                raise Unsupported("method may fall off its end without returning a value", node)
            v = vname(self.cur['mut']) if self.cur['mut'] else 'tt'
            self.note_ret(L if self.cur['mut'] else U)
            return self.ret_code(v)
        return self.stmts(body, env, final)

    def param_effects(self, body, pnames):
        """(mutated in place, rebound) among the parameter names pnames."""
        mutated, rebound = set(), set()
        for s in body:
            for n in ast.walk(s):
                targets = []
                if isinstance(n, ast.Assign):
                    targets = n.targets
                elif isinstance(n, (ast.AugAssign, ast.AnnAssign)):
                    targets = [n.target]
                for t in targets:
                    for t_ in (t.elts if isinstance(t, ast.Tuple) else [t]):
                        if isinstance(t_, ast.Name) and t_.id in pnames:
                            rebound.add(t_.id)
                        if isinstance(t_, ast.Subscript) and isinstance(t_.value, ast.Name) and t_.value.id in pnames:
                            mutated.add(t_.value.id)
                if isinstance(n, ast.Call):
                    f = n.func
                    if isinstance(f, ast.Attribute) and isinstance(f.value, ast.Name) and f.value.id in pnames:
                        if f.attr not in ('decode', 'find', 'copy'):
                            mutated.add(f.value.id)
                    fi = None
                    if isinstance(f, ast.Name):
                        fi = self.funcs.get(f.id)
                    elif _self_field(f) and self.obj:
                        fi = self.obj['members'].get(f.attr)
                    if fi is not None and fi.mutates is not None and len(n.args) > fi.mutates:
                        x = n.args[fi.mutates]
                        if isinstance(x, ast.Name) and x.id in pnames:
                            mutated.add(x.id)
        return mutated, rebound

    def ret_code(self, v):
        """Code of `return v` in the current unit."""
        if self.cur.get('obj'):
            pack = self.obj['pack']
            return f"({pack}, Ok ({v}))" if self.cur['monadic'] else f"({pack}, {v})"
        return self.wrap_ret(v)

    def need_monadic(self, node=None):
        if not self.cur['monadic'] and self.cur.get('precise'):
            raise NeedsMonadic("exception path in a unit translated as non-raising", node)
        if self.cur.get('obj') and self.cur.get('noexit'):
            raise Unsupported("raising operation inside a joined branch or loop body", node)

    def self_effects(self, stmts):
        """Do the statements call a (non-static) member of self?  (Such a call may change any field.)"""
        if not self.obj:
            return False
        for s in stmts:
            for n in ast.walk(s):
                if _self_field(n):
                    key = ('set', n.attr) if isinstance(n.ctx, ast.Store) else n.attr
                    fi = self.obj['members'].get(key)
                    if fi is not None and fi.kind != 'static':
                        return True
                    if fi is None and n.attr not in [f for f, _ in self.obj['fields']]:
                        return True     # unknown member: be conservative (it will be rejected later anyway)
        return False

    def stmts_may_raise(self, stmts):
        """Conservative: may executing stmts raise (in an object-class unit)?"""
        for s in stmts:
            for n in ast.walk(s):
                if isinstance(n, ast.Raise):
                    return True
                if isinstance(n, ast.Call):
                    f = n.func
                    if isinstance(f, ast.Name):
                        if f.id in ('len', 'min', 'max', 'memoryview', 'range'):
                            continue
                        if f.id == 'bytearray':
                            continue
                        if f.id in self.funcs and not self.funcs[f.id].may_raise:
                            continue
                        if self.obj and f.id == self.obj['cls']:
                            continue
                        return True
                    if isinstance(f, ast.Attribute):
                        if _self_field(f) and self.obj:
                            fi = self.obj['members'].get(f.attr)
                            if fi is not None and not fi.may_raise:
                                continue
                            return True
                        if f.attr in ('decode', 'find', 'copy', 'extend', 'reverse'):
                            continue
                        return True
                    return True
                if _self_field(n) and self.obj and isinstance(n.ctx, (ast.Load, ast.Store)):
                    key = ('set', n.attr) if isinstance(n.ctx, ast.Store) else n.attr
                    fi = self.obj['members'].get(key)
                    if fi is not None and fi.kind in ('getter', 'setter') and fi.may_raise:
                        return True
        return False

    def self_call(self, name, args, env, node, kind='method', bind_name=None):
        """Call of member `name` of self -> (binds, code, type)."""
        o = self.obj
        if o is None or not self.cur.get('obj'):
            raise Unsupported("self outside an object-class method", node)
        fi = o['members'].get(('set', name) if kind == 'setter' else name)
        if fi is None:
            raise Unsupported(f"self.{name}: unknown, unsupported or recursive member", node)
        if fi.kind == 'static':
            if kind != 'method':
                raise Unsupported("static member used as property", node)
            return self.call(fi, args, env, node)
        if (kind == 'method') != (fi.kind == 'method'):
            raise Unsupported(f"self.{name}: property/method mismatch", node)
        if self.cur.get('in_loop'):
            raise Unsupported("call of a member of self inside a loop", node)
        binds, cs = self.call_args(fi, args, env, node)
        code = f"{fi.name} ({o['pack']})" + ''.join(' ' + c for c in cs)
        v = bind_name or self.fresh('c')
        if fi.may_raise:
            self.need_monadic(node)
        return binds + [(v, code, 'SM' if fi.may_raise else 'S')], v, (fi.ret if fi.mutates is None else L)

    # -------------------------------------------------------------------- functions
    def function(self, node, pyname, coqname, monadic=None):
        if node.args.vararg or node.args.kwarg or node.args.kwonlyargs:
            raise Unsupported("varargs", node)
        env = Env()
        params = []
        for a in node.args.args:
            t = ann_type(a.annotation)
            env.set(a.arg, t)
            params.append((a.arg, t))
        body = [s for s in node.body if not (isinstance(s, ast.Expr) and isinstance(s.value, ast.Constant) and isinstance(s.value.value, str))]
        # does it mutate its first parameter in place?
        mut = None
        if params and params[0][1] == L:
            p0 = params[0][0]
            for a in assigned_vars(body):
                if a == p0:
                    mut = 0
                elif isinstance(a, tuple) and len(a) == 3 and a[2] == p0 and a[1] in self.funcs and self.funcs[a[1]].mutates is not None:
                    mut = 0
        ret_ann = node.returns
        returns_none = ret_ann is None and not contains(body, ast.Return) or (isinstance(ret_ann, ast.Constant) and ret_ann.value is None)
        if not returns_none:
            has_value_return = any(isinstance(n, ast.Return) and n.value is not None for s in body for n in ast.walk(s))
            if not has_value_return:
                returns_none = True
        may_raise = self.may_raise(body) or contains(body, ast.While)
        if monadic is not None:
            # object-class statics: decided by trial (NeedsMonadic) instead of the syntactic estimate
            may_raise = monadic
            if contains(body, ast.While):
                raise Unsupported("while in a static method", node)
        needs_fuel = contains(body, ast.While) or self.calls_fuel(body)
        draws = self.uses_draws(body)
        self.loop_counter = 0
        self.cur = dict(monadic=may_raise, mut=(params[0][0] if mut is not None else None), ret=None,
                        fuel=needs_fuel, name=coqname, method=None, draws=draws, returns_none=returns_none,
                        precise=(monadic is not None))
        if draws:
            env.set('$draws', L)

        def final(env_):
            # falling off the end of the function
            if not returns_none:
                raise Unsupported("function may fall off its end without returning a value", node)
            v = vname(self.cur['mut']) if self.cur['mut'] else 'tt'
            self.note_ret(L if self.cur['mut'] else U)
            return self.wrap_ret(v)

        code = self.stmts(body, env, final)
        ps = ' '.join(f"({vname(p)} : {coq_ty(t)})" for p, t in params)
        if needs_fuel:
            ps = "(fuel : nat) " + ps
        if draws:
            ps = ps + " (v_draws : list Z)"
        self.out.append(f"Definition {coqname} {ps} :=\n  {code}.")
        rt = self.cur['ret']
        self.funcs[pyname] = FuncInfo(coqname, params, rt, may_raise, mut, needs_fuel, draws)
        nd = len(node.args.defaults)
        if nd:
            self.funcs[pyname].defaults = [None] * (len(params) - nd) + list(node.args.defaults)

    def note_ret(self, t):
        if self.cur['ret'] is None:
            self.cur['ret'] = t
        elif self.cur['ret'] != t:
            raise Unsupported(f"inconsistent return types {self.cur['ret']} vs {t}")

    def wrap_ret(self, v):
        if self.cur.get('draws'):
            v = f"({v}, v_draws)"
        if self.cur['monadic']:
            return f"Ok ({v})"
        return v

    def may_raise(self, body):
        for s in body:
            for n in ast.walk(s):
                if isinstance(n, ast.Raise):
                    return True
                if isinstance(n, ast.Call):
                    f = n.func
                    if isinstance(f, ast.Name):
                        if f.id == 'bytes':
                            return True
                        if f.id in self.funcs and self.funcs[f.id].may_raise:
                            return True
                    if isinstance(f, ast.Attribute) and f.attr == 'randrange':
                        return True
                    if isinstance(f, ast.Attribute) and isinstance(f.value, ast.Name):
                        k = f"{f.value.id}.{f.attr}"
                        if k in self.funcs and self.funcs[k].may_raise:
                            return True
        return False

    def calls_fuel(self, body):
        for s in body:
            for n in ast.walk(s):
                if isinstance(n, ast.Call) and isinstance(n.func, ast.Name) and n.func.id in self.funcs and self.funcs[n.func.id].needs_fuel:
                    return True
        return False

    def uses_draws(self, body):
        for s in body:
            for n in ast.walk(s):
                if isinstance(n, ast.Call) and isinstance(n.func, ast.Attribute) and n.func.attr == 'randrange':
                    return True
        return False

    # -------------------------------------------------------------------- statements (CPS)
    def stmts(self, ss, env, k):
        """Translate statement list ss; k(env) gives the code of what follows."""
        if not ss:
            return k(env)
        s, rest = ss[0], ss[1:]
        cont = lambda env_: self.stmts(rest, env_, k)
        if isinstance(s, ast.Pass):
            return cont(env)
        if isinstance(s, ast.Expr):
            if isinstance(s.value, ast.Constant):
                return cont(env)
            return self.expr_stmt(s, env, cont)
        if isinstance(s, ast.Assign):
            if len(s.targets) != 1:
                raise Unsupported("chained assignment", s)
            return self.assign(s.targets[0], s.value, env, cont, s)
        if isinstance(s, ast.AnnAssign):
            if s.value is None:
                return cont(env)
            return self.assign(s.target, s.value, env, cont, s)
        if isinstance(s, ast.AugAssign):
            op = ast.BinOp(left=self.load_of(s.target), op=s.op, right=s.value)
            ast.copy_location(op, s)
            return self.assign(s.target, op, env, cont, s)
        if isinstance(s, ast.Return):
            if s.value is None:
                if not self.cur.get('returns_none', True):
                    raise Unsupported("bare return in value function", s)
                v = vname(self.cur['mut']) if self.cur['mut'] else 'tt'
                self.note_ret(L if self.cur['mut'] else U)
                return self.ret_code(v)
            binds, code, ty = self.expr(s.value, env)
            if self.cur.get('obj'):
                if self.cur['mut']:
                    raise Unsupported("value return from in-place method", s)
                if _self_field(s.value) and ty == L and self.obj['kinds'].get(s.value.attr) != 'memoryview':
                    raise Unsupported("returns an alias of a mutable field", s)
                self.note_ret(ty)
                return self.emit_binds(binds, self.ret_code(code))
            if self.cur.get('method'):
                self.note_ret(ty)
                return self.emit_binds(binds, f"({self.cur['pack'](env)}, {code})")
            if self.cur['mut']:
                raise Unsupported("value return from in-place function", s)
            self.note_ret(ty)
            return self.emit_binds(binds, self.wrap_ret(code))
        if isinstance(s, ast.Raise):
            if not self.cur['monadic']:
                if self.cur.get('precise'):
                    raise NeedsMonadic("raise", s)
                raise Unsupported("raise in non-monadic function", s)
            if self.cur.get('obj'):
                if self.cur.get('noexit'):
                    raise Unsupported("raise inside a joined branch or loop body", s)
                return f"({self.obj['pack']}, Err {self.exc_name(s)})"
            return f"Err {self.exc_name(s)}"
        if isinstance(s, ast.If):
            return self.if_stmt(s, rest, env, k)
        if isinstance(s, ast.For):
            return self.for_stmt(s, env, cont)
        if isinstance(s, ast.While):
            return self.while_stmt(s, env, cont)
        raise Unsupported(f"statement {type(s).__name__}", s)

    def exc_name(self, s):
        e = s.exc
        if isinstance(e, ast.Call):
            e = e.func
        if isinstance(e, ast.Name):
            m = {'ValueError': 'EValue', 'RuntimeError': 'ERuntime'}.get(e.id)
            if m:
                return m
        raise Unsupported("raise of unknown exception", s)

    def load_of(self, t):
        if isinstance(t, ast.Name):
            return ast.copy_location(ast.Name(id=t.id, ctx=ast.Load()), t)
        if isinstance(t, ast.Subscript):
            return ast.copy_location(ast.Subscript(value=t.value, slice=t.slice, ctx=ast.Load()), t)
        if isinstance(t, ast.Attribute):
            return ast.copy_location(ast.Attribute(value=t.value, attr=t.attr, ctx=ast.Load()), t)
        raise Unsupported("augmented assignment target", t)

    def emit_binds(self, binds, body):
        code = body
        for name, c, monadic in reversed(binds):
            if monadic == 'S':
                # member of self that cannot raise: (self', value)
                code = f"let '({self.obj['pack']}, {name}) := {c} in\n  {code}"
            elif monadic == 'SM':
                # member of self that can raise: (self', res value); on Err the callee's state is kept
                self.need_monadic()
                pk = self.obj['pack']
                code = (f"match {c} with\n  | ({pk}, Err e_) => ({pk}, Err e_)\n"
                        f"  | ({pk}, Ok {name}) =>\n  {code}\n  end")
            elif monadic and self.cur.get('obj'):
                self.need_monadic()
                code = (f"match {c} with\n  | Err e_ => ({self.obj['pack']}, Err e_)\n"
                        f"  | Ok {name} =>\n  {code}\n  end")
            elif monadic:
                self.need_monadic()
                code = f"do {name} <- {c};\n  {code}"
            else:
                code = f"let {name} := {c} in\n  {code}"
        return code

    def assign(self, target, value, env, cont, node):
        if _self_field(target) and self.cur.get('obj') and ('self.' + target.attr) not in env:
            # property setter:  self.p = v
            binds, _, _ = self.self_call(target.attr, [value], env, node, kind='setter', bind_name='_')
            return self.emit_binds(binds, cont(env))
        binds, code, ty = self.expr(value, env)
        if (self.obj and ty == L and (isinstance(value, ast.Name) or _self_field(value))
                and not isinstance(target, ast.Subscript)):
            raise Unsupported("assignment aliases a sequence object", node)
        if isinstance(target, ast.Name):
            if target.id == 'self' or target.id.startswith('self_'):
                raise Unsupported("local variable name", node)
            env2 = env.copy()
            if target.id in env and env[target.id] != ty:
                raise Unsupported(f"variable {target.id} changes type {env[target.id]} -> {ty}", node)
            env2.set(target.id, ty)
            return self.emit_binds(binds, f"let {vname(target.id)} := {code} in\n  {cont(env2)}")
        if isinstance(target, ast.Attribute) and isinstance(target.value, ast.Name) and target.value.id == 'self' and (self.cur.get('method') or self.cur.get('obj')):
            key = 'self.' + target.attr
            if key not in env:
                raise Unsupported(f"unknown field {key}", node)
            if env[key] != ty:
                raise Unsupported(f"field {key} changes type", node)
            return self.emit_binds(binds, f"let {vname(key)} := {code} in\n  {cont(env)}")
        if isinstance(target, ast.Subscript) and isinstance(target.value, ast.Name):
            arr = target.value.id
            if arr not in env or env[arr] != L:
                raise Unsupported("subscript assignment to non-list", node)
            if isinstance(target.slice, ast.Slice):
                sl = target.slice
                if sl.lower is None and sl.upper is None and sl.step is None:
                    if ty != L:
                        raise Unsupported("slice assignment of non-list", node)
                    return self.emit_binds(binds, f"let {vname(arr)} := {code} in\n  {cont(env)}")
                if sl.step is None and ty == L and self.obj:
                    # arr[lo:hi] = v   (bounds >= 0; the length may change)
                    lb, lc = [], "0"
                    if sl.lower is not None:
                        lb, lc, lt = self.expr(sl.lower, env)
                        if lt != Z:
                            raise Unsupported("slice bound type", node)
                    ub, uc = [], f"(zlen {vname(arr)})"
                    if sl.upper is not None:
                        ub, uc, ut = self.expr(sl.upper, env)
                        if ut != Z:
                            raise Unsupported("slice bound type", node)
                    self.needs_pystr = True
                    self.note_side(node, f"slice assignment {arr}[{_src(sl.lower)}:{_src(sl.upper)}] = ..: bounds assumed >= 0")
                    (binds, code), (lb, lc), (ub, uc) = self.seq([(binds, code), (lb, lc), (ub, uc)])
                    return self.emit_binds(binds + lb + ub, f"let {vname(arr)} := slice_assign {vname(arr)} ({lc}) ({uc}) ({code}) in\n  {cont(env)}")
                raise Unsupported("general slice assignment", node)
            ib, ic, it = self.expr(target.slice, env)
            if it != Z or ty != Z:
                raise Unsupported("subscript assignment types", node)
            self.note_side(node, f"{arr}[{_src(target.slice)}] = ..: index assumed in range(len({arr}))")
            (binds, code), (ib, ic) = self.seq([(binds, code), (ib, ic)])
            return self.emit_binds(binds + ib, f"let {vname(arr)} := zset {vname(arr)} ({ic}) ({code}) in\n  {cont(env)}")
        raise Unsupported("assignment target", node)

    def expr_stmt(self, s, env, cont):
        c = s.value
        if isinstance(c, ast.Call) and self.cur.get('obj') and not c.keywords:
            f = c.func
            # self.<bytearray field>.append(v) / .extend(bs)
            if isinstance(f, ast.Attribute) and _self_field(f.value) and f.attr in ('append', 'extend') and len(c.args) == 1:
                key = 'self.' + f.value.attr
                if key not in env or env[key] != L or self.obj['kinds'].get(f.value.attr) != 'bytearray':
                    raise Unsupported("append/extend on a non-bytearray field", s)
                b, code, t = self.expr(c.args[0], env)
                self.needs_pystr = True
                if f.attr == 'append':
                    if t != Z:
                        raise Unsupported("append of non-int", s)
                    return self.emit_binds(b + [(vname(key), f"bytearray_append {vname(key)} ({code})", True)], cont(env))
                if t != L:
                    raise Unsupported("extend with non-sequence", s)
                return self.emit_binds(b, f"let {vname(key)} := ({vname(key)} ++ {code}) in\n  {cont(env)}")
            # self.m(args) as a statement: result dropped, except that an in-place mutated argument is rebound
            if _self_field(f):
                fi = self.obj['members'].get(f.attr)
                if fi is None:
                    raise Unsupported(f"self.{f.attr}: unknown, unsupported or recursive member", s)
                bind_name = '_'
                if fi.mutates is not None:
                    if len(c.args) <= fi.mutates or not isinstance(c.args[fi.mutates], ast.Name) or c.args[fi.mutates].id not in env:
                        raise Unsupported("in-place argument must be a local variable", s)
                    bind_name = vname(c.args[fi.mutates].id)
                if fi.kind == 'static':
                    binds, code, ty = self.call(fi, c.args, env, c)
                    if fi.mutates is not None:
                        return self.emit_binds(binds, f"let {bind_name} := {code} in\n  {cont(env)}")
                    return self.emit_binds(binds, cont(env))
                binds, code, ty = self.self_call(f.attr, c.args, env, c, bind_name=bind_name)
                return self.emit_binds(binds, cont(env))
        if isinstance(c, ast.Call):
            # x.reverse()
            if isinstance(c.func, ast.Attribute) and isinstance(c.func.value, ast.Name) and c.func.attr == 'reverse' and not c.args:
                x = c.func.value.id
                if x in env and env[x] == L:
                    return f"let {vname(x)} := rev {vname(x)} in\n  {cont(env)}"
            # f(x, ...) with f in-place on first parameter
            if isinstance(c.func, ast.Name) and c.func.id in self.funcs:
                fi = self.funcs[c.func.id]
                if fi.mutates is not None and c.args and isinstance(c.args[0], ast.Name):
                    x = c.args[0].id
                    binds, code, ty = self.call(fi, c.args, env, c)
                    return self.emit_binds(binds, f"let {vname(x)} := {code} in\n  {cont(env)}")
        raise Unsupported("expression statement", s)

    def none_test(self, test, env):
        """`x is None` / `x is not None` on an Optional variable -> (x, is_none_in_then_branch)."""
        if (isinstance(test, ast.Compare) and len(test.ops) == 1 and isinstance(test.ops[0], (ast.Is, ast.IsNot))
                and isinstance(test.left, ast.Name) and isinstance(test.comparators[0], ast.Constant)
                and test.comparators[0].value is None and test.left.id in env
                and isinstance(env[test.left.id], tuple) and env[test.left.id][0] == 'opt'):
            return test.left.id, isinstance(test.ops[0], ast.Is)
        return None

    def inplace_target(self, a):
        """assigned_vars entry ('maybe', f, x[, i]) -> x when f mutates that argument in place, else None."""
        fn = a[1]
        if fn.startswith('self.'):
            fi = self.obj['members'].get(fn[5:]) if self.obj else None
            if fi is not None and fi.mutates is not None and fi.mutates == a[3]:
                return a[2]
            return None
        if len(a) == 3 and fn in self.funcs and self.funcs[fn].mutates is not None:
            return a[2]
        return None

    def if_stmt(self, s, rest, env, k):
        nt = self.none_test(s.test, env)
        if nt:
            # Optional refinement: in the None branch the variable is unusable until assigned; in the other
            # branch it is rebound to the payload
            x, then_is_none = nt
            cb = []
            env_some = env.copy()
            env_some.set(x, env[x][1])
            env_none = env.copy()
            del env_none.d[x]
            env_b0, env_o0 = (env_none, env_some) if then_is_none else (env_some, env_none)

            def mk_if(bcode, ocode):
                nc, sc = (bcode, ocode) if then_is_none else (ocode, bcode)
                return f"match {vname(x)} with\n  | None => {nc}\n  | Some {vname(x)} => {sc}\n  end"
        else:
            cb, cc, ct = self.expr(s.test, env)
            cc = self.as_bool(cc, ct, s.test)
            env_b0, env_o0 = env, env

            def mk_if(bcode, ocode):
                return f"if {cc} then {bcode} else {ocode}"
        body, orelse = s.body, s.orelse
        exits = contains(body + orelse, (ast.Return, ast.Raise, ast.Break), stop_at_loops=False)
        if not exits and self.cur.get('obj') and self.stmts_may_raise(body + orelse):
            exits = True        # an exception leaves the method: treat like a branch that may exit
        if not exits:
            mod = [a for a in assigned_vars(body + orelse) if not isinstance(a, tuple)]
            # include in-place call targets
            for a in assigned_vars(body + orelse):
                if isinstance(a, tuple) and self.inplace_target(a) is not None and a[2] not in mod:
                    mod.append(a[2])
            if self.cur.get('obj') and self.self_effects(body + orelse):
                # a member of self is called in a branch: every field may change
                for f_, _ in self.obj['fields']:
                    if 'self.' + f_ not in mod:
                        mod.append('self.' + f_)
            live = [m for m in mod if m in env]
            # variables first assigned inside a branch must be assigned in both to be joined
            new_both = [m for m in mod if m not in env and m in assigned_vars(body) and m in assigned_vars(orelse)]
            joined = live + new_both
            if not joined:
                return self.emit_binds(cb, self.stmts(rest, env, k))
            tup = self.tuple_of([vname(m) for m in joined])
            # translate the branches
            env_b, env_o = env_b0.copy(), env_o0.copy()
            types = {}

            def branch_end(which):
                def f(env_):
                    for m in joined:
                        if m not in env_:
                            raise Unsupported(f"variable {m} not assigned on every path", s)
                        types.setdefault(m, env_[m])
                        if types[m] != env_[m]:
                            raise Unsupported(f"variable {m} has different types in branches", s)
                    return tup
                return f
            self.cur['noexit'] = self.cur.get('noexit', 0) + 1
            bcode = self.stmts(body, env_b, branch_end('b'))
            ocode = self.stmts(orelse, env_o, branch_end('o'))
            self.cur['noexit'] -= 1
            env2 = env.copy()
            for m in joined:
                env2.set(m, types[m])
            pat = self.tuple_pat([vname(m) for m in joined])
            return self.emit_binds(cb, f"let {pat} := ({mk_if(bcode, ocode)}) in\n  {self.stmts(rest, env2, k)}")
        # branches may exit: duplicate the continuation where needed
        if contains(body + orelse, ast.Break, stop_at_loops=True) and not self.cur.get('in_loop'):
            raise Unsupported("break outside loop", s)
        kk = lambda env_: self.stmts(rest, env_, k)
        bcode = self.stmts(body, env_b0.copy(), kk)
        ocode = self.stmts(orelse, env_o0.copy(), kk)
        return self.emit_binds(cb, mk_if(f"({bcode})", f"({ocode})"))

    def tuple_of(self, names):
        return names[0] if len(names) == 1 else '(' + ', '.join(names) + ')'

    def tuple_pat(self, names):
        return names[0] if len(names) == 1 else "'(" + ', '.join(names) + ')'

    def as_bool(self, code, ty, node):
        if ty == B:
            return code
        raise Unsupported("non-bool condition", node)

    # ---- loops
    def loop_state(self, body, env):
        mod = []
        for a in assigned_vars(body):
            if isinstance(a, tuple):
                if self.inplace_target(a) is not None:
                    a = a[2]
                else:
                    continue
            if a in env and a not in mod:
                mod.append(a)
        return mod

    def for_stmt(self, s, env, cont):
        if s.orelse:
            raise Unsupported("for-else", s)
        if not (isinstance(s.iter, ast.Call) and isinstance(s.iter.func, ast.Name) and s.iter.func.id == 'range'):
            raise Unsupported("for over non-range", s)
        if not isinstance(s.target, ast.Name):
            raise Unsupported("for target", s)
        if contains(s.body, ast.Raise):
            raise Unsupported("raise inside loop", s)
        args = s.iter.args
        binds = []
        if len(args) == 1:
            lo = "0"
            b, hi, t = self.expr(args[0], env)
            binds += b
        elif len(args) == 2:
            b, lo, t0 = self.expr(args[0], env)
            binds += b
            b, hi, t = self.expr(args[1], env)
            binds += b
        else:
            raise Unsupported("range with step", s)
        if any(m for _, _, m in binds):
            raise Unsupported("effectful range bound", s)
        i = s.target.id
        mod = self.loop_state(s.body, env)
        has_break = contains(s.body, ast.Break, stop_at_loops=True)
        has_ret = contains(s.body, ast.Return)
        if i in mod:
            raise Unsupported("loop variable assigned in body", s)
        state = [vname(m) for m in mod]
        if has_break:
            state.append('brk_')
        ret_ty = None
        if has_ret:
            state.append('ret_')
        if not state:
            return cont(env)
        # free variables of the body that are not state: captured from context -> pass as params
        self.loop_counter += 1
        bname = f"{self.cur['name']}_body{self.loop_counter}"
        env_b = env.copy()
        env_b.set(i, Z)
        saved = dict(self.cur)
        self.cur['in_loop'] = True
        self.cur['noexit'] = self.cur.get('noexit', 0) + 1
        self.cur['loop_state'] = state
        self.cur['loop_has_ret'] = has_ret
        self.cur['loop_ret_ty'] = None
        tup = self.tuple_of(state)

        def end_body(env_):
            return tup

        # break -> set flag and yield state; return -> set ret_ and yield state
        body_code = self.loop_body(s.body, env_b, end_body, tup, has_break, has_ret)
        ret_ty = self.cur.get('loop_ret_ty')
        outer_in_loop = saved.get('in_loop')
        self.cur['noexit'] -= 1
        self.cur['in_loop'] = outer_in_loop
        self.cur['loop_state'] = saved.get('loop_state')
        self.cur['loop_has_ret'] = saved.get('loop_has_ret')
        self.cur['loop_ret_ty'] = saved.get('loop_ret_ty')
        guard = None
        if has_break and has_ret:
            guard = "brk_ || (match ret_ with Some _ => true | None => false end)"
        elif has_break:
            guard = "brk_"
        elif has_ret:
            guard = "(match ret_ with Some _ => true | None => false end)"
        if guard:
            body_code = f"if {guard} then {tup} else\n  {body_code}"
        # captured variables: every env var used; simplest is to close over them by making the body
        # a local `let` function would lose the "named Definition" convention, so pass all env vars
        # that occur in the body text as explicit parameters.
        captured = [v for v in env.d if v not in mod and v != i and (vname(v) in _idents(body_code))]
        cap_params = ' '.join(f"({vname(v)} : {coq_ty(env[v])})" for v in captured)
        st_types = [coq_ty(env[m]) for m in mod]
        if has_break:
            st_types.append('bool')
        if has_ret:
            st_types.append(f"option {coq_ty(ret_ty or Z)}")
        st_ty = ' * '.join(st_types)
        pat = self.tuple_pat(state)
        fuelp = "(fuel : nat) " if self.cur['fuel'] and 'fuel' in _idents(body_code) else ""
        self.out.append(
            f"Definition {bname} {fuelp}{cap_params} (v_{i} : Z) (st : {st_ty}) : {st_ty} :=\n"
            f"  let {pat} := st in\n  {body_code}.")
        init = list(state)
        if has_break:
            init[init.index('brk_')] = 'false'
        if has_ret:
            init[init.index('ret_')] = 'None'
        init_t = self.tuple_of(init)
        cap_args = ' '.join(vname(v) for v in captured)
        fuela = "fuel " if fuelp else ""
        call = f"for_range ({lo}) ({hi}) ({bname} {fuela}{cap_args}) {init_t}"
        after = cont(env)
        if has_ret:
            self.note_ret(ret_ty or Z)
            if self.cur.get('method'):
                raise Unsupported("return inside loop in method", s)
            after = f"match ret_ with Some r_ => {self.ret_code('r_')} | None =>\n  {after} end"
        return self.emit_binds(binds, f"let {pat} := {call} in\n  {after}")

    def loop_body(self, ss, env, k, tup, has_break, has_ret):
        """Like stmts but `break`/`return` yield the loop state with the flag set."""
        if not ss:
            return k(env)
        s, rest = ss[0], ss[1:]
        if isinstance(s, ast.Break):
            return f"let brk_ := true in {tup}"
        if isinstance(s, ast.Continue):
            return tup
        if isinstance(s, ast.Return):
            if s.value is None:
                raise Unsupported("bare return inside loop", s)
            b, c, t = self.expr(s.value, env)
            if self.cur.get('loop_ret_ty') not in (None, t):
                raise Unsupported("loop return types differ", s)
            self.cur['loop_ret_ty'] = t
            return self.emit_binds(b, f"let ret_ := Some ({c}) in {tup}")
        if isinstance(s, ast.If) and contains([s], (ast.Break, ast.Return, ast.Continue), stop_at_loops=True):
            cb, cc, ct = self.expr(s.test, env)
            cc = self.as_bool(cc, ct, s.test)
            kk = lambda env_: self.loop_body(rest, env_, k, tup, has_break, has_ret)
            bcode = self.loop_body(s.body, env.copy(), kk, tup, has_break, has_ret)
            ocode = self.loop_body(s.orelse, env.copy(), kk, tup, has_break, has_ret)
            return self.emit_binds(cb, f"if {cc} then ({bcode}) else ({ocode})")
        # ordinary statement: reuse stmts for one statement with continuation into loop_body
        return self.stmts([s], env, lambda env_: self.loop_body(rest, env_, k, tup, has_break, has_ret))

    def while_stmt(self, s, env, cont):
        if s.orelse:
            raise Unsupported("while-else", s)
        if self.cur.get('obj') or self.cur.get('precise'):
            raise Unsupported("while loop in a class member", s)
        if contains(s.body, (ast.Raise, ast.Break, ast.Return, ast.Continue)):
            raise Unsupported("exit inside while", s)
        mod = self.loop_state(s.body, env)
        if not mod:
            raise Unsupported("while without state", s)
        state = [vname(m) for m in mod]
        tup = self.tuple_of(state)
        pat = self.tuple_pat(state)
        self.loop_counter += 1
        n = self.loop_counter
        cname_ = f"{self.cur['name']}_cond{n}"
        bname = f"{self.cur['name']}_body{n}"
        cb, cc, ct = self.expr(s.test, env)
        if cb:
            raise Unsupported("effectful while condition", s)
        cc = self.as_bool(cc, ct, s.test)
        body_code = self.stmts(s.body, env.copy(), lambda env_: tup)
        captured = [v for v in env.d if v not in mod and (vname(v) in _idents(body_code) or vname(v) in _idents(cc))]
        cap_params = ' '.join(f"({vname(v)} : {coq_ty(env[v])})" for v in captured)
        cap_args = ' '.join(vname(v) for v in captured)
        st_ty = ' * '.join(coq_ty(env[m]) for m in mod)
        self.out.append(f"Definition {cname_} {cap_params} (st : {st_ty}) : bool :=\n  let {pat} := st in\n  {cc}.")
        self.out.append(f"Definition {bname} {cap_params} (st : {st_ty}) : {st_ty} :=\n  let {pat} := st in\n  {body_code}.")
        if not self.cur['monadic']:
            raise Unsupported("while in non-monadic function (needs fuel error)", s)
        return (f"match while_loop fuel ({cname_} {cap_args}) ({bname} {cap_args}) {tup} with\n"
                f"  | None => Err EFuel\n  | Some {pat.lstrip(chr(39))} =>\n  {cont(env)} end")

    # -------------------------------------------------------------------- expressions
    def expr(self, e, env):
        """-> (binds, code, type); binds = [(coqname, code, monadic)] to run first (in order)."""
        if isinstance(e, ast.Constant):
            if isinstance(e.value, bool):
                return [], ('true' if e.value else 'false'), B
            if isinstance(e.value, int):
                return [], (str(e.value) if e.value >= 0 else f"({e.value})"), Z
            if e.value is None:
                return [], 'tt', U
            raise Unsupported(f"constant {e.value!r}", e)
        if isinstance(e, ast.Name):
            if e.id in env:
                return [], vname(e.id), env[e.id]
            if e.id in self.consts:
                return [], self.consts[e.id], Z
            raise Unsupported(f"unknown name {e.id}", e)
        if isinstance(e, ast.Attribute):
            if isinstance(e.value, ast.Name) and e.value.id == 'self' and ('self.' + e.attr) in env:
                return [], vname('self.' + e.attr), env['self.' + e.attr]
            if _self_field(e) and self.cur.get('obj'):
                return self.self_call(e.attr, [], env, e, kind='getter')
            # obj.value for abstracted objects
            b, c, t = self.expr(e.value, env)
            if isinstance(t, tuple) and t[0] == 'obj':
                raise Unsupported("attribute of object", e)
            if t == ('abs', 'SequenceStart') and e.attr == 'value':
                return b, c, Z
            raise Unsupported(f"attribute {e.attr}", e)
        if isinstance(e, ast.UnaryOp):
            b, c, t = self.expr(e.operand, env)
            if isinstance(e.op, ast.USub) and t == Z:
                return b, f"(- {c})", Z
            if isinstance(e.op, ast.Not) and t == B:
                return b, f"(negb {c})", B
            raise Unsupported("unary op", e)
        if isinstance(e, ast.BinOp):
            # int(a / b)
            lb, lc, lt = self.expr(e.left, env)
            rb, rc, rt = self.expr(e.right, env)
            (lb, lc), (rb, rc) = self.seq([(lb, lc), (rb, rc)])
            ops = {ast.Add: '+', ast.Sub: '-', ast.Mult: '*', ast.FloorDiv: '/', ast.Mod: 'mod'}
            if (lt == L and rt == Z and isinstance(e.op, ast.Mult) and isinstance(e.left, ast.List)
                    and len(e.left.elts) == 1 and not lb):
                # [c] * n : n copies of c (none when n <= 0)
                return rb, f"(zrepeat {lc[1:-1]} {rc})", L
            if lt == L and rt == L and isinstance(e.op, ast.Add) and self.obj:
                return lb + rb, f"({lc} ++ {rc})", L
            if lt == Z and rt == Z:
                for k, v in ops.items():
                    if isinstance(e.op, k):
                        return lb + rb, f"({lc} {v} {rc})", Z
                if isinstance(e.op, ast.BitAnd):
                    return lb + rb, f"(Z.land {lc} {rc})", Z
                if isinstance(e.op, ast.BitXor):
                    return lb + rb, f"(Z.lxor {lc} {rc})", Z
                if isinstance(e.op, ast.BitOr):
                    return lb + rb, f"(Z.lor {lc} {rc})", Z
            raise Unsupported(f"binary op {type(e.op).__name__} on {lt},{rt}", e)
        if isinstance(e, ast.BoolOp):
            parts = [self.expr(v, env) for v in e.values]
            if any(t != B for _, _, t in parts):
                raise Unsupported("boolean operator on non-bool", e)
            if any(b for b, _, _ in parts[1:]):
                raise Unsupported("effect under short-circuit operator", e)
            op = '&&' if isinstance(e.op, ast.And) else '||'
            return parts[0][0], '(' + f' {op} '.join(c for _, c, _ in parts) + ')', B
        if isinstance(e, ast.Compare):
            binds = []
            items = []
            parts_ = [self.expr(x, env) for x in [e.left] + e.comparators]
            for (b, c), (_, _, t) in zip(self.seq([(b_, c_) for b_, c_, _ in parts_]), parts_):
                binds += b
                items.append((c, t))
            conj = []
            for (lc, lt), op, (rc, rt) in zip(items, e.ops, items[1:]):
                if lt == Z and rt == Z:
                    m = {ast.Eq: '=?', ast.Lt: '<?', ast.LtE: '<=?', ast.Gt: '>?', ast.GtE: '>=?'}
                    if type(op) in m:
                        conj.append(f"({lc} {m[type(op)]} {rc})")
                    elif isinstance(op, ast.NotEq):
                        conj.append(f"(negb ({lc} =? {rc}))")
                    else:
                        raise Unsupported("comparison operator", e)
                elif lt == B and rt == B and isinstance(op, (ast.Eq, ast.Is)):
                    conj.append(f"(Bool.eqb {lc} {rc})")
                else:
                    raise Unsupported(f"comparison on {lt},{rt}", e)
            return binds, (conj[0] if len(conj) == 1 else '(' + ' && '.join(conj) + ')'), B
        if isinstance(e, ast.IfExp):
            cb, cc, ct = self.expr(e.test, env)
            tb, tc, tt = self.expr(e.body, env)
            ob, oc, ot = self.expr(e.orelse, env)
            if tb or ob or tt != ot or ct != B:
                raise Unsupported("conditional expression", e)
            return cb, f"(if {cc} then {tc} else {oc})", tt
        if isinstance(e, ast.Subscript):
            b, c, t = self.expr(e.value, env)
            if t != L:
                raise Unsupported("subscript of non-list", e)
            for x_ in ([e.slice.lower, e.slice.upper] if isinstance(e.slice, ast.Slice) else [e.slice]):
                if _neg_literal(x_):
                    raise Unsupported("negative literal index (wraparound is not modelled)", e)
            if isinstance(e.slice, ast.Slice):
                sl = e.slice
                if sl.step is not None:
                    raise Unsupported("slice step", e)
                lb, lc = [], "0"
                if sl.lower is not None:
                    lb, lc, lt = self.expr(sl.lower, env)
                if sl.upper is None:
                    ub, uc = [], f"(zlen {c})"
                else:
                    ub, uc, ut = self.expr(sl.upper, env)
                if sl.lower is not None or sl.upper is not None:
                    self.note_side(e, f"slice {_src(e)}: bounds assumed >= 0")
                if sl.upper is not None:
                    (b, c), (lb, lc), (ub, uc) = self.seq([(b, c), (lb, lc), (ub, uc)])
                else:
                    (b, c), (lb, lc) = self.seq([(b, c), (lb, lc)])
                    uc = f"(zlen {c})"
                return b + lb + ub, f"(slice {c} ({lc}) ({uc}))", L
            ib, ic, it = self.expr(e.slice, env)
            if it != Z:
                raise Unsupported("non-int index", e)
            self.note_side(e, f"index {_src(e)}: assumed in range(len({_src(e.value)}))")
            (b, c), (ib, ic) = self.seq([(b, c), (ib, ic)])
            return b + ib, f"(zget {c} ({ic}))", Z
        if isinstance(e, ast.List):
            binds, cs, parts_ = [], [], []
            for x in e.elts:
                b, c, t = self.expr(x, env)
                if t != Z:
                    raise Unsupported("list of non-int", e)
                parts_.append((b, c))
            for b, c in self.seq(parts_):
                binds += b
                cs.append(c)
            return binds, '[' + '; '.join(cs) + ']', L
        if isinstance(e, ast.Call):
            return self.call_expr(e, env)
        raise Unsupported(f"expression {type(e).__name__}", e)

    def seq(self, parts):
        """parts: [(binds, code)] of sub-expressions in evaluation order.  A call of a member of self may change
        fields; a sub-expression evaluated BEFORE such a call that reads a field is snapshotted in a temporary,
        so that it does not see the fields as rebound by the call."""
        out = []
        for i, (b, c) in enumerate(parts):
            later_calls = any(k in ('S', 'SM') for bb, _ in parts[i + 1:] for _, _, k in bb)
            if later_calls and any(x.startswith('v_self_') for x in _idents(c)):
                t = self.fresh('t')
                b = b + [(t, c, False)]
                c = t
            out.append((b, c))
        return out

    def fresh(self, base='t'):
        self.loop_counter += 1
        return f"{base}{self.loop_counter}_"

    def call_expr(self, e, env):
        f = e.func
        if e.keywords:
            raise Unsupported("keyword arguments", e)
        if isinstance(f, ast.Name):
            n = f.id
            if n == 'len' and len(e.args) == 1:
                b, c, t = self.expr(e.args[0], env)
                if t != L:
                    raise Unsupported("len of non-list", e)
                return b, f"(zlen {c})", Z
            if n in ('min', 'max') and len(e.args) == 2:
                b1, c1, t1 = self.expr(e.args[0], env)
                b2, c2, t2 = self.expr(e.args[1], env)
                (b1, c1), (b2, c2) = self.seq([(b1, c1), (b2, c2)])
                if t1 != Z or t2 != Z:
                    raise Unsupported("min/max of non-int", e)
                return b1 + b2, f"(Z.{n} {c1} {c2})", Z
            if n == 'bytes' and len(e.args) == 1:
                b, c, t = self.expr(e.args[0], env)
                if t != L:
                    raise Unsupported("bytes() of non-list", e)
                v = self.fresh('bs')
                return b + [(v, f"py_bytes {c}", True)], v, L
            if n == 'bytearray' and len(e.args) == 0 and self.obj:
                return [], '[]', L
            if n == 'memoryview' and len(e.args) == 1 and self.obj:
                b, c, t = self.expr(e.args[0], env)
                if t != L:
                    raise Unsupported("memoryview() of non-bytes", e)
                return b, c, L
            if (n == 'bytearray' and len(e.args) == 3 and self.obj
                    and [isinstance(a_, ast.Constant) and a_.value for a_ in e.args[1:]] == ['windows-1252', 'replace']):
                b, c, t = self.expr(e.args[0], env)
                if t != L:
                    raise Unsupported("bytearray(str, ..) of non-str", e)
                self.needs_pystr = True
                return b, f"(cp_encode {c})", L
            if n == 'bytearray' and len(e.args) == 1:
                if isinstance(e.args[0], (ast.List, ast.BinOp)) and not _const_bytes(e.args[0]):
                    raise Unsupported("bytearray() of a list that is not made of byte constants", e)
                b, c, t = self.expr(e.args[0], env)
                if t == Z:
                    self.note_side(e, f"{_src(e)}: size assumed >= 0")
                    return b, f"(zrepeat 0 {c})", L
                if t == L:
                    return b, c, L
                raise Unsupported("bytearray() argument", e)
            if n == 'int' and len(e.args) == 1 and isinstance(e.args[0], ast.BinOp) and isinstance(e.args[0].op, ast.Div):
                b1, c1, t1 = self.expr(e.args[0].left, env)
                b2, c2, t2 = self.expr(e.args[0].right, env)
                if t1 != Z or t2 != Z:
                    raise Unsupported("int(a/b) on non-ints", e)
                return b1 + b2, f"(truediv_int {c1} {c2})", Z
            if n in CONSTRUCTORS:
                binds, cs = [], []
                for a in e.args:
                    b, c, t = self.expr(a, env)
                    if t != Z:
                        raise Unsupported("constructor argument", e)
                    binds += b
                    cs.append(c)
                if len(cs) != CONSTRUCTORS[n]:
                    raise Unsupported("constructor arity", e)
                return binds, (cs[0] if len(cs) == 1 else '(' + ', '.join(cs) + ')'), tuple([Z] * len(cs)) if len(cs) > 1 else Z
            if self.obj and n == self.obj['cls'] and self.cur.get('obj'):
                # constructing a new instance
                return self.call(self.obj['init'], e.args, env, e)
            if n in self.funcs:
                if self.obj and n not in self.imported:
                    raise Unsupported(f"function {n} is not imported by this module", e)
                return self.call(self.funcs[n], e.args, env, e)
            raise Unsupported(f"call of unknown function {n}", e)
        if isinstance(f, ast.Attribute):
            if f.attr == 'randrange' and isinstance(f.value, ast.Name) and f.value.id == 'random' and len(e.args) == 2:
                b1, c1, t1 = self.expr(e.args[0], env)
                b2, c2, t2 = self.expr(e.args[1], env)
                v = self.fresh('r')
                return b1 + b2 + [(f"({v}, v_draws)", f"randrange ({c1}) ({c2}) v_draws", True)], v, Z
            if _self_field(f) and self.obj:
                if self.cur.get('obj'):
                    return self.self_call(f.attr, e.args, env, e)
                raise Unsupported("self in a static method", e)
            if self.obj and isinstance(f.value, ast.Name) and f.value.id == self.obj['cls']:
                fi = self.obj['members'].get(f.attr)
                if fi is None or fi.kind != 'static':
                    raise Unsupported(f"{f.value.id}.{f.attr}: not a translated static method", e)
                return self.call(fi, e.args, env, e)
            if self.obj and f.attr in ('decode', 'find', 'copy'):
                b, c, t = self.expr(f.value, env)
                if t != L:
                    raise Unsupported(f".{f.attr} on a non-sequence", e)
                if f.attr == 'copy' and not e.args:
                    return b, c, L
                if (f.attr == 'decode' and len(e.args) == 2
                        and [isinstance(a_, ast.Constant) and a_.value for a_ in e.args] == ['windows-1252', 'replace']):
                    self.needs_pystr = True
                    return b, f"(cp_decode {c})", L
                if f.attr == 'find' and len(e.args) == 1:
                    a_ = e.args[0]
                    # x.find(bytes([c])) with a byte constant c
                    if (isinstance(a_, ast.Call) and isinstance(a_.func, ast.Name) and a_.func.id == 'bytes'
                            and 'bytes' not in env and len(a_.args) == 1 and not a_.keywords
                            and isinstance(a_.args[0], ast.List) and len(a_.args[0].elts) == 1 and _const_bytes(a_.args[0])):
                        self.needs_pystr = True
                        return b, f"(find_byte {c} {a_.args[0].elts[0].value})", Z
        raise Unsupported("call", e)

    def call_args(self, fi, args, env, node):
        defaults = fi.defaults or [None] * len(fi.params)
        if len(args) > len(fi.params) or any(d is None for d in defaults[len(args):]):
            raise Unsupported("arity (defaults unsupported)", node)
        binds, cs, parts_ = [], [], []
        for i, (pn, pt) in enumerate(fi.params):
            if i < len(args):
                b, c, t = self.expr(args[i], env)
            else:
                b, c, t = self.expr(defaults[i], Env())     # defaults are evaluated at definition time
                if b:
                    raise Unsupported("effectful default", node)
            if isinstance(pt, tuple) and pt[0] == 'opt' and t != pt:
                if t == U and c == 'tt':
                    c, t = 'None', pt
                elif t == pt[1]:
                    c, t = f"(Some {c})", pt
            if t != pt:
                raise Unsupported(f"argument type {t} for parameter {pn}:{pt}", node)
            parts_.append((b, c))
        for b, c in self.seq(parts_):
            binds += b
            cs.append(f"({c})" if ' ' in c and not c.startswith('(') else c)
        return binds, cs

    def call(self, fi, args, env, node):
        binds, cs = self.call_args(fi, args, env, node)
        code = fi.name + (' fuel' if fi.needs_fuel else '') + ' ' + ' '.join(cs)
        if fi.draws:
            code += ' v_draws'
        if fi.may_raise or fi.draws:
            v = self.fresh('c')
            pat = f"({v}, v_draws)" if fi.draws else v
            if not fi.may_raise:
                return binds + [("'" + pat if fi.draws else pat, code, False)], v, fi.ret
            return binds + [(pat, code, True)], v, fi.ret
        return binds, f"({code})", fi.ret

    # -------------------------------------------------------------------- output
    def render(self, requires=()):
        hdr = ["(* GENERATED by tools/py2coq.py from %s -- do not edit *)" % os.path.basename(self.path),
               "From EO Require Import Prelude.Py."]
        if self.needs_pystr:
            hdr.append("From EO Require Import Prelude.PyStr.")
        for r in requires:
            hdr.append(f"From EO Require Import Gen.{r}.")
        hdr.append("Open Scope Z_scope.")
        hdr.append("")
        if self.side and self.needs_pystr:
            hdr.append("(* Side conditions under which the definitions below follow CPython (Prelude zget/zset/slice do not")
            hdr.append("   model negative-index wraparound or IndexError; bytearray(n) needs n >= 0):")
            for unit, line, text in self.side:
                hdr.append(f"     {unit} (line {line}): {text}".replace('*)', '* )').replace('(*', '( *'))
            hdr.append("*)")
            hdr.append("")
        return '\n'.join(hdr) + '\n' + '\n\n'.join(self.out) + '\n'


def _neg_literal(x):
    if isinstance(x, ast.UnaryOp) and isinstance(x.op, ast.USub):
        x = x.operand
        return isinstance(x, ast.Constant) and isinstance(x.value, int) and x.value > 0
    return isinstance(x, ast.Constant) and isinstance(x.value, int) and not isinstance(x.value, bool) and x.value < 0


def _src(node):
    return '' if node is None else ast.unparse(node)


def _const_bytes(e):
    """[c1, .., cn] or [c] * n with every c a constant in range(256)."""
    if isinstance(e, ast.BinOp) and isinstance(e.op, ast.Mult):
        e = e.left
    return (isinstance(e, ast.List)
            and all(isinstance(x, ast.Constant) and isinstance(x.value, int) and not isinstance(x.value, bool)
                    and 0 <= x.value <= 255 for x in e.elts))


def _idents(code):
    import re
    return set(re.findall(r"[A-Za-z_][A-Za-z_0-9.']*", code))


# constructors treated as tuples (sequence_start): name -> arity
CONSTRUCTORS = {'AccountReplySequenceStart': 1, 'InitSequenceStart': 3, 'PingSequenceStart': 3, 'SimpleSequenceStart': 1}
SIMPLE_STATE_CLASSES = {'PacketSequencer'}
# classes translated member by member, with state threading (obj_class_unit)
OBJ_CLASSES = {'EoReader', 'EoWriter'}
# parameters that are abstracted objects: (class, param) -> type
FIELD_PARAM_TYPES = {('PacketSequencer', 'start'): ('abs', 'SequenceStart')}


def coq_ty(t):  # noqa: F811  (extended with abstract objects)
    if isinstance(t, tuple) and t and t[0] == 'abs':
        return 'Z'
    if isinstance(t, tuple) and t and t[0] == 'cls':
        return t[1] + '_st'
    if isinstance(t, tuple) and t and t[0] == 'opt':
        return '(option ' + coq_ty(t[1]) + ')'
    if isinstance(t, tuple):
        return '(' + ' * '.join(coq_ty(x) for x in t) + ')'
    return t


# ------------------------------------------------------------------------------------ driver
UNITS = [
    # (python file relative to src root, Gen module, requires, imported python names)
    ('eolib/data/eo_numeric_limits.py', 'G_eo_numeric_limits', []),
    ('eolib/data/number_encoding_utils.py', 'G_number_encoding_utils', ['G_eo_numeric_limits']),
    ('eolib/data/string_encoding_utils.py', 'G_string_encoding_utils', []),
    ('eolib/encrypt/server_verification_utils.py', 'G_server_verification_utils', []),
    ('eolib/encrypt/encryption_utils.py', 'G_encryption_utils', []),
    ('eolib/packet/sequence_start.py', 'G_sequence_start', ['G_eo_numeric_limits']),
    ('eolib/packet/packet_sequencer.py', 'G_packet_sequencer', []),
    ('eolib/data/eo_reader.py', 'G_eo_reader', ['G_number_encoding_utils', 'G_string_encoding_utils']),
    ('eolib/data/eo_writer.py', 'G_eo_writer', ['G_eo_numeric_limits', 'G_number_encoding_utils', 'G_string_encoding_utils']),
]


def translate_all(src_root, out_dir, only_modules=None, side=None):
    """Translate every unit; returns {module: {unit: status}}.  Files are rewritten only on change.
    side: optional dict filled with {module: [(unit, line, side condition)]}."""
    report = {}
    known, consts = {}, {}
    os.makedirs(out_dir, exist_ok=True)
    for rel, mod, req in UNITS:
        path = os.path.join(src_root, rel)
        try:
            mt = ModuleTranslator(path, mod, known, consts).translate()
            text = mt.render(req)
            report[mod] = mt.units
            if side is not None:
                side[mod] = list(mt.side)
            known.update(mt.funcs)
            consts.update(mt.consts)
        except (SyntaxError, OSError, Unsupported) as e:
            report[mod] = {'<module>': f"Unsupported: {e}"}
            text = "(* GENERATED: module untranslatable: %s *)\nFrom EO Require Import Prelude.Py.\n" % str(e).replace('*)', '* )')
        outp = os.path.join(out_dir, mod + '.v')
        old = open(outp).read() if os.path.exists(outp) else None
        if old != text:
            with open(outp, 'w') as f:
                f.write(text)
    return report


if __name__ == '__main__':
    import json
    rep = translate_all(sys.argv[1], sys.argv[2])
    print(json.dumps(rep, indent=1))
