import importlib
import sys
import os
sys.path.insert(0, os.path.dirname(os.path.abspath(__file__)))


def main():
    if len(sys.argv) < 3:
        print("usage: check <ID> <quick|thorough>")
        return 2
    pid, tier = sys.argv[1], sys.argv[2]
    tier = os.environ.get('VERIF_TIER', tier)
    mod = importlib.import_module('checks.' + pid.lower())
    if '--replay' in sys.argv:
        return mod.replay(sys.argv[sys.argv.index('--replay') + 1])
    return mod.run(tier)


if __name__ == '__main__':
    sys.exit(main())
