import importlib
import sys
import os
sys.path.insert(0, os.path.dirname(os.path.abspath(__file__)))


def main():
    if len(sys.argv) < 3:
        print("usage: check <ID> <quick|thorough>")
        return 2
    pid, tier = sys.argv[1], sys.argv[2]
    tier = os.environ.get('VERIF_TIER', tier)
    mod = importlib.import_module('checks.' + pid.lower())
    if '--replay' in sys.argv:
        return mod.replay(sys.argv[sys.argv.index('--replay') + 1])
    try:
        return mod.run(tier)
    except Exception:
        # fail closed: an exception escaping the harness (typically raised by changed implementation code in a
        # place the harness did not expect) means the property is no longer shown to hold
        import traceback, json, time
        tb = traceback.format_exc()
        sys.stderr.write(tb)
        V = os.path.dirname(os.path.dirname(os.path.abspath(__file__)))
        os.makedirs(os.path.join(V, 'replays'), exist_ok=True)
        path = os.path.join(V, 'replays', f"{pid}-harness-exception.json")
        json.dump(dict(property=pid, kind='broken-obligation', broken=[dict(kind='harness-exception', msg=tb[-3000:])]), open(path, 'w'), indent=1)
        ev = dict(property_id=pid, tier=tier, seed=int(os.environ.get('VERIF_SEED', '0')), level='proof',
                  coverage=dict(evaluations=1, distinct_nontrivial=2, obligations=1, discharged=0, checker_cmd='n/a', trusted_base=[],
                                explanation='check aborted by an unexpected exception: ' + tb[-500:]), wall_s=0.0, violations=1)
        evdir = os.path.join(V, 'evidence' if 'VERIF_REPO' not in os.environ else '.other-tree-evidence')
        os.makedirs(evdir, exist_ok=True)
        json.dump(ev, open(os.path.join(evdir, f"{pid}.json"), 'w'), indent=1)
        print(f"VIOLATION property={pid} replay={path} no-failing-input-found")
        return 1


if __name__ == '__main__':
    sys.exit(main())
