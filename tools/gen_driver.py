"""Runs inside a scratch copy of /repo's working tree (one process per worker): for each specification tree, run the REAL
generator, import the generated package, and execute the requested operations on the generated classes.
usage: gen_driver.py <scratch-root> <jobs.json> <results.json>"""
import contextlib
import importlib
import io
import json
import os
import random
import shutil
import signal
import sys
import traceback
from pathlib import Path


class Timeout(Exception):
    pass


def _alarm(sig, frm):
    raise Timeout()


signal.signal(signal.SIGALRM, _alarm)


def limited(seconds, f, *a, **k):
    signal.setitimer(signal.ITIMER_REAL, seconds)
    try:
        return f(*a, **k)
    finally:
        signal.setitimer(signal.ITIMER_REAL, 0)


def exc_class(e):
    n = type(e).__name__
    if isinstance(e, Timeout):
        return 'EFuel'
    if n in ('Injected', 'InjectedBase'):
        return 'EInjected'
    if n == 'SerializationError':
        return 'ESerialization'
    if isinstance(e, ValueError):
        return 'EValue'
    if type(e) is RuntimeError:
        return 'ERuntime'
    if isinstance(e, AttributeError):
        return 'EAttribute'
    if isinstance(e, TypeError):
        return 'EType'
    if isinstance(e, (RecursionError, MemoryError)):
        return 'EFuel'
    return 'EUnexpected'


def purge():
    for k in [k for k in sys.modules if k == 'eolib' or k.startswith('eolib.')]:
        del sys.modules[k]
    importlib.invalidate_caches()


DECOY = ('<protocol><enum name="DecoyKind" type="char"><value name="Zed">9</value></enum>'
         '<struct name="DecoyOnly"><field name="a" type="char"/></struct></protocol>')


class Tree:
    def __init__(self, root, files, reuse=False):
        self.root = root
        self.files = files
        self.reuse = reuse
        self.xml = os.path.join(root, 'xml')
        self.out = os.path.join(root, 'src', 'eolib', 'protocol', '_generated')
        shutil.rmtree(self.xml, ignore_errors=True)
        shutil.rmtree(self.out, ignore_errors=True)
        for path, text in files.items():
            d = os.path.join(self.xml, path)
            os.makedirs(d, exist_ok=True)
            with open(os.path.join(d, 'protocol.xml'), 'w', encoding='utf-8') as f:
                f.write(text)

    def generate(self):
        purge_gen()
        from protocol_code_generator.generate.code_generator import ProtocolCodeGenerator
        buf = io.StringIO()
        try:
            with contextlib.redirect_stdout(buf):
                g = ProtocolCodeGenerator(Path(self.xml))
                if self.reuse:
                    # one long-lived generator object: it first generates ANOTHER valid specification from the same directory (the root file
                    # holds different types), the XML is then replaced by this tree's and generate() is called again into a cleaned output
                    rootf = os.path.join(self.xml, 'protocol.xml')
                    real = open(rootf, encoding='utf-8').read() if os.path.exists(rootf) else None
                    others = {}
                    for path in self.files:
                        fp = os.path.join(self.xml, path, 'protocol.xml')
                        if path and path != 'net':
                            others[fp] = open(fp, encoding='utf-8').read()
                            open(fp, 'w', encoding='utf-8').write('<protocol></protocol>')
                    if real is not None:
                        open(rootf, 'w', encoding='utf-8').write(DECOY)
                        try:
                            limited(20, g.generate, Path(self.out))
                        except BaseException:
                            pass
                        open(rootf, 'w', encoding='utf-8').write(real)
                    for fp, tx in others.items():
                        open(fp, 'w', encoding='utf-8').write(tx)
                    shutil.rmtree(self.out, ignore_errors=True)
                limited(20, g.generate, Path(self.out))
            return True, ''
        except BaseException as e:
            # where the rejection was raised (innermost frame inside the generator): which rule fired
            site = ''
            tb = e.__traceback__
            while tb is not None:
                fn = tb.tb_frame.f_code.co_filename
                if 'protocol_code_generator' in fn:
                    site = f"{fn[fn.index('protocol_code_generator'):]}:{tb.tb_lineno}"
                tb = tb.tb_next
            self.raise_site = site
            return False, f"{type(e).__name__}: {e}"


def purge_gen():
    for k in [k for k in sys.modules if k.startswith('protocol_code_generator')]:
        del sys.modules[k]


def find_class(eolib, path):
    parts = path.split('.')
    o = getattr(eolib, parts[0])
    for p in parts[1:]:
        o = getattr(o, p)
    return o


def build(eolib, v):
    if v is None:
        return None
    if 'i' in v:
        return v['i']
    if 'b' in v:
        return v['b']
    if 's' in v:
        return ''.join(chr(c) for c in v['s'])
    if 'y' in v:
        return bytes(v['y'])
    if 'l' in v:
        return [build(eolib, x) for x in v['l']]
    if 'e' in v:
        return find_class(eolib, v['e'])(v['v'])
    if 'o' in v:
        cls = find_class(eolib, v['o'])
        return cls(**{k: build(eolib, x) for k, x in v['f'] if k != 'byte_size'})
    raise ValueError(v)


def canon(o):
    if o is None:
        return None
    if isinstance(o, bool):
        return {'b': o}
    import enum
    if isinstance(o, enum.Enum):
        return {'e': type(o).__qualname__, 'v': int(o)}
    if isinstance(o, int):
        return {'i': int(o)}
    if isinstance(o, str):
        return {'s': [ord(c) for c in o]}
    if isinstance(o, (bytes, bytearray)):
        return {'y': list(o)}
    if isinstance(o, (tuple, list)):
        return {'l': [canon(x) for x in o]}
    cls = type(o)
    props = [k for k, p in vars(cls).items() if isinstance(p, property)]
    fields = [[k, canon(getattr(o, k))] for k in props if k != 'byte_size']
    fields.append(['byte_size', canon(o.byte_size)])
    return {'o': cls.__qualname__, 'f': fields}


class Injected(ValueError):
    pass


class InjectedBase(BaseException):
    """a failure that is not an Exception subclass (as KeyboardInterrupt, asyncio.CancelledError, GeneratorExit are)"""
    pass


def failing_writer(EoWriter, k, base=False):
    """a writer whose k-th add_* call raises (a failing writer, as the property's 'failing writer/reader')"""
    class FW(EoWriter):
        pass
    state = {'n': 0}

    def wrap(name):
        orig = getattr(EoWriter, name)

        def f(self, *a, **kw):
            state['n'] += 1
            if state['n'] == k:
                raise (InjectedBase if base else Injected)('injected writer failure')
            return orig(self, *a, **kw)
        return f
    for name in ('add_byte', 'add_bytes', 'add_char', 'add_short', 'add_three', 'add_int', 'add_string', 'add_fixed_string',
                 'add_encoded_string', 'add_fixed_encoded_string'):
        setattr(FW, name, wrap(name))
    return FW()


def failing_reader(EoReader, data, k, base=False):
    class FR(EoReader):
        pass
    state = {'n': 0}

    def wrap(name):
        orig = getattr(EoReader, name)

        def f(self, *a, **kw):
            state['n'] += 1
            if state['n'] == k:
                raise (InjectedBase if base else Injected)('injected reader failure')
            return orig(self, *a, **kw)
        return f
    for name in ('get_byte', 'get_bytes', 'get_char', 'get_short', 'get_three', 'get_int', 'get_string', 'get_fixed_string',
                 'get_encoded_string', 'get_fixed_encoded_string', 'next_chunk'):
        setattr(FR, name, wrap(name))
    return FR(bytes(data))


def do_ser(eolib, job):
    from eolib.data.eo_writer import EoWriter
    try:
        obj = limited(3, build, eolib, job['value'])
    except BaseException as e:
        return {'construct_error': exc_class(e), 'msg': str(e)[:200]}
    cls = find_class(eolib, job['cls'])
    w = failing_writer(EoWriter, job['fail_at'], bool(job.get('fail_base'))) if job.get('fail_at') else EoWriter()
    if job.get('pre'):
        w.add_bytes(bytes(job['pre']))
    w.string_sanitization_mode = job['san']
    try:
        r = limited(3, cls.serialize, w, obj)
        res = ['ok'] if r is None else ['err', 'EUnexpected']
    except BaseException as e:
        res = ['err', exc_class(e), str(e)[:120]]
    return {'res': res, 'bytes': list(w.to_bytearray()), 'mode': bool(w.string_sanitization_mode)}


def do_deser(eolib, cls, data, chunked, fail_at=None, reser=False, fail_base=False):
    from eolib.data.eo_reader import EoReader
    r = failing_reader(EoReader, data, fail_at, fail_base) if fail_at else EoReader(bytes(data))
    if chunked:
        r.chunked_reading_mode = True
    import time
    t0 = time.perf_counter()
    try:
        o = limited(20, cls.deserialize, r)
        dt = time.perf_counter() - t0
        res = ['ok', canon(o)]
    except BaseException as e:
        dt = time.perf_counter() - t0
        res = ['err', exc_class(e), str(e)[:120]]
    # 'heavy': hostile length fields made the deserializer loop thousands of times (fine for CPython, too slow / too large
    # for evaluating the reference semantics inside Coq): still checked by the oracle, excluded from the E1 comparison
    out = {'data': list(data), 'chunked': chunked, 'res': res, 'pos': int(r.position), 'mode': bool(r.chunked_reading_mode),
           'heavy': bool(dt > 0.004 and res[:2] != ['err', 'EFuel'])}
    if reser and res[0] == 'ok':
        # read-then-write: the object just read, written by a fresh writer
        from eolib.data.eo_writer import EoWriter
        w = EoWriter()
        try:
            x = limited(3, cls.serialize, w, o)
            wres = ['ok'] if x is None else ['err', 'EUnexpected']
        except BaseException as e:
            wres = ['err', exc_class(e), str(e)[:120]]
        out['reser'] = {'res': wres, 'bytes': list(w.to_bytearray()), 'mode': bool(w.string_sanitization_mode)}
    return out


def public_props(o):
    """every public non-callable attribute of the class: the generated read-only properties - and whatever else the class exposes as data"""
    return [k for k, p in vars(type(o)).items()
            if isinstance(p, property) or (not k.startswith('_') and not callable(p) and not isinstance(p, (staticmethod, classmethod)))]


def is_generated(o):
    return hasattr(type(o), 'serialize') and hasattr(type(o), 'deserialize') and hasattr(o, 'byte_size')


def walk_objects(o, seen=None):
    """o and every generated object reachable through public properties"""
    out = [o]
    for k in public_props(o):
        v = getattr(o, k)
        for x in (v if isinstance(v, (tuple, list)) else [v]):
            if is_generated(x):
                out += walk_objects(x)
    return out


def ser_bytes(cls, obj):
    from eolib.data.eo_writer import EoWriter
    w = EoWriter()
    try:
        cls.serialize(w, obj)
        return ['ok', list(w.to_bytearray())]
    except BaseException as e:
        return ['err', exc_class(e), list(w.to_bytearray())]


def poke(o, problems, where):
    """every attempted public mutation: assignment / deletion of each property; in-place mutation of every returned value"""
    for sub in walk_objects(o):
        for k in public_props(sub):
            for what, f in (('assign', lambda: setattr(sub, k, 7)), ('delete', lambda: delattr(sub, k))):
                try:
                    f()
                    problems.append(f"{where}: {what} of {type(sub).__qualname__}.{k} did not raise")
                except AttributeError:
                    pass
                except BaseException as e:
                    problems.append(f"{where}: {what} of {type(sub).__qualname__}.{k} raised {type(e).__name__}, not AttributeError")
            v = getattr(sub, k)
            try:
                if isinstance(v, bytearray):
                    v.append(7)
                    v[:1] = b'\x09'
                elif isinstance(v, list):
                    v.append(v[0] if v else 7)
                    v.reverse()
                elif isinstance(v, (dict, set)):
                    v.clear()
            except BaseException:
                pass
            if isinstance(v, (bytearray, list, dict, set)):
                problems.append(f"{where}: {type(sub).__qualname__}.{k} returns a mutable {type(v).__name__}")
            if isinstance(v, (tuple, list)):
                for x in v:
                    if isinstance(x, (bytearray, list, dict, set)):
                        try:
                            if isinstance(x, bytearray):
                                x.append(7)
                            elif isinstance(x, list):
                                x.append(7)
                            else:
                                x.clear()
                        except BaseException:
                            pass
                        problems.append(f"{where}: {type(sub).__qualname__}.{k} holds a mutable {type(x).__name__} element")
                        break


def do_immut(eolib, job):
    import inspect
    cls = find_class(eolib, job['cls'])
    problems = []
    # constructor arguments: arrays passed as lists the caller keeps and mutates afterwards
    lists = []

    def b(v):
        if v is not None and 'l' in v:
            l = [b(x) for x in v['l']]
            lists.append(l)
            return l
        if v is not None and 'o' in v:
            c = find_class(eolib, v['o'])
            return c(**{k: b(x) for k, x in v['f'] if k != 'byte_size'})
        return build(eolib, v)
    try:
        obj = limited(3, b, job['value'])
    except BaseException as e:
        return {'construct_error': exc_class(e)}
    s1 = ser_bytes(cls, obj)
    for sub in walk_objects(obj):
        for k in public_props(sub):
            v = getattr(sub, k)
            if isinstance(v, list):
                problems.append(f"array field {type(sub).__qualname__}.{k} is a list, not a tuple")
    for l in lists:
        l.append(l[0] if l else 1)
        l.reverse()
        del l[:1]
    s2 = ser_bytes(cls, obj)
    if s2 != s1:
        problems.append(f"serialization changed after the caller mutated the lists the object was built from: {s1} -> {s2}")
    # the same instance serialized again into the SAME long-lived writer: after a header byte, after itself, and after a
    # failed serialization of another (invalid) object on that writer
    if s1[0] == 'ok':
        from eolib.data.eo_writer import EoWriter
        W = EoWriter()
        W.add_byte(7)
        segs = []
        try:
            for step in ('after-header', 'again', 'after-failed-other'):
                if step == 'after-failed-other':
                    if not job.get('poison'):
                        break
                    try:
                        pobj = build(eolib, job['poison']['value'])
                        find_class(eolib, job['poison']['cls']).serialize(W, pobj)
                    except BaseException:
                        pass
                n0 = len(W)
                cls.serialize(W, obj)
                segs.append((step, list(W.to_bytearray())[n0:]))
        except BaseException as e:
            problems.append(f"re-serializing the same instance on a used writer raised {type(e).__name__}: {e}")
        for step, seg in segs:
            if seg != s1[1]:
                problems.append(f"the same instance serialized {step} on a long-lived writer gives {seg}, a fresh writer gave {s1[1]}")
    # the observable state of the instance (repr incl. byte_size) is a snapshot: using the object - a packet's own write(), serializing,
    # deserializing OTHER instances of the class from other bytes - does not change it
    def state(o):
        return [repr(x) for x in walk_objects(o)]
    st0 = state(obj)
    if hasattr(obj, 'write') and s1[0] == 'ok':
        try:
            from eolib.data.eo_writer import EoWriter as _W
            w_ = _W()
            w_.add_byte(1)
            obj.write(w_)
            if list(w_.to_bytearray())[1:] != s1[1]:
                problems.append(f"packet.write() wrote {list(w_.to_bytearray())[1:]}, serialize wrote {s1[1]}")
        except BaseException as e:
            problems.append(f"packet.write() raised {type(e).__name__}: {e}")
        if state(obj) != st0:
            problems.append(f"packet.write() changed the instance: {st0} -> {state(obj)}")
    poke(obj, problems, 'constructed')
    s3 = ser_bytes(cls, obj)
    if s3 != s1:
        problems.append(f"serialization changed after attempted public mutations: {s1} -> {s3}")
    out = {'ser': s1, 'problems': problems}
    if s1[0] == 'ok':
        from eolib.data.eo_reader import EoReader
        try:
            o2 = limited(3, cls.deserialize, EoReader(bytes(s1[1])))
        except BaseException as e:
            out['deser_error'] = exc_class(e)
            return out
        d1 = ser_bytes(cls, o2)
        # other instances of the same class (and of its parts) read from other byte strings, among them truncated ones
        st2 = state(o2)
        others = []
        for cut in (0, 1, len(s1[1]) // 2, max(0, len(s1[1]) - 1)):
            try:
                others.append(limited(3, cls.deserialize, EoReader(bytes(s1[1][:cut]))))
            except BaseException:
                pass
        for sub in walk_objects(o2)[1:3]:
            try:
                others.append(limited(3, type(sub).deserialize, EoReader(b'')))
                others.append(limited(3, type(sub).deserialize, EoReader(bytes([7, 7, 7, 7, 7, 7, 7, 7, 7, 7, 7, 7]))))
            except BaseException:
                pass
        if any(x is y for x in others for y in walk_objects(o2)):
            problems.append("deserialize() handed out an object that is part of an earlier instance (shared instance)")
        if state(o2) != st2:
            problems.append(f"deserializing other instances changed an earlier one: {st2} -> {state(o2)}")
        if state(obj) != st0:
            problems.append(f"the constructed instance changed while others were deserialized / serialized: {st0} -> {state(obj)}")
        poke(o2, problems, 'deserialized')
        d2 = ser_bytes(cls, o2)
        if d2 != d1:
            problems.append(f"deserialized instance: serialization changed after attempted public mutations: {d1} -> {d2}")
        out['reser'] = d1
    # the constructor copies every array parameter
    try:
        src = inspect.getsource(cls.__init__)
        for name in job.get('arrays', []):
            if f"self._{name} = tuple({name})" not in src:
                problems.append(f"constructor of {job['cls']} does not copy array parameter {name} with tuple()")
    except BaseException:
        pass
    return out


def do_enum(eolib, job):
    """construct protocol enums from integers; observe identity, name, value, equality, hash, membership, class members"""
    if 'cls' in job:
        E = find_class(eolib, job['cls'])
    elif 'src' in job:
        ns = {}
        exec(job['src'], ns)
        E = ns['E']
    else:
        from enum import IntEnum
        from eolib.protocol.protocol_enum_meta import ProtocolEnumMeta

        class Base(IntEnum, metaclass=ProtocolEnumMeta):
            pass
        if 'functional_names' in job:
            # auto-numbered functional API: Base('E', 'A B C', start=k)
            E = Base('E', job['functional_names'], **({'start': job['start']} if job.get('start') is not None else {}))
        else:
            E = Base('E', job['functional'])
    from enum import IntEnum as _IntEnum
    from eolib.protocol.protocol_enum_meta import ProtocolEnumMeta as _Meta

    class MyInt(int):
        pass

    class Other(_IntEnum, metaclass=_Meta):
        P = 1
        Q = 7
    before = [[m.name, int(m)] for m in E]
    mm_before = sorted(E.__members__)
    declared_values = {int(m) for m in E.__members__.values()}
    table_before = sorted(int(k) for k in getattr(E, '_value2member_map_', {}))
    obs = []
    problems = []
    for n in job['calls']:
        v = E(n)
        v2 = E(n)
        ms = list(E)
        idx = next((i for i, m in enumerate(ms) if m is v), -1)
        obs.append([idx >= 0, idx, v.name, int(v)])
        if idx >= 0 and v is not v2:
            problems.append(f"E({n}) is not the same object every time")
        if not isinstance(v, E) or not isinstance(v, int):
            problems.append(f"E({n}) is not an instance of the enum / of int")
        if not (v == n and n == v and hash(v) == hash(n)):
            problems.append(f"E({n}) does not compare/hash equal to {n}")
        if v.value != n:
            problems.append(f"E({n}).value is {v.value!r}")
        if [[m.name, int(m)] for m in E] != before or sorted(E.__members__) != mm_before:
            problems.append(f"constructing E({n}) changed the declared members")
        # ... nor what the enum answers about that integer afterwards
        try:
            if (n in E) != (n in declared_values):
                problems.append(f"after E({n}) was constructed, `{n} in E` is {n in E} although {n} is {'declared' if n in declared_values else 'not declared'}")
        except TypeError:
            pass
        if sorted(int(k) for k in getattr(E, '_value2member_map_', {})) != table_before:
            problems.append(f"constructing E({n}) changed the enum's value table (_value2member_map_)")
        if idx < 0 and (type(v) is not E or v.name != f"Unrecognized({n})"):
            problems.append(f"E({n}) is named {v.name!r} / typed {type(v).__name__}")
        # every integer is accepted: int subclasses, members (declared or not) of another protocol enum, bools
        wraps = [('an int subclass instance', MyInt(n)), ('a member of another protocol enum', Other(n))] + ([('a bool', bool(n))] if n in (0, 1) else [])
        for what, x in wraps:
            try:
                vx = E(x)
                if not (vx.name == v.name and int(vx) == int(v) and type(vx) is type(v) and (idx < 0 or vx is v)):
                    problems.append(f"E({n}) given as {what} yields {vx.name}={int(vx)}, as a plain int {v.name}={int(v)}")
            except BaseException as e:
                problems.append(f"E({n}) given as {what} raised {type(e).__name__}: {e}")
    return {'obs': obs, 'members': [[m.name, int(m)] for m in E], 'problems': problems}


def mutate(rng, data, n):
    out = []
    L = len(data)
    for k in range(L):
        out.append(data[:k])           # every proper prefix
    special = [0x00, 0xFE, 0xFF]
    for _ in range(n):
        d = list(data)
        kind = rng.randrange(5)
        if kind == 0 and d:
            d[rng.randrange(len(d))] = rng.choice(special) if rng.random() < 0.7 else rng.randrange(256)
        elif kind == 1:
            d.insert(rng.randrange(len(d) + 1), rng.choice(special) if rng.random() < 0.7 else rng.randrange(256))
        elif kind == 2:
            d += [rng.choice(special + [1, 2, 65]) for _ in range(rng.randrange(1, 5))]
        elif kind == 3:
            d = [rng.randrange(256) for _ in range(rng.randrange(0, max(4, 2 * L)))]
        else:
            for _ in range(rng.randrange(1, 4)):
                if d:
                    d[rng.randrange(len(d))] = rng.choice(special)
        out.append(d)
    return out


def run_tree(root, t):
    tree = Tree(root, t['files'], reuse=bool(t.get('reuse')))
    ok, err = tree.generate()
    res = {'id': t['id'], 'accepted': ok, 'error': err, 'results': []}
    if not ok:
        res['raise_site'] = getattr(tree, 'raise_site', '')
    if ok and t.get('want_sources'):
        res['sources'] = sources(tree)
    if not ok or not t.get('jobs'):
        return res
    purge()
    try:
        eolib = limited(20, importlib.import_module, 'eolib')
    except BaseException as e:
        res['import_error'] = f"{type(e).__name__}: {e}"
        return res
    rng = random.Random(t.get('seed', 0))
    for job in t['jobs']:
        try:
            op = job['op']
            if op == 'ser':
                out = do_ser(eolib, job)
                if job.get('then_deser') and 'res' in out and out['res'][0] == 'ok':
                    cls = find_class(eolib, job['cls'])
                    data = out['bytes']
                    ds = [do_deser(eolib, cls, data, False)]
                    if job.get('mutants', 0):
                        for d in mutate(rng, data, job['mutants']):
                            ds.append(do_deser(eolib, cls, d, rng.random() < 0.25))
                    out['deser'] = ds
            elif op == 'namespace':
                import subprocess
                dp = os.path.join(root, 'declared.json')
                json.dump(job['declared'], open(dp, 'w'))
                outs = []
                for first in job['firsts']:
                    pr = subprocess.run([sys.executable, os.path.join(os.path.dirname(os.path.abspath(__file__)), 'ns_probe.py'), root, first, dp],
                                        capture_output=True, text=True, timeout=120,
                                        env=dict(os.environ, PYTHONPATH=os.path.join(root, 'src'), PYTHONHASHSEED=str(job.get('hashseed', 0))))
                    try:
                        outs.append(json.loads(pr.stdout.strip().split('\n')[-1]))
                    except Exception:
                        outs.append({'first': first, 'errors': ['probe failed: ' + (pr.stderr or pr.stdout)[-300:]], 'path_mismatches': [], 'name_mismatches': []})
                out = {'probes': outs}
                try:
                    import impprog
                    prog, bad = impprog.extract(os.path.join(root, 'src'))
                    out['program'] = prog
                    out['unreadable'] = bad
                except BaseException as e:
                    out['unreadable'] = [f"extractor failed: {type(e).__name__}: {e}"]
            elif op == 'immut':
                out = do_immut(eolib, job)
            elif op == 'enum':
                out = do_enum(eolib, job)
            elif op == 'packet':
                cls = find_class(eolib, job['cls'])
                out = {'family': int(cls.family()), 'action': int(cls.action()),
                       'family_type': type(cls.family()).__name__, 'action_type': type(cls.action()).__name__}
            elif op == 'deser':
                out = do_deser(eolib, find_class(eolib, job['cls']), job['data'], job['chunked'], job.get('fail_at'), job.get('reser', False), bool(job.get('fail_base')))
            else:
                out = {'error': 'unknown op'}
        except BaseException as e:
            out = {'harness_error': f"{type(e).__name__}: {e}", 'tb': traceback.format_exc()[-600:]}
        res['results'].append(out)
    return res


def sources(tree):
    out = {}
    for dp, _, fs in os.walk(tree.out):
        for f in fs:
            p = os.path.join(dp, f)
            out[os.path.relpath(p, tree.out)] = open(p, encoding='utf-8').read()
    return out


def main():
    root, jobs, outp = sys.argv[1:4]
    sys.path.insert(0, root)
    sys.path.insert(0, os.path.join(root, 'src'))
    trees = json.load(open(jobs))
    results = []
    for t in trees:
        try:
            results.append(run_tree(root, t))
        except BaseException as e:
            results.append({'id': t['id'], 'driver_error': f"{type(e).__name__}: {e}", 'tb': traceback.format_exc()[-800:]})
    json.dump(results, open(outp, 'w'))


if __name__ == '__main__':
    main()
