"""Runs inside a scratch copy of /repo's working tree (one process per worker): for each specification tree, run the REAL
generator, import the generated package, and execute the requested operations on the generated classes.
usage: gen_driver.py <scratch-root> <jobs.json> <results.json>"""
import contextlib
import importlib
import io
import json
import os
import random
import shutil
import signal
import sys
import traceback
from pathlib import Path


class Timeout(Exception):
    pass


def _alarm(sig, frm):
    raise Timeout()


signal.signal(signal.SIGALRM, _alarm)


def limited(seconds, f, *a, **k):
    signal.setitimer(signal.ITIMER_REAL, seconds)
    try:
        return f(*a, **k)
    finally:
        signal.setitimer(signal.ITIMER_REAL, 0)


def exc_class(e):
    n = type(e).__name__
    if isinstance(e, Timeout):
        return 'EFuel'
    if n == 'Injected':
        return 'EInjected'
    if n == 'SerializationError':
        return 'ESerialization'
    if isinstance(e, ValueError):
        return 'EValue'
    if type(e) is RuntimeError:
        return 'ERuntime'
    if isinstance(e, AttributeError):
        return 'EAttribute'
    if isinstance(e, TypeError):
        return 'EType'
    if isinstance(e, (RecursionError, MemoryError)):
        return 'EFuel'
    return 'EUnexpected'


def purge():
    for k in [k for k in sys.modules if k == 'eolib' or k.startswith('eolib.')]:
        del sys.modules[k]
    importlib.invalidate_caches()


class Tree:
    def __init__(self, root, files):
        self.root = root
        self.xml = os.path.join(root, 'xml')
        self.out = os.path.join(root, 'src', 'eolib', 'protocol', '_generated')
        shutil.rmtree(self.xml, ignore_errors=True)
        shutil.rmtree(self.out, ignore_errors=True)
        for path, text in files.items():
            d = os.path.join(self.xml, path)
            os.makedirs(d, exist_ok=True)
            with open(os.path.join(d, 'protocol.xml'), 'w', encoding='utf-8') as f:
                f.write(text)

    def generate(self):
        purge_gen()
        from protocol_code_generator.generate.code_generator import ProtocolCodeGenerator
        buf = io.StringIO()
        try:
            with contextlib.redirect_stdout(buf):
                limited(20, ProtocolCodeGenerator(Path(self.xml)).generate, Path(self.out))
            return True, ''
        except BaseException as e:
            return False, f"{type(e).__name__}: {e}"


def purge_gen():
    for k in [k for k in sys.modules if k.startswith('protocol_code_generator')]:
        del sys.modules[k]


def find_class(eolib, path):
    parts = path.split('.')
    o = getattr(eolib, parts[0])
    for p in parts[1:]:
        o = getattr(o, p)
    return o


def build(eolib, v):
    if v is None:
        return None
    if 'i' in v:
        return v['i']
    if 'b' in v:
        return v['b']
    if 's' in v:
        return ''.join(chr(c) for c in v['s'])
    if 'y' in v:
        return bytes(v['y'])
    if 'l' in v:
        return [build(eolib, x) for x in v['l']]
    if 'e' in v:
        return find_class(eolib, v['e'])(v['v'])
    if 'o' in v:
        cls = find_class(eolib, v['o'])
        return cls(**{k: build(eolib, x) for k, x in v['f'] if k != 'byte_size'})
    raise ValueError(v)


def canon(o):
    if o is None:
        return None
    if isinstance(o, bool):
        return {'b': o}
    if isinstance(o, int):
        return {'i': int(o)}
    if isinstance(o, str):
        return {'s': [ord(c) for c in o]}
    if isinstance(o, (bytes, bytearray)):
        return {'y': list(o)}
    if isinstance(o, (tuple, list)):
        return {'l': [canon(x) for x in o]}
    cls = type(o)
    props = [k for k, p in vars(cls).items() if isinstance(p, property)]
    fields = [[k, canon(getattr(o, k))] for k in props if k != 'byte_size']
    fields.append(['byte_size', canon(o.byte_size)])
    return {'o': cls.__qualname__, 'f': fields}


class Injected(ValueError):
    pass


def failing_writer(EoWriter, k):
    """a writer whose k-th add_* call raises (a failing writer, as the property's 'failing writer/reader')"""
    class FW(EoWriter):
        pass
    state = {'n': 0}

    def wrap(name):
        orig = getattr(EoWriter, name)

        def f(self, *a, **kw):
            state['n'] += 1
            if state['n'] == k:
                raise Injected('injected writer failure')
            return orig(self, *a, **kw)
        return f
    for name in ('add_byte', 'add_bytes', 'add_char', 'add_short', 'add_three', 'add_int', 'add_string', 'add_fixed_string',
                 'add_encoded_string', 'add_fixed_encoded_string'):
        setattr(FW, name, wrap(name))
    return FW()


def failing_reader(EoReader, data, k):
    class FR(EoReader):
        pass
    state = {'n': 0}

    def wrap(name):
        orig = getattr(EoReader, name)

        def f(self, *a, **kw):
            state['n'] += 1
            if state['n'] == k:
                raise Injected('injected reader failure')
            return orig(self, *a, **kw)
        return f
    for name in ('get_byte', 'get_bytes', 'get_char', 'get_short', 'get_three', 'get_int', 'get_string', 'get_fixed_string',
                 'get_encoded_string', 'get_fixed_encoded_string', 'next_chunk'):
        setattr(FR, name, wrap(name))
    return FR(bytes(data))


def do_ser(eolib, job):
    from eolib.data.eo_writer import EoWriter
    try:
        obj = limited(3, build, eolib, job['value'])
    except BaseException as e:
        return {'construct_error': exc_class(e), 'msg': str(e)[:200]}
    cls = find_class(eolib, job['cls'])
    w = failing_writer(EoWriter, job['fail_at']) if job.get('fail_at') else EoWriter()
    if job.get('pre'):
        w.add_bytes(bytes(job['pre']))
    w.string_sanitization_mode = job['san']
    try:
        r = limited(3, cls.serialize, w, obj)
        res = ['ok'] if r is None else ['err', 'EUnexpected']
    except BaseException as e:
        res = ['err', exc_class(e), str(e)[:120]]
    return {'res': res, 'bytes': list(w.to_bytearray()), 'mode': bool(w.string_sanitization_mode)}


def do_deser(eolib, cls, data, chunked, fail_at=None):
    from eolib.data.eo_reader import EoReader
    r = failing_reader(EoReader, data, fail_at) if fail_at else EoReader(bytes(data))
    if chunked:
        r.chunked_reading_mode = True
    import time
    t0 = time.perf_counter()
    try:
        o = limited(20, cls.deserialize, r)
        dt = time.perf_counter() - t0
        res = ['ok', canon(o)]
    except BaseException as e:
        dt = time.perf_counter() - t0
        res = ['err', exc_class(e), str(e)[:120]]
    # 'heavy': hostile length fields made the deserializer loop thousands of times (fine for CPython, too slow / too large
    # for evaluating the reference semantics inside Coq): still checked by the oracle, excluded from the E1 comparison
    return {'data': list(data), 'chunked': chunked, 'res': res, 'pos': int(r.position), 'mode': bool(r.chunked_reading_mode),
            'heavy': bool(dt > 0.004 and res[:2] != ['err', 'EFuel'])}


def mutate(rng, data, n):
    out = []
    L = len(data)
    for k in range(L):
        out.append(data[:k])           # every proper prefix
    special = [0x00, 0xFE, 0xFF]
    for _ in range(n):
        d = list(data)
        kind = rng.randrange(5)
        if kind == 0 and d:
            d[rng.randrange(len(d))] = rng.choice(special) if rng.random() < 0.7 else rng.randrange(256)
        elif kind == 1:
            d.insert(rng.randrange(len(d) + 1), rng.choice(special) if rng.random() < 0.7 else rng.randrange(256))
        elif kind == 2:
            d += [rng.choice(special + [1, 2, 65]) for _ in range(rng.randrange(1, 5))]
        elif kind == 3:
            d = [rng.randrange(256) for _ in range(rng.randrange(0, max(4, 2 * L)))]
        else:
            for _ in range(rng.randrange(1, 4)):
                if d:
                    d[rng.randrange(len(d))] = rng.choice(special)
        out.append(d)
    return out


def run_tree(root, t):
    tree = Tree(root, t['files'])
    ok, err = tree.generate()
    res = {'id': t['id'], 'accepted': ok, 'error': err, 'results': []}
    if not ok or not t.get('jobs'):
        if ok and t.get('want_sources'):
            res['sources'] = sources(tree)
        return res
    purge()
    try:
        eolib = limited(20, importlib.import_module, 'eolib')
    except BaseException as e:
        res['import_error'] = f"{type(e).__name__}: {e}"
        return res
    rng = random.Random(t.get('seed', 0))
    for job in t['jobs']:
        try:
            op = job['op']
            if op == 'ser':
                out = do_ser(eolib, job)
                if job.get('then_deser') and 'res' in out and out['res'][0] == 'ok':
                    cls = find_class(eolib, job['cls'])
                    data = out['bytes']
                    ds = [do_deser(eolib, cls, data, False)]
                    if job.get('mutants', 0):
                        for d in mutate(rng, data, job['mutants']):
                            ds.append(do_deser(eolib, cls, d, rng.random() < 0.25))
                    out['deser'] = ds
            elif op == 'packet':
                cls = find_class(eolib, job['cls'])
                out = {'family': int(cls.family()), 'action': int(cls.action()),
                       'family_type': type(cls.family()).__name__, 'action_type': type(cls.action()).__name__}
            elif op == 'deser':
                out = do_deser(eolib, find_class(eolib, job['cls']), job['data'], job['chunked'], job.get('fail_at'))
            else:
                out = {'error': 'unknown op'}
        except BaseException as e:
            out = {'harness_error': f"{type(e).__name__}: {e}", 'tb': traceback.format_exc()[-600:]}
        res['results'].append(out)
    return res


def sources(tree):
    out = {}
    for dp, _, fs in os.walk(tree.out):
        for f in fs:
            p = os.path.join(dp, f)
            out[os.path.relpath(p, tree.out)] = open(p, encoding='utf-8').read()
    return out


def main():
    root, jobs, outp = sys.argv[1:4]
    sys.path.insert(0, root)
    sys.path.insert(0, os.path.join(root, 'src'))
    trees = json.load(open(jobs))
    results = []
    for t in trees:
        try:
            results.append(run_tree(root, t))
        except BaseException as e:
            results.append({'id': t['id'], 'driver_error': f"{type(e).__name__}: {e}", 'tb': traceback.format_exc()[-800:]})
    json.dump(results, open(outp, 'w'))


if __name__ == '__main__':
    main()
