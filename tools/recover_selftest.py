"""Self-test of the structural tie (tools/gen2instr.py + coq/Model/Recover.v).

 A. comparator: every single-component change of a recovered instruction list must be reported by Recover.v on the side(s)
    that determine the component - and must NOT be reported when the component is invisible to that side (the table at the
    top of Recover.v, restated here independently as `expect`).
 B. recogniser: single-token / single-statement changes of the generated SOURCE TEXT must never pass silently: each is either
    Unrecognised or shows up as a mismatch in Coq.

usage: recover_selftest.py [n_random_trees]"""
import copy
import json
import re
import sys
import time
import os
sys.path.insert(0, os.path.dirname(os.path.abspath(__file__)))
from vlib import *
from genharness import *
from gencheck import *
import gen2instr
import minieo


# ------------------------------------------------------------------------------------------------ A. comparator
def mutations(i):
    """-> list of (label, mutated instruction(s) replacing i, expected on S, expected on D)"""
    out = []
    k = i['k']

    def mut(label, s_exp, d_exp, **ch):
        j = copy.deepcopy(i)
        j.update(ch)
        out.append((f"{k}.{label}", [j], s_exp, d_exp))
    if k in ('field', 'array'):
        named = i['name'] is not None
        if named:
            mut('name', True, True, name=i['name'] + 'x')
        ty = i['ty']
        mut('ty', True, True, ty=('int', 'short') if ty != ('int', 'short') else ('int', 'char'))
        if ty[0] == 'enum':
            mut('ty.enum-name', True, True, ty=('enum', ty[1] + 'x', ty[2]))
            mut('ty.enum-under', True, True, ty=('enum', ty[1], 'three' if ty[2] != 'three' else 'int'))
        ln = i['len']
        mut('len', True, True, len=('lit', 1) if ln[0] != 'lit' else ('lit', ln[1] + 1))
        if ln[0] == 'ref':
            mut('len.ref', True, True, len=('ref', ln[1] + 'x'))
        mut('padded', ln[0] != 'none', ln[0] != 'none', padded=not i['padded'])
        mut('optional', True, True, optional=not i['optional'])
        mut('opt_first', bool(i['optional']), False, opt_first=not i['opt_first'])
        mut('hard', True, False, hard='7' if i['hard'] != '7' else '8')
        mut('maxlen', ln[0] == 'ref' and named, False, maxlen=(i['maxlen'] or 0) + 1)
    if k == 'array':
        mut('delimited', True, True, delimited=not i['delimited'])
        c = i['count'] or ('expr',)
        mut('trailing', bool(i['delimited']), bool(i['delimited']) and c[0] != 'while', trailing=not i['trailing'])
        mut('count', False, True, count=('while',) if c[0] != 'while' else ('rem', 2))
        if c[0] == 'rem':
            mut('count.size', False, True, count=('rem', c[1] + 1))
    if k == 'length':
        mut('name', True, True, name=i['name'] + 'x')
        mut('t', True, True, t='short' if i['t'] != 'short' else 'char')
        mut('offset', True, True, offset=i['offset'] + 1)
        mut('optional', True, True, optional=not i['optional'])
        mut('opt_first', bool(i['optional']), False, opt_first=not i['opt_first'])
        mut('ref_by', True, False, ref_by=(i['ref_by'] or '') + 'x')
    if k == 'dummy':
        mut('ty', True, True, ty=('int', 'three') if i['ty'] != ('int', 'three') else ('int', 'char'))
        mut('lit', True, False, lit=(i['lit'] or '') + '1')
        mut('guarded', True, True, guarded=not i['guarded'])
    if k == 'switch':
        mut('field', True, True, field=i['field'] + 'x')
        cs_ = i['cases']
        has_default = any(c['key'][0] == 'default' for c in cs_)
        ends_empty_default = bool(cs_) and cs_[-1]['key'][0] == 'default' and cs_[-1]['cls'] is None
        for n, c in enumerate(cs_):
            if c['key'][0] == 'val':
                cc = copy.deepcopy(cs_)
                cc[n]['key'] = ('val', c['key'][1] + 1)
                mut(f'case{n}.key', True, True, cases=cc)
            cc = copy.deepcopy(cs_)
            cc[n]['cls'] = None if c['cls'] is not None else 'X.Y'
            mut(f'case{n}.cls', True, True, cases=cc)
            cc = copy.deepcopy(cs_)
            del cc[n]
            last_empty_default = n == len(cs_) - 1 and ends_empty_default
            mut(f'case{n}.dropped', not last_empty_default, True, cases=cc)
        if not has_default:
            mut('empty-default-added', False, True, cases=copy.deepcopy(cs_) + [dict(key=('default',), keysrc=None, cls=None, en=None)])
            mut('data-default-added', True, True, cases=copy.deepcopy(cs_) + [dict(key=('default',), keysrc=None, cls='X.Y', en=None)])
    if k == 'setmode':
        mut('b', True, True, b=not i['b'])
        out.append(('setmode->break', [dict(k='break')], True, True))
    if k == 'break':
        out.append(('break->setmode', [dict(k='setmode', b=True)], True, True))
    out.append((f'{k}.deleted', [], True, True))
    out.append((f'{k}.duplicated', [copy.deepcopy(i), copy.deepcopy(i)], True, True))
    return out




def comparator_test(trees, name='selftest'):
    """-> (n mutations, list of wrong verdicts)"""
    S = Scratch()
    R = GenRunner(S, workers=4)
    res = R.run([dict(id=k, files=tree_xml(t['tree']), jobs=[], seed=0, want_sources=True) for k, t in enumerate(trees)])
    os.makedirs(CASES, exist_ok=True)
    total, wrong, per_comp = 0, [], {}
    procs = []
    for k, t in enumerate(trees):
        r = res[k]
        if not r.get('accepted'):
            continue
        rec = gen2instr.recover_sources(r['sources'])
        assert not rec['unrecognised'], rec['unrecognised'][0]
        cases = []       # (label, cls, side, expected flagged, coq term of the record)
        for c in rec['classes']:
            for side in 'SD':
                base = c[side]
                for n, i in enumerate(base):
                    for label, repl, se, de in mutations(i):
                        m = base[:n] + repl + base[n + 1:]
                        rr = dict(c)
                        rr[side] = m
                        cases.append((label, c['name'], side, se if side == 'S' else de, gen2instr.coq_class(rr)))
                for n in range(len(base) - 1):
                    if gen2instr.coq_instr(base[n]) != gen2instr.coq_instr(base[n + 1]):
                        rr = dict(c)
                        rr[side] = base[:n] + [base[n + 1], base[n]] + base[n + 2:]
                        cases.append(('swap', c['name'], side, True, gen2instr.coq_class(rr)))
            cases.append(('unchanged', c['name'], 'S', False, gen2instr.coq_class(c)))
            cases.append(('unchanged', c['name'], 'D', False, gen2instr.coq_class(c)))
        fn = os.path.join(CASES, f"{name}_{k}.v")
        with open(fn, 'w') as f:
            f.write("From EO Require Import Prelude.Py Prelude.Corr Model.Spec Model.Elab Model.Recover.\n"
                    "Open Scope string_scope.\nOpen Scope list_scope.\nOpen Scope Z_scope.\n")
            f.write(f"Definition t : list rfile := {coq_tree(t['tree'])}.\n")
            f.write("Definition E : env := Eval vm_compute in (elab_env t).\n")
            f.write("Definition cases : list (string * list einstr * list einstr) :=\n [" + ";\n  ".join(c[4] for c in cases) + "].\n")
            f.write("Eval vm_compute in (map (fun r => match recover_class E r with Some (true, true) => 0 | Some (false, true) => 1 "
                    "| Some (true, false) => 2 | Some (false, false) => 3 | None => 4 end) cases).\n")
        p = subprocess.Popen(['bash', '-c', f'ulimit -s unlimited 2>/dev/null; exec timeout 900 coqc -Q {COQ} EO -w -all {fn}'],
                             stdout=subprocess.PIPE, stderr=subprocess.STDOUT, text=True, cwd=COQ)
        procs.append((p, fn, t, cases))
        while len([x for x in procs if x[0].poll() is None]) >= 4:
            time.sleep(0.05)
    for p, fn, t, cases in procs:
        out, _ = p.communicate()
        m = re.search(r'=\s*\[(.*?)\]\s*:\s*list Z', out, flags=re.S)
        if p.returncode != 0 or not m:
            raise RuntimeError(f"coqc failed on {fn}: {out[-1500:]}")
        codes = [int(x) for x in re.findall(r'\d+', m.group(1))]
        assert len(codes) == len(cases), (len(codes), len(cases))
        for (label, cls, side, exp, _), code in zip(cases, codes):
            total += 1
            flagged_S, flagged_D = code in (1, 3), code in (2, 3)
            got = flagged_S if side == 'S' else flagged_D
            other = flagged_D if side == 'S' else flagged_S
            key = f"{label.split('.')[0]}.{label.split('.')[1] if '.' in label else ''}|{side}"
            key = re.sub(r'case\d+', 'case', key)
            d = per_comp.setdefault(key, dict(n=0, flagged=0, expected=0))
            d['n'] += 1
            d['flagged'] += got
            d['expected'] += bool(exp)
            if code == 4 or got != bool(exp) or other:
                wrong.append(dict(tree=t['name'], cls=cls, side=side, mutation=label, expected_flagged=bool(exp), code=code))
    return total, wrong, per_comp


# ------------------------------------------------------------------------------------------------ B. recogniser
TEXT_MUTATIONS = [
    # (label, regex, replacement)  - applied to ONE occurrence at a time, outside docstrings
    ('none-check dropped', r'\n( +)if data\._(\w+) is None:\n +raise SerializationError\("\w+ must be provided\."\)', ''),
    ('none-check message', r'must be provided\."\)', 'is required.")'),
    ('length check != -> >', r'if len\(data\._(\w+)\) != ', r'if len(data._\1) > '),
    ('length check > -> >=', r'if len\(data\._(\w+)\) > ', r'if len(data._\1) >= '),
    ('length bound +1', r'(if len\(data\._\w+\) (?:!=|>) )(\d+)', lambda m: m.group(1) + str(int(m.group(2)) + 1)),
    ('length-check message', r'Expected length of (\w+) to be ', r'Expected size of \1 to be '),
    ('padded flag flipped (writer)', r'(writer\.add_fixed_(?:encoded_)?string\([^\n]*, )(True|False)\)', lambda m: m.group(1) + ('False' if m.group(2) == 'True' else 'True') + ')'),
    ('padded flag flipped (reader)', r'(reader\.get_fixed_(?:encoded_)?string\([^\n]*, )(True|False)\)', lambda m: m.group(1) + ('False' if m.group(2) == 'True' else 'True') + ')'),
    ('writer method char -> short', r'writer\.add_char\(', 'writer.add_short('),
    ('reader method char -> short', r'reader\.get_char\(\)', 'reader.get_short()'),
    ('writer string -> encoded', r'writer\.add_string\(', 'writer.add_encoded_string('),
    ('reader string -> encoded', r'reader\.get_string\(\)', 'reader.get_encoded_string()'),
    ('0xFF -> 255', r'writer\.add_byte\(0xFF\)', 'writer.add_byte(255)'),
    ('0xFF -> 0xFE', r'writer\.add_byte\(0xFF\)', 'writer.add_byte(0xFE)'),
    ('break dropped (writer)', r'\n +writer\.add_byte\(0xFF\)', ''),
    ('next_chunk dropped', r'\n +reader\.next_chunk\(\)', ''),
    ('i > 0 -> i > 1', r'if i > 0:', 'if i > 1:'),
    ('i + 1 < n -> i < n', r'if i \+ 1 < ', 'if i < '),
    ('rmo: accumulate dropped', r'reached_missing_optional = reached_missing_optional or ', 'reached_missing_optional = '),
    ('rmo: fresh -> accumulate', r'\n( +)reached_missing_optional = data\._', lambda m: '\n' + m.group(1) + 'reached_missing_optional = reached_missing_optional or data._'),
    ('rmo guard negation dropped', r'if not reached_missing_optional:', 'if reached_missing_optional:'),
    ('remaining > 0 -> >= 0', r'if reader\.remaining > 0:', 'if reader.remaining >= 0:'),
    ('while remaining > 0 -> > 1', r'while reader\.remaining > 0:', 'while reader.remaining > 1:'),
    ('remaining / size -> //', r'int\(reader\.remaining / (\d+)\)', r'int(reader.remaining // \1)'),
    ('element size +1', r'int\(reader\.remaining / (\d+)\)', lambda m: f"int(reader.remaining / {int(m.group(1)) + 1})"),
    ('sanitization True -> False', r'writer\.string_sanitization_mode = True', 'writer.string_sanitization_mode = False'),
    ('chunked False -> True', r'reader\.chunked_reading_mode = False', 'reader.chunked_reading_mode = True'),
    ('finally restores constant', r'writer\.string_sanitization_mode = old_string_sanitization_mode', 'writer.string_sanitization_mode = False'),
    ('finally restore dropped (reader)', r'reader\.chunked_reading_mode = old_chunked_reading_mode', 'pass'),
    ('offset sign', r'(writer\.add_\w+\(data\._\w+) - (\d+)\)', r'\1 + \2)'),
    ('read offset dropped', r'(= reader\.get_\w+\(\)) \+ \d+', r'\1'),
    ('bool conversion dropped', r'\(1 if (data\._\w+) else 0\)', r'(\1)'),
    ('bool read: != 0 -> == 1', r'(reader\.get_\w+\(\)) != 0', r'\1 == 1'),
    ('enum conversion dropped (reader)', r'= [A-Z]\w*\((reader\.get_\w+\(\))\)', r'= \1'),
    ('int() dropped (writer)', r'\(int\((data\._\w+(?:\[i\])?)\)\)', r'(\1)'),
    ('bytes() dropped', r'bytes\(reader\.get_bytes\(reader\.remaining\)\)', 'reader.get_bytes(reader.remaining)'),
    ('tuple() dropped', r'= tuple\((\w+)\)', r'= \1'),
    ('tuple -> list', r'= tuple\((\w+)\)', r'= list(\1)'),
    ('optional tuple simplified', r'None if (\w+) is None else tuple\(\w+\)', r'\1 and tuple(\1)'),
    ('length slot: len -> len + 1', r'(self\._\w+ = len\(self\._\w+\))', r'\1 + 1'),
    ('length slot not assigned', r'\n +self\._\w+ = len\(self\._\w+\)[^\n]*', ''),
    ('hardcoded literal changed', r'(self\._\w+ = )(\d+)\n', lambda m: m.group(1) + str(int(m.group(2)) + 1) + '\n'),
    ('property returns other slot', r'return self\._(\w+)\n\n( +)@property', r'return self._byte_size\n\n\2@property'),
    ('setter added', r'(\n( +)@property\n +def byte_size)', lambda m: '\n' + m.group(2) + 'def set_x(self, v):\n' + m.group(2) + '    self._x = v\n' + m.group(1)),
    ('_byte_size not recorded', r'\n +result\._byte_size = reader\.position - reader_start_position', ''),
    ('byte_size from 0', r'reader\.position - reader_start_position', 'reader.position'),
    ('constructor argument dropped', r'(result = [\w.]+\()(\w+=\w+)(, )?', r'\1'),
    ('case value +1', r'(el)?if (data\._)?(\w+) == (\d+):', lambda m: f"{m.group(1) or ''}if {m.group(2) or ''}{m.group(3)} == {int(m.group(4)) + 1}:"),
    ('isinstance guard dropped', r'\n +if not isinstance\(data\._\w+, [\w.]+\):\n +raise [^\n]*', ''),
    ('isinstance negation dropped', r'if not isinstance\(', 'if isinstance('),
    ('None guard: is not -> is', r'if data\._(\w+_data) is not None:', r'if data._\1 is None:'),
    ('unmatched guard dropped', r'\n( +)else:\n +if data\._\w+_data is not None:\n +raise [^\n]*', ''),
    ('case data assigned None', r'(\w+_data) = [\w.]+\.deserialize\(reader\)', r'\1 = None'),
    ('dummy guard == -> !=', r'if len\(writer\) == old_writer_length:', 'if len(writer) != old_writer_length:'),
    ('dummy guard compares with 0', r'if len\(writer\) == old_writer_length:', 'if len(writer) == 0:'),
    ('dummy read guard dropped', r'if reader\.position == reader_start_position:', 'if True:'),
    ('statement added', r'(\n( +)old_string_sanitization_mode: bool = )', lambda m: '\n' + m.group(2) + 'writer.add_byte(0)' + m.group(1)),
    ('statement added in try', r'(\n( +)reader_start_position: int = reader\.position)', lambda m: m.group(1) + '\n' + m.group(2) + 'reader.get_byte()'),
    ('struct serialize of other class', r'\n( +)(\w+)\.serialize\(writer, (data\._\w+(?:\[i\])?)\)', lambda m: f"\n{m.group(1)}{m.group(2)}X.serialize(writer, {m.group(3)})"),
    ('packet family changed', r'return PacketFamily\.(\w+)', 'return PacketFamily.Zzz'),
    ('enum ordinal +1', r'\n(    \w+ = )(\d+)\n', lambda m: '\n' + m.group(1) + str(int(m.group(2)) + 1) + '\n'),
    ('repr of other slot', r'=\{repr\(self\._(\w+)\)\}\)"', '={repr(self._byte_size)})"'),
    ('import dropped', r'\nfrom [.\w]+ import SerializationError', ''),
]


def text_test(trees, per_mutation=6, name='selftext'):
    """-> (n applied, list of silently accepted mutations, per-mutation counts)"""
    S = Scratch()
    R = GenRunner(S, workers=4)
    res = R.run([dict(id=k, files=tree_xml(t['tree']), jobs=[], seed=0, want_sources=True) for k, t in enumerate(trees)])
    rng = random.Random(5)
    applied, silent, per = 0, [], {}
    pending = []        # (label, tree, file, recovered) to be checked by Coq
    for label, rx, repl in TEXT_MUTATIONS:
        sites = []
        for k, t in enumerate(trees):
            if not res[k].get('accepted'):
                continue
            for path, src in res[k]['sources'].items():
                for m in re.finditer(rx, src):
                    sites.append((k, path, m))
        rng.shuffle(sites)
        d = per.setdefault(label, dict(sites=len(sites), applied=0, unrecognised=0, mismatch=0, silent=0))
        for k, path, m in sites[:per_mutation]:
            src = res[k]['sources'][path]
            new = src[:m.start()] + (m.expand(repl) if isinstance(repl, str) else repl(m)) + src[m.end():]
            if new == src:
                continue
            srcs = dict(res[k]['sources'])
            srcs[path] = new
            applied += 1
            d['applied'] += 1
            rec = gen2instr.recover_sources(srcs)
            if rec['unrecognised']:
                d['unrecognised'] += 1
            else:
                pending.append((label, k, path, rec, m.group(0)[:80]))
    # the ones the recogniser read without complaint must differ from the model
    os.makedirs(CASES, exist_ok=True)
    PER = 25
    for off in range(0, len(pending), PER):
        fn = os.path.join(CASES, f"{name}_{off // PER}.v")
        with open(fn, 'w') as f:
            f.write("From EO Require Import Prelude.Py Prelude.Corr Model.Spec Model.Elab Model.Recover.\n"
                    "Open Scope string_scope.\nOpen Scope list_scope.\nOpen Scope Z_scope.\n")
            defined = set()
            for n, (label, k, path, rec, _) in enumerate(pending[off:off + PER]):
                if k not in defined:
                    f.write(f"Definition t{k} : list rfile := {coq_tree(trees[k]['tree'])}.\n")
                    defined.add(k)
                enums = clist(sorted(rec['enums'].items()), lambda kv: f"({cs(kv[0])}, {clist(kv[1], lambda nv: f'({cs(nv[0])}, {cz(nv[1])})')})")
                packets = clist(rec['packets'], lambda p: f"({cs(p[0])}, {cz(p[1])}, {cz(p[2])})")
                f.write(f"Eval vm_compute in (Nat.add (List.length (recover_check t{k} {gen2instr.coq_classes(rec['classes'])})) (List.length (recover_meta t{k} {enums} {packets}))).\n")
        rc, out = sh(['bash', '-c', f'ulimit -s unlimited 2>/dev/null; exec timeout 900 coqc -Q {COQ} EO -w -all {fn}'], cwd=COQ)
        ns = re.findall(r'=\s*(\d+)(?:%nat)?\s*:\s*nat', out)
        if rc != 0 or len(ns) != len(pending[off:off + PER]):
            raise RuntimeError(f"coqc failed on {fn}: {out[-1500:]}")
        for (label, k, path, rec, frag), n in zip(pending[off:off + PER], ns):
            if int(n) > 0:
                per[label]['mismatch'] += 1
            else:
                per[label]['silent'] += 1
                silent.append(dict(mutation=label, tree=trees[k]['name'], file=path, at=frag))
    return applied, silent, per


def main():
    n = int(sys.argv[1]) if len(sys.argv) > 1 else 6
    rng = random.Random(11)
    trees = [dict(name=nm, tree=t) for nm, t in minieo.corpus()][:2]
    G = SpecGen(rng, wire_ok=False)
    trees += [dict(name=f'random-{k}', tree=G.tree()) for k in range(n)]
    t0 = time.time()
    total, wrong, per_comp = comparator_test(trees) if '--text-only' not in sys.argv else (0, [], {})
    print(f"A. comparator: {total} single-component mutations of recovered lists on {len(trees)} trees, {len(wrong)} wrong verdicts, {time.time() - t0:.0f}s")
    for k in sorted(per_comp):
        d = per_comp[k]
        print(f"   {k:34s} n={d['n']:5d} flagged={d['flagged']:5d} expected={d['expected']:5d}")
    for w in wrong[:10]:
        print("   WRONG", json.dumps(w))
    t0 = time.time()
    applied, silent, per = text_test(trees)
    print(f"B. recogniser: {applied} source-text mutations, {len(silent)} accepted silently, {time.time() - t0:.0f}s")
    for k, d in per.items():
        print(f"   {k:36s} sites={d['sites']:5d} applied={d['applied']:2d} unrecognised={d['unrecognised']:2d} mismatch={d['mismatch']:2d} silent={d['silent']:2d}")
    for s in silent[:20]:
        print("   SILENT", json.dumps(s))
    json.dump(dict(comparator=dict(total=total, wrong=wrong, per_component=per_comp), text=dict(applied=applied, silent=silent, per_mutation=per)),
              open(os.path.join(os.path.dirname(VERIF), 'selftest.json'), 'w'), indent=1)
    return 1 if wrong or silent else 0


if __name__ == '__main__':
    sys.exit(main())
