"""Run the REAL generator once, in a fresh interpreter, with a chosen directory enumeration order (property C18).
usage: gen_variants.py <root with src/ and protocol_code_generator/> <xml dir> <out dir> <walk: normal|reversed|shuffle:N>"""
import contextlib
import io
import os
import random
import sys
from pathlib import Path

root, xml, out, walk = sys.argv[1:5]
sys.path.insert(0, root)
real_walk = os.walk


def patched(top, *a, **k):
    for dp, dns, fns in real_walk(top, *a, **k):
        if walk == 'reversed':
            dns.sort(reverse=True)
            fns.sort(reverse=True)
        elif walk.startswith('shuffle:'):
            r = random.Random(int(walk.split(':')[1]) * 7919 + len(dp))
            dns.sort()
            fns.sort()
            r.shuffle(dns)
            r.shuffle(fns)
        yield dp, dns, fns


if walk != 'normal':
    os.walk = patched
from protocol_code_generator.generate.code_generator import ProtocolCodeGenerator
buf = io.StringIO()
reuse = os.environ.get('VERIF_REUSE', '')
try:
    with contextlib.redirect_stdout(buf):
        g = ProtocolCodeGenerator(Path(xml))
        if reuse == 'after-failure':
            # the same generator object: a run that fails on a broken file, the file is repaired, the run is repeated
            victim = os.path.join(xml, 'pub', 'protocol.xml')
            good = open(victim, encoding='utf-8').read()
            with open(victim, 'w', encoding='utf-8') as f:
                f.write(good.replace('</protocol>', '<struct name="BrokenForNow"><field name="a" type="NoSuchType"/></struct></protocol>'))
            try:
                g.generate(Path(out))
                print("FAILED the broken tree was accepted")
            except BaseException:
                pass
            with open(victim, 'w', encoding='utf-8') as f:
                f.write(good)
            import shutil
            shutil.rmtree(out, ignore_errors=True)
        elif reuse == 'twice':
            g.generate(Path(out))
        g.generate(Path(out))
    print("GENERATED")
except BaseException as e:
    print(f"FAILED {type(e).__name__}: {e}")
