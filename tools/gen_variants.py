"""Run the REAL generator once, in a fresh interpreter, with a chosen directory enumeration order (property C18).
usage: gen_variants.py <root with src/ and protocol_code_generator/> <xml dir> <out dir> <walk: normal|reversed|shuffle:N>"""
import contextlib
import io
import os
import random
import sys
from pathlib import Path

root, xml, out, walk = sys.argv[1:5]
sys.path.insert(0, root)
real_walk = os.walk


def patched(top, *a, **k):
    for dp, dns, fns in real_walk(top, *a, **k):
        if walk == 'reversed':
            dns.sort(reverse=True)
            fns.sort(reverse=True)
        elif walk.startswith('shuffle:'):
            r = random.Random(int(walk.split(':')[1]) * 7919 + len(dp))
            dns.sort()
            fns.sort()
            r.shuffle(dns)
            r.shuffle(fns)
        yield dp, dns, fns


if walk != 'normal':
    os.walk = patched
from protocol_code_generator.generate.code_generator import ProtocolCodeGenerator
buf = io.StringIO()
try:
    with contextlib.redirect_stdout(buf):
        ProtocolCodeGenerator(Path(xml)).generate(Path(out))
    print("GENERATED")
except BaseException as e:
    print(f"FAILED {type(e).__name__}: {e}")
