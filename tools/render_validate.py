"""Validation run of the statement-level tie of `serialize`, `deserialize` and `__init__` (tools/py2stmt.py + coq/Model/RenderCheck.v,
RenderCheckD.v, RenderCheckI.v):
the corpus (tools/minieo.py, without 'mini-eo-literals') + N random SpecGen trees through the REAL generator.

usage: render_validate.py [n_random_trees=200] [seed=7]"""
import json
import os
import sys
import time
sys.path.insert(0, os.path.dirname(os.path.abspath(__file__)))
from vlib import *
from genharness import *
from gencheck import *
import minieo


def main():
    n = int(sys.argv[1]) if len(sys.argv) > 1 else 200
    seed = int(sys.argv[2]) if len(sys.argv) > 2 else 7
    rng = random.Random(seed)
    trees = [dict(name=nm, tree=t) for nm, t in minieo.corpus()]
    trees.append(dict(name='mini-eo-features+explicit-defaults', tree=explicit_defaults(dict(minieo.corpus())['mini-eo-features'], rng)))
    G = SpecGen(rng, wire_ok=False)
    G2 = SpecGen(rng, wire_ok=True)
    for k in range(n):
        t = (G if k % 2 == 0 else G2).tree()
        if k % 3 == 2:
            t = explicit_defaults(t, rng)
        trees.append(dict(name=f'random-{k}', tree=t))
    S = Scratch()
    R = GenRunner(S, workers=6)
    t0 = time.time()
    res = R.run([dict(id=k, files=tree_xml(t['tree']), jobs=[], seed=0, want_sources=True) for k, t in enumerate(trees)])
    entries = []
    for k, t in enumerate(trees):
        entries.append(dict(name=t['name'], tree=t['tree'], result=res.get(k, {})))
    acc = sum(1 for e in entries if e['result'].get('accepted') and e['result'].get('sources') is not None)
    print(f"real generator on {len(trees)} trees: {acc} accepted with sources, {time.time() - t0:.0f}s")
    problems = render_stream(None, entries, f'rv{seed}')
    st = render_stream.last
    print(f"render: trees={st['trees']} serialize: classes={st['classes']} outside_theorem={st['outside_theorem']}  "
          f"deserialize: methods={st['deserialize_methods']} outside_theorem={st['deserialize_outside_theorem']}  "
          f"__init__: methods={st['init_methods']} outside_theorem={st['init_outside_theorem']}  problems={st['problems']}")
    for t, c in st.get('init_outside', [])[:20]:
        print("OUTSIDE(__init__)", t, c)
    for t, c in st.get('deserialize_outside', [])[:20]:
        print("OUTSIDE(deserialize)", t, c)
    for p in problems[:20]:
        print("PROBLEM", json.dumps(p)[:3000])
    return 1 if problems else 0


if __name__ == '__main__':
    sys.exit(main())
