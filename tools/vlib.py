"""Shared machinery of the checks: scratch copy of /repo, py2coq + make, E1 case files, the property
decision procedure (DESIGN.md section 7), evidence and replay files, known findings."""
import atexit
import fcntl
import json
import os
import random
import re
import shutil
import signal
import subprocess
import sys
import tempfile
import time
import types

VERIF = os.path.dirname(os.path.dirname(os.path.abspath(__file__)))
REPO = os.environ.get('VERIF_REPO', '/repo')
COQ = os.path.join(VERIF, 'coq')
if 'VERIF_REPO' in os.environ and os.environ.get('VERIF_SHARED_COQ') != '1':
    # a run against another tree (seeded changes) regenerates coq/Gen from THAT tree: it works on a private copy of the development, so that
    # concurrent runs against different trees (and runs against /repo) never see each other's translation
    import shutil as _sh0, tempfile as _tf0, atexit as _ae0
    _priv = _tf0.mkdtemp(prefix='eolib-verif-coq-')
    _sh0.copytree(COQ, os.path.join(_priv, 'coq'), ignore=_sh0.ignore_patterns('Cases'), symlinks=True)
    COQ = os.path.join(_priv, 'coq')
    _ae0.register(lambda: _sh0.rmtree(_priv, ignore_errors=True))
# case files of this process (two runs of a check never share a file); removed at exit unless VERIF_KEEP_CASES=1
CASES = os.path.join(COQ, 'Cases', f"p{os.getpid()}")


def _drop_cases():
    if os.environ.get('VERIF_KEEP_CASES') != '1':
        import shutil as _sh
        _sh.rmtree(CASES, ignore_errors=True)


import atexit as _atexit
_atexit.register(_drop_cases)
PY = '/venv/bin/python'
sys.path.insert(0, os.path.join(VERIF, 'tools'))

TRUSTED_BASE_COMMON = [
    "Coq 8.16.1 kernel incl. its bytecode VM (vm_compute); native_compute not used",
    "axioms: none (every property theorem prints 'Closed under the global context')",
    "tools/py2coq.py (Python-ast -> Gallina translator, fail-closed) and coq/Prelude/Py.v (Python int/list/loop semantics)",
    "correspondence harness (tools/*.py): case generation, canonicalisation of Python values to Coq terms",
]


def log(*a):
    print(*a, file=sys.stderr, flush=True)


# ------------------------------------------------------------------------------------------ scratch
class Scratch:
    """Copy of /repo's working tree outside /repo and /verif, removed at exit."""

    def __init__(self):
        # the checkout sits in a directory called `eolib` (as `git clone .../eolib` would make it): nothing the generator or the package does
        # may depend on what the directories ABOVE src/eolib are called
        self.top = tempfile.mkdtemp(prefix='eolib-verif-')
        self.dir = os.path.join(self.top, 'eolib')
        os.makedirs(self.dir)
        atexit.register(self.cleanup)
        for name in ('src', 'protocol_code_generator', 'protocol.py'):
            s = os.path.join(REPO, name)
            d = os.path.join(self.dir, name)
            if os.path.isdir(s):
                shutil.copytree(s, d, ignore=shutil.ignore_patterns('__pycache__', '_generated', '*.pyc'))
            elif os.path.exists(s):
                shutil.copy2(s, d)
        self.src = os.path.join(self.dir, 'src')

    def cleanup(self):
        shutil.rmtree(self.top, ignore_errors=True)


def load_leaf(src, *modnames):
    """Import leaf modules of eolib from `src` through a stub parent package (the generated half of the
    package is absent in this checkout, so `import eolib` itself fails)."""
    for k in [k for k in sys.modules if k == 'eolib' or k.startswith('eolib.')]:
        del sys.modules[k]
    pkg = types.ModuleType('eolib')
    pkg.__path__ = [os.path.join(src, 'eolib')]
    sys.modules['eolib'] = pkg
    for sub in ('data', 'encrypt', 'packet', 'protocol'):
        m = types.ModuleType('eolib.' + sub)
        m.__path__ = [os.path.join(src, 'eolib', sub)]
        sys.modules['eolib.' + sub] = m
        setattr(pkg, sub, m)
    import importlib
    out = []
    for mn in modnames:
        out.append(importlib.import_module(mn))
    return out if len(out) != 1 else out[0]


class Timeout(Exception):
    pass


class time_limit:
    def __init__(self, seconds):
        self.seconds = seconds

    def __enter__(self):
        def h(sig, frm):
            raise Timeout()
        self.old = signal.signal(signal.SIGALRM, h)
        signal.setitimer(signal.ITIMER_REAL, self.seconds)

    def __exit__(self, *a):
        signal.setitimer(signal.ITIMER_REAL, 0)
        signal.signal(signal.SIGALRM, self.old)
        return False


def pyexc(f, *a, limit=5.0):
    """Run f(*a); canonical result ('ok', value) | ('err', coq err constructor)."""
    try:
        with time_limit(limit):
            return ('ok', f(*a))
    except Timeout:
        return ('err', 'EFuel')
    except ValueError:
        return ('err', 'EValue')
    except RuntimeError as e:
        if type(e) is RuntimeError:
            return ('err', 'ERuntime')
        return ('err', 'EUnexpected')
    except Exception:
        return ('err', 'EUnexpected')


# ------------------------------------------------------------------------------------------ Coq terms
def cz(n):
    return str(n) if n >= 0 else f"({n})"


def clist(l, f=cz):
    return '[' + '; '.join(f(x) for x in l) + ']'


def cbool(b):
    return 'true' if b else 'false'


def cres(r, f):
    return f"(Ok {f(r[1])})" if r[0] == 'ok' else f"(Err {r[1]})"


def copt(o, f):
    return 'None' if o is None else f"(Some {f(o)})"


def cstr(s):
    """Python str -> list of code points"""
    return clist([ord(c) for c in s])


# ------------------------------------------------------------------------------------------ Coq build
class Lock:
    def __enter__(self):
        self.f = open(os.path.join(VERIF, '.build.lock'), 'w')
        fcntl.flock(self.f, fcntl.LOCK_EX)

    def __exit__(self, *a):
        fcntl.flock(self.f, fcntl.LOCK_UN)
        self.f.close()


def sh(cmd, timeout=1200, cwd=None, env=None):
    e = dict(os.environ)
    if env:
        e.update(env)
    try:
        p = subprocess.run(cmd, shell=isinstance(cmd, str), cwd=cwd, env=e, stdout=subprocess.PIPE,
                           stderr=subprocess.STDOUT, timeout=timeout, text=True, errors='replace')
        out = '\n'.join(l for l in p.stdout.split('\n') if 'conda.cli.condarc' not in l)
        return p.returncode, out
    except subprocess.TimeoutExpired as ex:
        return 124, (ex.stdout or '') if isinstance(ex.stdout, str) else 'TIMEOUT'


def regen_makefile():
    vs = []
    for d in ('Prelude', 'Model', 'Gen', 'Bridge', 'Proofs', 'Properties'):
        dd = os.path.join(COQ, d)
        if os.path.isdir(dd):
            for f in sorted(os.listdir(dd)):
                if f.endswith('.v'):
                    vs.append(f"{d}/{f}")
    key = '\n'.join(vs)
    stamp = os.path.join(COQ, '.vfiles')
    if not os.path.exists(os.path.join(COQ, 'Makefile')) or not os.path.exists(stamp) or open(stamp).read() != key:
        rc, out = sh(['coq_makefile', '-f', '_CoqProject', '-o', 'Makefile'] + vs, cwd=COQ)
        if rc != 0:
            raise RuntimeError("coq_makefile failed: " + out)
        open(stamp, 'w').write(key)


def translate(src):
    import py2coq
    return py2coq.translate_all(src, os.path.join(COQ, 'Gen'))


def make(targets, jobs=8, timeout=1500):
    regen_makefile()
    rc, out = sh(['timeout', str(timeout), 'make', f'-j{jobs}', '-k'] + targets, cwd=COQ, timeout=timeout + 30)
    return rc, out


def parse_make_errors(out):
    """-> list of {file, line, msg} for each coqc error."""
    errs = []
    for m in re.finditer(r'File "\./([^"]+)", line (\d+), characters [\d-]+:\nError:((?:.|\n)*?)(?=\nmake|\nFile |\nCOQC|\Z)', out):
        errs.append(dict(file=m.group(1), line=int(m.group(2)), msg=m.group(3).strip()[:600]))
    return errs


def lemma_at(file, line):
    """Name of the Lemma/Theorem enclosing file:line."""
    try:
        lines = open(os.path.join(COQ, file)).read().split('\n')
    except OSError:
        return None
    for i in range(min(line, len(lines)) - 1, -1, -1):
        m = re.match(r'\s*(?:Lemma|Theorem|Corollary|Example|Fact|Remark|Definition|Fixpoint)\s+([A-Za-z_0-9\']+)', lines[i])
        if m:
            return m.group(1)
    return None


def cone_files(target_v):
    """Transitive EO.* dependencies of a .v file (by scanning Require lines)."""
    seen, todo = [], [target_v]
    while todo:
        f = todo.pop()
        if f in seen or not os.path.exists(os.path.join(COQ, f)):
            continue
        seen.append(f)
        txt = open(os.path.join(COQ, f)).read()
        txt = re.sub(r'\(\*.*?\*\)', '', txt, flags=re.S)
        for m in re.finditer(r'(?:^|\n)\s*(?:From\s+EO\s+)?Require\s+(?:Import\s+|Export\s+)?((?:.|\n)*?)\.(?=\s)', txt):
            for name in m.group(1).split():
                if name.startswith('EO.'):
                    name = name[3:]
                parts = name.split('.')
                if len(parts) == 2 and parts[0] in ('Prelude', 'Model', 'Gen', 'Bridge', 'Proofs', 'Properties'):
                    todo.append(f"{parts[0]}/{parts[1]}.v")
    return seen


def count_obligations(files):
    n = 0
    names = []
    for f in files:
        txt = open(os.path.join(COQ, f)).read()
        txt = re.sub(r'\(\*.*?\*\)', '', txt, flags=re.S)
        for m in re.finditer(r'\b(Lemma|Theorem|Corollary|Example|Fact|Remark)\s+([A-Za-z_0-9\']+)', txt):
            n += 1
            names.append(f"{f}:{m.group(2)}")
    return n, names


FORBIDDEN = re.compile(r'\b(Admitted|admit|Axiom|Axioms|Parameter|Parameters|Conjecture|Hypothesis|Hypotheses|Variable|Variables|Admit Obligations)\b|Unset\s+(?:Guard|Positivity|Universe)\s+Checking|Unset\s+Guard|bypass_check|type-in-type|impredicative-set')


def hygiene(files):
    bad = []
    for f in files:
        txt = open(os.path.join(COQ, f)).read()
        txt = re.sub(r'\(\*.*?\*\)', '', txt, flags=re.S)
        # Variable/Hypothesis are allowed inside Sections only
        depth = 0
        for ln, line in enumerate(txt.split('\n'), 1):
            if re.match(r'\s*Section\b', line):
                depth += 1
            if re.match(r'\s*End\b', line) and depth > 0:
                depth -= 1
            m = FORBIDDEN.search(line)
            if m:
                if m.group(1) in ('Hypothesis', 'Hypotheses', 'Variable', 'Variables') and depth > 0:
                    continue
                bad.append(f"{f}:{ln}: {m.group(0)}")
    return bad


# ------------------------------------------------------------------------------------------ E1 engine
def run_cases(name, imports, streams, timeout=600):
    """streams: list of (label, coq type of a case, [case terms], check lambda `fun c => bool`).
    Returns {label: [failing indices]} or raises on coqc failure.  Splits big streams into several files."""
    os.makedirs(CASES, exist_ok=True)
    results = {}
    CH = 3000
    jobs = []
    for label, ty, cases, chk in streams:
        for off in range(0, max(len(cases), 1), CH):
            jobs.append((label, ty, cases[off:off + CH], chk, off))
    procs = []
    for k, (label, ty, cases, chk, off) in enumerate(jobs):
        fn = os.path.join(CASES, f"{name}_{k}.v")
        with open(fn, 'w') as f:
            f.write("From EO Require Import Prelude.Py Prelude.Corr.\n" + imports + "\nOpen Scope Z_scope.\n")
            f.write(f"Definition cases : list ({ty}) :=\n  [" + ";\n   ".join(cases) + "].\n")
            f.write(f"Definition chk : ({ty}) -> bool := {chk}.\n")
            f.write("Eval vm_compute in (failing chk cases 0).\n")
        procs.append((label, off, fn))
    # run at most 3 coqc at once
    running = []
    outs = {}

    def reap(block):
        for item in list(running):
            p, label, off, fn = item
            if block:
                try:
                    p.wait(timeout=timeout)
                except subprocess.TimeoutExpired:
                    p.kill()
            if p.poll() is not None:
                out = p.stdout.read()
                running.remove(item)
                outs[(label, off)] = (p.returncode, out, fn)
    for label, off, fn in procs:
        while len(running) >= 3:
            reap(False)
            time.sleep(0.05)
        p = subprocess.Popen(['bash', '-c', f'ulimit -s unlimited 2>/dev/null || ulimit -s 1000000; exec timeout {timeout} coqc -Q {COQ} EO -w -all {fn}'], stdout=subprocess.PIPE,
                             stderr=subprocess.STDOUT, text=True, cwd=COQ)
        running.append((p, label, off, fn))
    while running:
        reap(True)
    for (label, off), (rc, out, fn) in sorted(outs.items(), key=lambda kv: (kv[0][0], kv[0][1])):
        if rc != 0:
            raise CoqCaseError(label, fn, out)
        m = re.search(r'=\s*(\[.*?\])\s*(?:%Z)?\s*:\s*list Z', out, flags=re.S)
        if not m:
            raise CoqCaseError(label, fn, out)
        idx = [int(x) + off for x in re.findall(r'-?\d+', m.group(1))]
        results.setdefault(label, []).extend(idx)
    for label, *_ in streams:
        results.setdefault(label, [])
    return results


class CoqCaseError(Exception):
    def __init__(self, label, fn, out):
        self.label, self.fn, self.out = label, fn, out
        super().__init__(f"coqc failed on case file {fn} ({label}):\n{out[-1500:]}")


# ------------------------------------------------------------------------------------------ session
class Check:
    """One run of one property check."""

    def __init__(self, pid, tier, design_ref=''):
        self.pid = pid
        self.tier = tier
        self.seed = int(os.environ.get('VERIF_SEED', '0'))
        self.rng = random.Random(self.seed * 7919 + sum(map(ord, pid)))
        self.t0 = time.time()
        self.violations = []       # (what, replay dict)
        self.known = []
        self.cov = dict(evaluations=0, distinct_nontrivial=0, traces_validated_against_impl=0, samples=[],
                        streams={}, tie={})
        self.assumptions = []
        self.notes = []
        self.broken = []           # broken obligations / correspondences: dicts
        self.kf = load_known_findings()
        self.replay_n = 0
        self.scratch = Scratch()
        self.translation = None
        self.build_ok = None
        self._distinct = set()

    # ---- stage 1+2: translation and proofs
    def prove(self, prop_file, units=(), bridges=None):
        """py2coq, then make the property's cone and its bridges.
        units: Gen modules this property relies on; bridges: {bridge file: [Gen modules it mentions]}.
        A bridge whose units py2coq cannot read (or whose Gen file does not compile) is skipped: way 1 is
        then unavailable for it and the tie is correspondence only (not a violation, DESIGN section 2)."""
        bridges = bridges or {}
        with Lock():
            rep = translate(self.scratch.src)
            self.translation = rep
            gen_targets = [f"Gen/{u}.vo" for u in units]
            rcg, outg = make(['Prelude/Corr.vo'] + gen_targets)
            self.gen_ok = {}
            for u in units:
                st = rep.get(u, {})
                bad = {k: v for k, v in st.items() if v != 'ok'}
                compiled = os.path.exists(os.path.join(COQ, f"Gen/{u}.vo")) and not re.search(rf'Gen/{u}\.v", line', outg)
                if not compiled:
                    bad['<coq>'] = 'translator output rejected by coqc: ' + outg[-300:]
                self.gen_ok[u] = dict(compiled=compiled, bad=bad)
                self.cov['tie'][u] = 'translated+bridged' if not bad else f"correspondence-only (translator: {bad})"
            targets = [prop_file.replace('.v', '.vo')]
            self.bridges_built = []
            for b, us in bridges.items():
                if all(not self.gen_ok[u]['bad'] for u in us):
                    targets.append(b.replace('.v', '.vo'))
                    self.bridges_built.append(b)
                else:
                    self.notes.append(f"bridge {b} skipped: unit(s) not readable by py2coq; tie is correspondence-only")
            rc, out = make(targets)
            self.make_log = out
            cone = cone_files(prop_file)
            for b in self.bridges_built:
                cone += [f for f in cone_files(b) if f not in cone]
            nob, names = count_obligations(cone)
            bad = hygiene([f for f in cone])
            errs = parse_make_errors(out)
            closed = len(re.findall(r'Closed under the global context', out))
            axioms = re.findall(r'Axioms:\n((?:.+\n)+)', out)
            self.cov['obligations'] = nob
            self.cov['checker_cmd'] = f"cd {COQ} && make {prop_file.replace('.v', '.vo')}  (coqc 8.16.1, full .vo build, after tools/py2coq.py regenerated coq/Gen from /repo)"
            self.cov['cone_files'] = cone
            if rc == 0 and not bad and not axioms:
                self.cov['discharged'] = nob
                self.build_ok = True
                # Print Assumptions output is only visible when the file was (re)compiled; verify separately
                self.cov['print_assumptions'] = self.assumptions_of(prop_file)
            else:
                self.build_ok = False
                failed = []
                for e in errs:
                    lem = lemma_at(e['file'], e['line'])
                    failed.append(dict(file=e['file'], line=e['line'], lemma=lem, msg=e['msg']))
                if bad:
                    failed.append(dict(file='(hygiene)', lemma=None, msg='; '.join(bad)))
                if axioms:
                    failed.append(dict(file=prop_file, lemma=None, msg='axioms: ' + axioms[0]))
                if not failed:
                    failed.append(dict(file=prop_file, lemma=None, msg=out[-800:]))
                self.cov['discharged'] = max(0, nob - len(failed))
                for f in failed:
                    # a failure inside Gen = translator output does not type-check: translation unusable
                    self.broken.append(dict(kind='proof-obligation', **f))
            return self.build_ok

    def has_gen(self, unit, name):
        """Is translated function `name` of Gen module `unit` available for evaluation?"""
        g = getattr(self, 'gen_ok', {}).get(unit)
        return bool(g) and g['compiled'] and self.translation.get(unit, {}).get(name) == 'ok'

    def assumptions_of(self, prop_file):
        """Re-run Print Assumptions for every Theorem of the property file (cheap: loads the .vo)."""
        # the property file and every bridge / companion file that was built with it
        files = [prop_file] + [b for b in getattr(self, 'bridges_built', []) if b != prop_file]
        thms, script = [], ''
        for pf in files:
            txt = open(os.path.join(COQ, pf)).read()
            names = re.findall(r'^(?:Theorem|Corollary)\s+([A-Za-z_0-9\']+)', txt, flags=re.M)
            if pf != prop_file:
                names += re.findall(r'^Lemma\s+(bridge_[A-Za-z_0-9\']+)', txt, flags=re.M)
            mod = pf[:-2].replace('/', '.')
            script += f"From EO Require {mod}.\n" + ''.join(f"Print Assumptions EO.{mod}.{t}.\n" for t in names)
            thms += [f"{mod}.{t}" for t in names]
        if not thms:
            self.broken.append(dict(kind='proof-obligation', file=prop_file, lemma=None, msg='no theorem found to print the assumptions of'))
        fn = os.path.join(CASES, f"pa_{self.pid}.v")
        os.makedirs(os.path.dirname(fn), exist_ok=True)
        open(fn, 'w').write(script)
        rc, out = sh(['timeout', '300', 'coqc', '-Q', COQ, 'EO', '-w', '-all', fn], cwd=COQ)
        res = {}
        chunks = re.split(r'(?=Closed under the global context|Axioms:)', out)
        chunks = [c for c in chunks if c.startswith('Closed') or c.startswith('Axioms')]
        for t, c in zip(thms, chunks):
            res[t] = 'closed' if c.startswith('Closed') else c.strip()[:300]
        if rc != 0 or len(chunks) != len(thms) or any(v != 'closed' for v in res.values()):
            self.broken.append(dict(kind='proof-obligation', file=prop_file, lemma=None,
                                    msg=f"Print Assumptions not closed: {res} {out[-300:] if rc else ''}"))
            self.build_ok = False
        return res

    # ---- stage 3: bookkeeping for correspondence / oracle streams
    def stream(self, label, n, nontrivial, sample=None, exhaustive=None):
        s = self.cov['streams'].setdefault(label, dict(cases=0, nontrivial=0))
        s['cases'] += n
        s['nontrivial'] += nontrivial
        if exhaustive is not None:
            s['exhaustive'] = exhaustive
        self.cov['evaluations'] += n
        self.cov['distinct_nontrivial'] += nontrivial
        if sample is not None and len(self.cov['samples']) < 12:
            self.cov['samples'].append({label: sample})

    def harness_failure(self, where, what):
        """the harness itself could not do something it must always be able to do (build a value for a class, get a driver result ...):
        whatever depended on it was not checked, so the property is not shown - reported as a broken correspondence, never skipped silently"""
        self.cov.setdefault('harness_failures', {})
        self.cov['harness_failures'][where] = self.cov['harness_failures'].get(where, 0) + 1
        if len([b for b in self.broken if b.get('stream') == 'harness:' + where]) < 3:
            self.broken.append(dict(kind='correspondence', stream='harness:' + where, msg=str(what)[:400]))

    def disagreement(self, stream, case, model=None, impl=None):
        self.broken.append(dict(kind='correspondence', stream=stream, case=case, model=model, impl=impl))

    # ---- stage 5: decide
    def violation(self, what, replay, key=None):
        """A concrete failing input of the property on the implementation."""
        for k in self.kf:
            if k['kind'] == 'finding' and k['property'] == self.pid and key is not None and k['key'] == key:
                if k['key'] not in [x['key'] for x in self.known]:
                    self.known.append(k)
                    print(f"KNOWN-FINDING: property={self.pid} {k['text']}")
                return
        self.violations.append((what, replay))

    def write_replay(self, replay):
        os.makedirs(os.path.join(VERIF, 'replays'), exist_ok=True)
        self.replay_n += 1
        path = os.path.join(VERIF, 'replays', f"{self.pid}-{self.seed}-{self.replay_n}.json")
        with open(path, 'w') as f:
            json.dump(replay, f, indent=1, default=str)
        return path

    def finish(self, level='proof', search=None):
        """search: callable run when an obligation / correspondence is broken and no violation is known yet;
        it must call self.violation(...) for each failing input it finds on the implementation."""
        # a check that compared nothing has shown nothing: an empty stream (every case lost, filtered or failed to build) is a broken correspondence
        for label, st in self.cov.get('streams', {}).items():
            if st.get('cases', 0) <= 0 and label not in getattr(self, 'optional_streams', ()):
                self.broken.append(dict(kind='correspondence', stream=label, msg='the stream is empty: nothing was run / compared'))
        if self.cov.get('evaluations', 0) <= 0:
            self.broken.append(dict(kind='correspondence', stream='(all)', msg='no evaluation at all was made'))
        if self.broken and not self.violations and search is not None:
            log(f"[{self.pid}] {len(self.broken)} broken obligation(s)/correspondence(s); searching for a failing input")
            search()
        rc = 0
        lines = []
        if self.violations:
            rc = 1
            seen = set()
            for what, replay in self.violations[:5]:
                replay = dict(property=self.pid, kind='counterexample', what=what, **replay)
                replay['broken'] = self.broken[:5]
                path = self.write_replay(replay)
                lines.append(f"VIOLATION property={self.pid} replay={path}")
        elif self.broken:
            # distinguish "only known findings explain the break" is not possible for proofs: report
            rc = 1
            replay = dict(property=self.pid, kind='broken-obligation', broken=self.broken[:20],
                          note="no concrete failing input of the property was found on the implementation; "
                               "the named theorem / bridge lemma / correspondence stream no longer checks")
            path = self.write_replay(replay)
            lines.append(f"VIOLATION property={self.pid} replay={path} no-failing-input-found")
        self.cov['trusted_base'] = TRUSTED_BASE_COMMON + self.assumptions
        self.cov['known_findings_reported'] = [k['text'] for k in self.known]
        if 'obligations' not in self.cov:
            self.cov['obligations'] = 0
            self.cov['discharged'] = 0
            self.cov['checker_cmd'] = 'n/a'
        self.cov['rule'] = self.cov.get('rule', 'see streams: per stream the number of cases run on the implementation and '
                                        'compared with the Coq model (E1: coqc+vm_compute); nontrivial = distinct cases whose '
                                        'expected result is not the trivial/empty one, as counted per stream')
        ev = dict(property_id=self.pid, tier=self.tier, seed=self.seed, level=level, coverage=self.cov,
                  assumptions=self.assumptions, wall_s=round(time.time() - self.t0, 2), violations=len(lines),
                  notes=self.notes, broken=self.broken[:20])
        # evidence/ describes /repo; a run pointed at another tree (VERIF_REPO: seeded changes) keeps its evidence apart
        evdir = os.path.join(VERIF, 'evidence' if 'VERIF_REPO' not in os.environ else '.other-tree-evidence')
        os.makedirs(evdir, exist_ok=True)
        with open(os.path.join(evdir, f"{self.pid}.json"), 'w') as f:
            json.dump(ev, f, indent=1, default=str)
        for l in lines:
            print(l)
        if rc == 0:
            print(f"OK property={self.pid} tier={self.tier} obligations={self.cov.get('obligations')} "
                  f"discharged={self.cov.get('discharged')} evaluations={self.cov['evaluations']} wall={ev['wall_s']}s")
        sys.stdout.flush()
        return rc


def load_known_findings():
    out = []
    p = os.path.join(VERIF, 'known_findings.txt')
    if not os.path.exists(p):
        return out
    for line in open(p):
        line = line.strip()
        if not line or line.startswith('#'):
            continue
        m = re.match(r'(finding|fixed):\s+property=(\S+)\s+(?:key=(\S+)\s+)?(.*)', line)
        if m:
            out.append(dict(kind=m.group(1), property=m.group(2), key=m.group(3), text=m.group(4)))
    return out


def source_constants(path):
    """Integer literals appearing in a Python source file (used to aim the failing-input search)."""
    import ast
    out = set()
    try:
        for n in ast.walk(ast.parse(open(path).read())):
            if isinstance(n, ast.Constant) and isinstance(n.value, int) and not isinstance(n.value, bool):
                out.add(n.value)
    except Exception:
        pass
    return sorted(out)


def corr_streams(C, name, specs, imports):
    """specs: list of dict(label, ty, cases=[(input, result)], term=lambda (inp,res)->coq term, chk=coq lambda,
    nontrivial=lambda (inp,res)->bool).  Runs E1 and records disagreements / coverage."""
    streams = [(s['label'], s['ty'], [s['term'](c) for c in s['cases']], s['chk']) for s in specs]
    try:
        res = run_cases(name, imports, streams)
    except CoqCaseError as e:
        C.broken.append(dict(kind='correspondence', stream=e.label, msg=str(e)[-800:]))
        return
    for s in specs:
        idxs = res.get(s['label'], [])
        for i in idxs[:5]:
            C.disagreement(s['label'], dict(input=s['cases'][i][0]), impl=s['cases'][i][1])
        nt = s.get('nontrivial', lambda c: True)
        distinct = {repr(c[0]) for c in s['cases'] if nt(c)}
        mid = s['cases'][len(s['cases']) // 3] if s['cases'] else None
        C.stream('corr.' + s['label'], len(s['cases']), len(distinct),
                 sample=dict(input=mid[0], impl=str(mid[1])) if mid else None)
        C.cov['traces_validated_against_impl'] += len(s['cases'])


def replay_broken(r, pid):
    """Replay of a file that names broken obligations instead of a failing input: print them and re-run the quick check,
    whose verdict (against the current tree) is the replay's verdict."""
    print(f"replay: this file holds no failing input; it names the proof obligation(s) / correspondence stream(s) that no longer check:")
    for b in r.get('broken', [])[:10]:
        print("   ", {k: (str(v)[:200]) for k, v in b.items()})
    import importlib
    return importlib.import_module('checks.' + pid.lower()).run('quick')
