"""Fresh-interpreter probe of the eolib namespace (property C20).
usage: ns_probe.py <scratch-root> <first-module-to-import> <declared.json>
prints JSON: path_mismatches, name_mismatches, and a dump of every eolib* module's public namespace (kind, home, qualname)."""
import importlib
import json
import sys
import types

root, first, declared_path = sys.argv[1:4]
sys.path.insert(0, root + '/src')
out = {'first': first, 'path_mismatches': [], 'name_mismatches': [], 'errors': [], 'names_checked': []}
try:
    importlib.import_module(first)
    import eolib
except BaseException as e:
    out['errors'].append(f"{type(e).__name__}: {e}")
    print(json.dumps(out))
    sys.exit(0)

mods = {k: v for k, v in sys.modules.items() if (k == 'eolib' or k.startswith('eolib.')) and isinstance(v, types.ModuleType)}
# 1. every documented module (no underscore component) is reachable along its dotted path and is THE module
for path, m in sorted(mods.items()):
    parts = path.split('.')
    if any(p.startswith('_') for p in parts):
        continue
    o = eolib
    ok = True
    for p in parts[1:]:
        if not hasattr(o, p):
            ok = False
            out['path_mismatches'].append(dict(path=path, why=f"attribute {p} missing"))
            break
        o = getattr(o, p)
    if ok and o is not m:
        out['path_mismatches'].append(dict(path=path, resolves_to=getattr(o, '__name__', repr(o))[:80]))
# 2. every public name a static subpackage's module defines is the same object in its home package and at the top level
def public_defs(m):
    """names the module itself defines and makes public: __all__ if present, else its top-level class/def/assignment names"""
    import ast
    if hasattr(m, '__all__'):
        return [n for n in m.__all__ if hasattr(m, n)]
    res = []
    try:
        tree = ast.parse(open(m.__file__, encoding='utf-8').read())
    except BaseException:
        return res
    for node in tree.body:
        names = []
        if isinstance(node, (ast.ClassDef, ast.FunctionDef, ast.AsyncFunctionDef)):
            names = [node.name]
        elif isinstance(node, ast.Assign):
            names = [t.id for t in node.targets if isinstance(t, ast.Name)]
        elif isinstance(node, ast.AnnAssign) and isinstance(node.target, ast.Name) and node.value is not None:
            names = [node.target.id]
        res += [n for n in names if not n.startswith('_') and hasattr(m, n)]
    return res
for path, m in sorted(mods.items()):
    parts = path.split('.')
    if any(p.startswith('_') for p in parts) or hasattr(m, '__path__'):
        continue                   # leaf modules of documented packages only
    pkg = mods.get('.'.join(parts[:-1]))
    for n in public_defs(m):
        obj = getattr(m, n)
        for where, holder in (('.'.join(parts[:-1]), pkg), ('eolib', eolib)):
            out['names_checked'].append([where, path, n])
            got = getattr(holder, n, None)
            if got is not obj:
                out['name_mismatches'].append(dict(name=n, defined_in=path, looked_up_in=where, got=repr(got)[:80]))
# 3. every generated class is exported, as one object, from its documented subpackage and from the top level
declared = json.load(open(declared_path))
for d in declared:      # {'name', 'dir', 'module'}
    gen_mod = 'eolib.protocol._generated' + ('.' + d['dir'].replace('/', '.') if d['dir'] else '') + '.' + d['module']
    try:
        cls = getattr(importlib.import_module(gen_mod), d['name'])
    except BaseException as e:
        out['name_mismatches'].append(dict(name=d['name'], defined_in=gen_mod, why=f"{type(e).__name__}: {e}"[:120]))
        continue
    if not isinstance(cls, type):
        out['name_mismatches'].append(dict(name=d['name'], defined_in=gen_mod, why='not a class'))
    pub = 'eolib.protocol' + ('.' + d['dir'].replace('/', '.') if d['dir'] else '')
    for where in (pub, 'eolib'):
        out['names_checked'].append([where, gen_mod, d['name']])
        holder = sys.modules.get(where)
        got = getattr(holder, d['name'], None) if holder is not None else None
        if got is not cls:
            out['name_mismatches'].append(dict(name=d['name'], defined_in=gen_mod, looked_up_in=where, got=repr(got)[:80]))
out['modules'] = sorted(mods)
print(json.dumps(out))
