"""Fresh-interpreter probe of the eolib namespace (property C20).
usage: ns_probe.py <scratch-root> <first-module-to-import> <declared.json>
prints JSON: path_mismatches, name_mismatches, and a dump of every eolib* module's public namespace (kind, home, qualname)."""
import importlib
import json
import sys
import types

root, first, declared_path = sys.argv[1:4]
sys.path.insert(0, root + '/src')
out = {'first': first, 'path_mismatches': [], 'name_mismatches': [], 'errors': [], 'names_checked': []}
try:
    importlib.import_module(first)
    import eolib
except BaseException as e:
    out['errors'].append(f"{type(e).__name__}: {e}")
    print(json.dumps(out))
    sys.exit(0)

import os
# the namespaces as `import <first>; import eolib` left them (nothing below may repair what those imports did not bind)
snapshot = {k: dict(vars(v)) for k, v in sys.modules.items() if (k == 'eolib' or k.startswith('eolib.')) and isinstance(v, types.ModuleType)}
# the documented modules are the ones ON DISK (not the ones that happened to get imported): every .py file / package directory under
# src/eolib without an underscore-prefixed component
documented = set()
base = os.path.join(root, 'src')
for dp, dns, fns in os.walk(os.path.join(base, 'eolib')):
    dns[:] = sorted(d for d in dns if d != '__pycache__')
    rel = os.path.relpath(dp, base).replace(os.sep, '.')
    if any(f.endswith('.py') for f in fns) or dns:
        documented.add(rel)
    for f in fns:
        if f.endswith('.py') and f != '__init__.py':
            documented.add(rel + '.' + f[:-3])
documented = sorted(p for p in documented if not any(c.startswith('_') for c in p.split('.')))
# 1. every documented module is reachable by attribute access along its dotted path and is THE module the import system resolves
mods = {}
for path in documented:
    parts = path.split('.')
    o = eolib
    ok = True
    for p in parts[1:]:
        if not hasattr(o, p):
            ok = False
            out['path_mismatches'].append(dict(path=path, why=f"attribute {p} missing"))
            break
        o = getattr(o, p)
    try:
        m = importlib.import_module(path)
    except BaseException as e:
        out['errors'].append(f"import {path}: {type(e).__name__}: {e}")
        continue
    mods[path] = m
    if ok and o is not m:
        out['path_mismatches'].append(dict(path=path, resolves_to=getattr(o, '__name__', repr(o))[:80]))
# 2. every public name a static subpackage's module defines is the same object in its home package and at the top level
def public_defs(m):
    """names the module itself defines and makes public: __all__ if present, else its top-level class/def/assignment names"""
    import ast
    if hasattr(m, '__all__'):
        return [n for n in m.__all__ if hasattr(m, n)]
    res = []
    try:
        tree = ast.parse(open(m.__file__, encoding='utf-8').read())
    except BaseException:
        return res
    for node in tree.body:
        names = []
        if isinstance(node, (ast.ClassDef, ast.FunctionDef, ast.AsyncFunctionDef)):
            names = [node.name]
        elif isinstance(node, ast.Assign):
            names = [t.id for t in node.targets if isinstance(t, ast.Name)]
        elif isinstance(node, ast.AnnAssign) and isinstance(node.target, ast.Name) and node.value is not None:
            names = [node.target.id]
        res += [n for n in names if not n.startswith('_') and hasattr(m, n)]
    return res
for path, m in sorted(mods.items()):
    parts = path.split('.')
    if any(p.startswith('_') for p in parts) or hasattr(m, '__path__'):
        continue                   # leaf modules of documented packages only
    for n in public_defs(m):
        obj = getattr(m, n)
        for where in ('.'.join(parts[:-1]), 'eolib'):
            out['names_checked'].append([where, path, n])
            got = snapshot.get(where, {}).get(n)
            if got is not obj:
                out['name_mismatches'].append(dict(name=n, defined_in=path, looked_up_in=where, got=repr(got)[:80]))
# 3. every generated class is exported, as one object, from its documented subpackage and from the top level
declared = json.load(open(declared_path))
for d in declared:      # {'name', 'dir', 'module'}
    gen_mod = 'eolib.protocol._generated' + ('.' + d['dir'].replace('/', '.') if d['dir'] else '') + '.' + d['module']
    try:
        cls = getattr(importlib.import_module(gen_mod), d['name'])
    except BaseException as e:
        out['name_mismatches'].append(dict(name=d['name'], defined_in=gen_mod, why=f"{type(e).__name__}: {e}"[:120]))
        continue
    if not isinstance(cls, type):
        out['name_mismatches'].append(dict(name=d['name'], defined_in=gen_mod, why='not a class'))
    pub = 'eolib.protocol' + ('.' + d['dir'].replace('/', '.') if d['dir'] else '')
    for where in (pub, 'eolib'):
        out['names_checked'].append([where, gen_mod, d['name']])
        got = snapshot.get(where, {}).get(d['name'])
        if got is not cls:
            out['name_mismatches'].append(dict(name=d['name'], defined_in=gen_mod, looked_up_in=where, got=repr(got)[:80]))
out['modules'] = sorted(mods)
print(json.dumps(out))
