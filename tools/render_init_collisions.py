"""Reproduction on the REAL generator of the names the generated constructors cannot carry (coq/Proofs/RenderInit.v,
`unrenderable_and_shadowing_names`): fields called `len` / `tuple` (the parameter shadows the builtin that a later statement of the same
`__init__` calls: constructing an instance raises TypeError), and a field `k_data` next to a switch on `k` (two parameters of the same
name: the emitted file is not Python).  Both trees are accepted by the generator; the first is sent through render_stream
(LenCall / TupleCall: `__init__` unparsed - fail closed; LenOnly: outside the theorem; Plain, Literals, OptLens: clean), the second is reported as a syntax error.

usage: render_init_collisions.py [substring of a generated file to print ...]"""
import json, os, sys
sys.path.insert(0, os.path.dirname(os.path.abspath(__file__)))
from vlib import *
from genharness import *
from gencheck import *


def tree1():
    t = empty_tree()
    t['']['structs'] += [
        {'name': 'LenCall', 'body': [F('len', 'char'), L('n', 'char'), F('s', 'string', length='n')]},
        {'name': 'TupleCall', 'body': [F('tuple', 'char'), A('xs', 'char')]},
        {'name': 'LenOnly', 'body': [F('len', 'char'), F('b', 'char')]},
        {'name': 'Plain', 'body': [F('a', 'char'), L('n', 'char'), F('s', 'string', length='n'), A('xs', 'char')]},
        # every statement form of the template in one class each (hardcoded bool / str / int with leading zeros; optional length-referenced string and array)
        {'name': 'Literals', 'body': [F('t', 'bool', text='true'), F('u', 'bool', text='false'), F('v', 'string', text='hi'), F('w', 'short', text='007'), F('z', 'char')]},
        {'name': 'OptLens', 'body': [F('a', 'char'), L('n', 'char', optional='true'), F('s', 'string', length='n', optional='true'),
                                     L('m', 'char', optional='true'), A('xs', 'char', length='m', optional='true')]},
    ]
    return t


def tree2():
    t = empty_tree()
    t['']['structs'] += [
        {'name': 'SwitchData', 'body': [F('k', 'char'), F('k_data', 'char'), SW('k', CASE('1', F('a', 'char')))]},
    ]
    return t


cases1 = [('LenCall', [8, 3, 66, 67]), ('TupleCall', [8, 3, 4]), ('LenOnly', [8, 3]), ('Plain', [8, 3, 66, 67, 4, 5]),
          ('Literals', [2, 1, 104, 105, 8, 1, 9]), ('OptLens', [8, 3, 66, 67, 2, 4, 5]), ('OptLens', [8])]
cases2 = [('SwitchData', [8, 3, 2, 5])]
S = Scratch()
R = GenRunner(S, workers=1)
entries = []
for name, t, cases in (('init-collisions-1', tree1(), cases1), ('init-collisions-2', tree2(), cases2)):
    jobs = [dict(op='deser', cls=c, data=d, chunked=False) for c, d in cases]
    r = R.run([dict(id=0, files=tree_xml(t), jobs=jobs, seed=0, want_sources=True)])[0]
    print(name, 'accepted:', r.get('accepted'), 'error:', r.get('error'), 'import_error:', r.get('import_error'))
    for (c, d), o in zip(cases, r.get('results', [])):
        print('  ', c, d, '->', json.dumps(o)[:300])
    if len(sys.argv) > 1:
        for p, src in (r.get('sources') or {}).items():
            if any(k in p for k in sys.argv[1:]):
                print('=====', p); print(src)
    entries.append(dict(name=name, tree=t, result=r))
problems = render_stream(None, entries, 'ic')
print({k: v for k, v in render_stream.last.items()})
for p in problems:
    print('PROBLEM', p['tree'], p['cls'], p['what'], p.get('method'), p.get('why'))
