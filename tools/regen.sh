#!/bin/bash
# regenerate coq/Gen from /repo's working tree and refresh the Makefile
cd /verif && PYTHONPATH=/verif/tools /venv/bin/python -c "
import vlib
vlib.translate('/repo/src'); vlib.regen_makefile()" 2>&1 | grep -v condarc
exit 0
