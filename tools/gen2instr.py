"""gen2instr - a fail-closed "decompiler" from GENERATED protocol classes back to the model's instruction lists.

Input : the text of the files the real generator wrote ({relative path: source}); the code is never imported or run.
Output: for every generated class (structs, packets and, recursively, the nested case-data classes `Cls.FieldDataSuffix`)
        S = the instruction list recovered from the body of `serialize` (+ the constructor, see below)
        D = the instruction list recovered from the body of `deserialize`
        in the vocabulary of coq/Model/Spec.v (`einstr`), plus the object-model facts (tuple copies, length slots,
        read-only properties, _byte_size), the enum tables and the packet identities.

Method (translation validation in two steps, both on the Python `ast`):
  1. EXTRACT: a recursive-descent matcher over the statement list recognises the statement groups the templates of
     protocol_code_generator/generate/{object,field,switch}_code_generator.py emit and reads the parameters off them.
  2. RENDER + COMPARE: the recovered lists are printed back through this file's own copy of the templates (`Render`)
     and the result must be AST-identical to the real class, statement by statement: methods, constructor, slots,
     properties, __repr__, the case-data Union aliases, nested classes.  Docstrings (bare string statements) are the only
     thing ignored.  The literal 0xFF of breaks / delimiters is additionally checked on the source text.
  Anything else - an unknown statement, a known statement with a different guard, message, literal, order ... - raises
  `Unrecognised(class, method, lineno, ast dump)`.  Nothing is ever skipped silently.

What each side determines (the same table is at the top of coq/Model/Recover.v); `None` in a recovered instruction means
"this side cannot see the component":
  serialize (+__init__)  everything except: acount of arrays; an empty `default` case at the end of a switch on an integer
                         field (textually identical to the unmatched guard); trailing of a non-delimited array.
                         f_hard of NAMED fields and ref_by of length fields come from __init__ (`self._f = <literal>`,
                         `self._len = len(self._f)`); the enum name of a non-optional enum field from the slot annotation.
  deserialize            constructor, name, type, f_len, padded, optional, delimited, acount, trailing (counted delimited
                         arrays only), offset, guarded, switch field / keys / case classes (incl. empty default).
                         Not: opt_first, f_hard / dummy literal, f_maxlen, ref_by.
"""
import ast
import builtins
import copy

INTS = ('byte', 'char', 'short', 'three', 'int')
IMAX = {'byte': 255, 'char': 252, 'short': 64008, 'three': 16194276, 'int': 4097152080}


class Unrecognised(Exception):
    def __init__(self, cls, method, lineno, dump, why=''):
        self.cls, self.method, self.lineno, self.dump, self.why = cls, method, lineno, dump, why
        super().__init__(f"Unrecognised({cls}, {method}, line {lineno}): {why} :: {dump[:300]}")

    def as_dict(self):
        return dict(cls=self.cls, method=self.method, lineno=self.lineno, dump=self.dump[:1500], why=self.why)


def dump(n):
    if isinstance(n, ast.AST):
        return ast.dump(n, include_attributes=False)
    if isinstance(n, list):
        return '[' + ', '.join(dump(x) for x in n) + ']'
    return repr(n)


def is_doc(s):
    return isinstance(s, ast.Expr) and isinstance(s.value, ast.Constant) and isinstance(s.value.value, str)


def strip_docs(node):
    """drop docstrings: every bare string statement of a class body, the first statement of a function body"""
    for n in ast.walk(node):
        if isinstance(n, ast.ClassDef):
            n.body = [s for s in n.body if not is_doc(s)] or [ast.Pass()]
        elif isinstance(n, ast.FunctionDef):
            if n.body and is_doc(n.body[0]):
                n.body = n.body[1:] or [ast.Pass()]
    return node


def pascal(name):
    """snake_case_to_pascal_case of the generator"""
    out, up = '', True
    for c in name:
        if c == '_':
            up = True
            continue
        out += c.upper() if up else c.lower()
        up = False
    return out


# ------------------------------------------------------------------------------------------------ small matchers
def m_name(e, ident=None):
    return isinstance(e, ast.Name) and (ident is None or e.id == ident)


def m_attr(e, base, attr=None):
    """base.attr -> attr"""
    if isinstance(e, ast.Attribute) and m_name(e.value, base) and (attr is None or e.attr == attr):
        return e.attr
    return None


def m_slot(e, base='data'):
    """data._n -> n"""
    a = m_attr(e, base)
    return a[1:] if a and a.startswith('_') and len(a) > 1 else None


def m_call(e, fname=None, nargs=None):
    if isinstance(e, ast.Call) and not e.keywords and (nargs is None or len(e.args) == nargs):
        if fname is None or m_name(e.func, fname):
            return e.args
    return None


def m_method(e, base, nargs=None):
    """base.meth(args) -> (meth, args)"""
    if isinstance(e, ast.Call) and not e.keywords and isinstance(e.func, ast.Attribute) and m_name(e.func.value, base):
        if nargs is None or len(e.args) == nargs:
            return e.func.attr, e.args
    return None


def m_const(e, typ):
    if isinstance(e, ast.Constant) and type(e.value) is typ:
        return e.value
    return None


def m_cmp(e, op):
    """left <op> right -> (left, right)"""
    if isinstance(e, ast.Compare) and len(e.ops) == 1 and isinstance(e.ops[0], op):
        return e.left, e.comparators[0]
    return None


def dotted(e):
    """A.B.C -> 'A.B.C'"""
    if isinstance(e, ast.Name):
        return e.id
    if isinstance(e, ast.Attribute):
        b = dotted(e.value)
        return None if b is None else b + '.' + e.attr
    return None


# ------------------------------------------------------------------------------------------------ types
def pytype(ty):
    k = ty[0]
    return {'int': 'int', 'bool': 'bool', 'str': 'str', 'blob': 'bytes'}.get(k) or ty[1]


def ty_of_write(meth):
    if meth.startswith('add_') and meth[4:] in INTS:
        return ('int', meth[4:])
    return {'add_string': ('str', False), 'add_fixed_string': ('str', False), 'add_encoded_string': ('str', True),
            'add_fixed_encoded_string': ('str', True), 'add_bytes': ('blob',)}.get(meth)


def ty_of_read(meth):
    if meth.startswith('get_') and meth[4:] in INTS:
        return ('int', meth[4:])
    return {'get_string': ('str', False), 'get_fixed_string': ('str', False), 'get_encoded_string': ('str', True),
            'get_fixed_encoded_string': ('str', True)}.get(meth)


# ------------------------------------------------------------------------------------------------ renderer
class Lines:
    def __init__(self):
        self.l = []

    def add(self, ind, text):
        self.l.append('    ' * ind + text)

    def text(self):
        return '\n'.join(self.l) + '\n'


class Render:
    """This file's copy of the generator's templates, driven by recovered instructions only."""

    # ---- serialize
    @staticmethod
    def write_stmt(f, array=False):
        ty, name = f['ty'], f['name']
        if name is None:
            lit = f['hard']
            value = {'int': lambda: lit, 'bool': lambda: '1' if lit == 'true' else '0', 'str': lambda: repr(lit)}[ty[0]]()
        else:
            value = f"data._{name}" + ('[i]' if array else '')
        if f['optional']:
            value = f"cast({pytype(ty)}, {value})"
        if ty[0] == 'bool':
            value = f"1 if {value} else 0"
        if ty[0] == 'enum':
            value = f"int({value})"
        off = f.get('offset', 0)
        if off:
            value += f" - {off}" if off > 0 else f" + {-off}"
        if ty[0] in ('int', 'bool', 'enum'):
            return f"writer.add_{ty[-1]}({value})"
        if ty[0] == 'str':
            lenexpr = None if array else Render.len_expr_S(f['len'])
            base = 'encoded_string' if ty[1] else 'string'
            if lenexpr is None:
                return f"writer.add_{base}({value})"
            return f"writer.add_fixed_{base}({value}, {lenexpr}, {f['padded']})"
        if ty[0] == 'blob':
            return f"writer.add_bytes({value})"
        if ty[0] == 'struct':
            return f"{ty[1]}.serialize(writer, {value})"
        raise ValueError(ty)

    @staticmethod
    def len_expr_S(ln):
        return None if ln[0] == 'none' else str(ln[1]) if ln[0] == 'lit' else f"data._{ln[1]}"

    @staticmethod
    def len_expr_D(ln):
        return None if ln[0] == 'none' else str(ln[1])

    @staticmethod
    def fieldlike_S(L, ind, f, array=False, delimited=False, trailing=None):
        name = f['name']
        if f['optional']:
            if f['opt_first']:
                L.add(ind, f"reached_missing_optional = data._{name} is None")
            else:
                L.add(ind, f"reached_missing_optional = reached_missing_optional or data._{name} is None")
            L.add(ind, "if not reached_missing_optional:")
            ind += 1
        if not f['optional'] and name is not None and f['hard'] is None:
            L.add(ind, f"if data._{name} is None:")
            L.add(ind + 1, f'raise SerializationError("{name} must be provided.")')
        if name is not None and f['len'][0] != 'none':
            if f['len'][0] == 'ref':
                lexpr, var = str(f['maxlen']), True
            else:
                lexpr, var = str(f['len'][1]), bool(f['padded'])
            op = '>' if var else '!='
            desc = f"{lexpr} or less" if var else f"exactly {lexpr}"
            L.add(ind, f"if len(data._{name}) {op} {lexpr}:")
            L.add(ind + 1, 'raise SerializationError(f"Expected length of ' + name + ' to be ' + desc + ', got {len(data._' + name + ')}.")')
        if array:
            size = Render.len_expr_S(f['len']) or f"len(data._{name})"
            L.add(ind, f"for i in range({size}):")
            ind += 1
            if delimited and not trailing:
                L.add(ind, "if i > 0:")
                L.add(ind + 1, "writer.add_byte(0xFF)")
        L.add(ind, Render.write_stmt(f, array))
        if array and delimited and trailing:
            L.add(ind, "writer.add_byte(0xFF)")

    @staticmethod
    def as_field(i):
        """a length field / dummy seen as the FieldCodeGenerator sees it"""
        if i['k'] == 'length':
            return dict(name=i['name'], ty=('int', i['t']), len=('none',), padded=False, optional=i['optional'], opt_first=i['opt_first'],
                        hard=None, maxlen=0, offset=i['offset'])
        if i['k'] == 'dummy':
            return dict(name=None, ty=i['ty'], len=('none',), padded=False, optional=False, opt_first=None, hard=i['lit'], maxlen=0)
        return i

    @staticmethod
    def tostr(sw, default=False):
        # the default branch names the value with str(): it may be None or anything no case matched
        f = sw['field']
        return f"{sw['fenum']}(data._{f}).name" if sw['fenum'] and not default else f"str(data._{f})"

    @staticmethod
    def instr_S(L, ind, i):
        k = i['k']
        if k == 'setmode':
            L.add(ind, f"writer.string_sanitization_mode = {i['b']}")
        elif k == 'break':
            L.add(ind, "writer.add_byte(0xFF)")
        elif k in ('field', 'length'):
            Render.fieldlike_S(L, ind, Render.as_field(i))
        elif k == 'array':
            Render.fieldlike_S(L, ind, i, True, i['delimited'], i['trailing'])
        elif k == 'dummy':
            if i['guarded']:
                L.add(ind, "if len(writer) == old_writer_length:")
                ind += 1
            Render.fieldlike_S(L, ind, Render.as_field(i))
        elif k == 'switch':
            f, dn = i['field'], i['field'] + '_data'
            start = True
            has_default = False
            for c in i['cases']:
                if c['key'][0] == 'default':
                    L.add(ind, "else:")
                    has_default = True
                else:
                    L.add(ind, f"{'if' if start else 'elif'} data._{f} == {c['keysrc']}:")
                isd = c['key'][0] == 'default'
                if c['cls'] is None:
                    L.add(ind + 1, f"if data._{dn} is not None:")
                    L.add(ind + 2, f'raise SerializationError("Expected {dn} to be None for {f} " + {Render.tostr(i, isd)} + ".")')
                else:
                    L.add(ind + 1, f"if not isinstance(data._{dn}, {c['cls']}):")
                    L.add(ind + 2, f'raise SerializationError("Expected {dn} to be type {c["cls"]} for {f} " + {Render.tostr(i, isd)} + ".")')
                    L.add(ind + 1, f"{c['cls']}.serialize(writer, data._{dn})")
                start = False
            if not has_default:
                j = ind
                if not start:
                    L.add(ind, "else:")
                    j += 1
                L.add(j, f"if data._{dn} is not None:")
                L.add(j + 1, f'raise SerializationError("Expected {dn} to be None for {f} " + str(data._{f}) + ".")')
        else:
            raise ValueError(k)

    @staticmethod
    def serialize(L, ind, cls, S):
        L.add(ind, "@staticmethod")
        L.add(ind, f'def serialize(writer: EoWriter, data: "{cls}") -> None:')
        ind += 1
        if any(i['k'] == 'dummy' and i['guarded'] for i in S):
            L.add(ind, "old_writer_length: int = len(writer)")
        if any(i.get('optional') and not i.get('opt_first') for i in S):
            L.add(ind, "reached_missing_optional: bool = False")
        L.add(ind, "old_string_sanitization_mode: bool = writer.string_sanitization_mode")
        L.add(ind, "try:")
        if not S:
            L.add(ind + 1, "pass")       # cannot be generated (empty try body is a syntax error): never matches
        for i in S:
            Render.instr_S(L, ind + 1, i)
        L.add(ind, "finally:")
        L.add(ind + 1, "writer.string_sanitization_mode = old_string_sanitization_mode")

    # ---- deserialize
    @staticmethod
    def read_expr(f, array=False):
        ty = f['ty']
        if ty[0] in ('int', 'bool', 'enum'):
            r = f"reader.get_{ty[-1]}()"
            off = f.get('offset', 0)
            if off:
                r += f" + {off}" if off > 0 else f" - {-off}"
            if ty[0] == 'bool':
                r = f"{r} != 0"
            elif ty[0] == 'enum':
                r = f"{ty[1]}({r})"
            return r
        if ty[0] == 'str':
            lenexpr = None if array else Render.len_expr_D(f['len'])
            base = 'encoded_string' if ty[1] else 'string'
            if lenexpr is None:
                return f"reader.get_{base}()"
            return f"reader.get_fixed_{base}({lenexpr}, {f['padded']})"
        if ty[0] == 'blob':
            return "bytes(reader.get_bytes(reader.remaining))"
        if ty[0] == 'struct':
            return f"{ty[1]}.deserialize(reader)"
        raise ValueError(ty)

    @staticmethod
    def fieldlike_D(L, ind, f, array=False, delimited=False, trailing=None, count=None):
        name = f['name']
        if f['optional']:
            L.add(ind, f"{name}: Optional[{pytype(f['ty'])}] = None")
            L.add(ind, "if reader.remaining > 0:")
            ind += 1
        if array:
            lenexpr = Render.len_expr_D(f['len'])
            if count[0] == 'rem':
                L.add(ind, f"{name}_length = int(reader.remaining / {count[1]})")
                lenexpr = f"{name}_length"
            L.add(ind, f"{name} = []")
            if lenexpr is None:
                L.add(ind, "while reader.remaining > 0:")
            else:
                L.add(ind, f"for i in range({lenexpr}):")
            L.add(ind + 1, f"{name}.append({Render.read_expr(f, True)})")
            if delimited:
                j = ind + 1
                if trailing is False and lenexpr is not None:
                    L.add(j, f"if i + 1 < {lenexpr}:")
                    j += 1
                L.add(j, "reader.next_chunk()")
        elif name is not None:
            L.add(ind, f"{name} = {Render.read_expr(f)}")
        else:
            L.add(ind, Render.read_expr(f))

    @staticmethod
    def instr_D(L, ind, i, cls):
        k = i['k']
        if k == 'setmode':
            L.add(ind, f"reader.chunked_reading_mode = {i['b']}")
        elif k == 'break':
            L.add(ind, "reader.next_chunk()")
        elif k in ('field', 'length'):
            Render.fieldlike_D(L, ind, Render.as_field(i))
        elif k == 'array':
            Render.fieldlike_D(L, ind, i, True, i['delimited'], i['trailing'], i['count'])
        elif k == 'dummy':
            if i['guarded']:
                L.add(ind, "if reader.position == reader_start_position:")
                ind += 1
            Render.fieldlike_D(L, ind, Render.as_field(i))
        elif k == 'switch':
            f, dn = i['field'], i['field'] + '_data'
            L.add(ind, f"{dn}: {cls}.{pascal(f)}Data = None")
            start = True
            for c in i['cases']:
                if c['key'][0] == 'default':
                    L.add(ind, "else:")
                else:
                    L.add(ind, f"{'if' if start else 'elif'} {f} == {c['keysrc']}:")
                if c['cls'] is None:
                    L.add(ind + 1, f"{dn} = None")
                else:
                    L.add(ind + 1, f"{dn} = {c['cls']}.deserialize(reader)")
                start = False
        else:
            raise ValueError(k)

    @staticmethod
    def public_names(instrs):
        out = []
        for i in instrs:
            if i['k'] in ('field', 'array') and i['name'] is not None:
                out.append(i['name'])
            elif i['k'] == 'switch':
                out.append(i['field'] + '_data')
        return out

    @staticmethod
    def deserialize(L, ind, cls, D):
        L.add(ind, "@staticmethod")
        L.add(ind, f'def deserialize(reader: EoReader) -> "{cls}":')
        ind += 1
        L.add(ind, "old_chunked_reading_mode: bool = reader.chunked_reading_mode")
        L.add(ind, "try:")
        L.add(ind + 1, "reader_start_position: int = reader.position")
        for i in D:
            Render.instr_D(L, ind + 1, i, cls)
        L.add(ind + 1, f"result = {cls}(" + ', '.join(f"{n}={n}" for n in Render.public_names(D)) + ")")
        L.add(ind + 1, "result._byte_size = reader.position - reader_start_position")
        L.add(ind + 1, "return result")
        L.add(ind, "finally:")
        L.add(ind + 1, "reader.chunked_reading_mode = old_chunked_reading_mode")

    # ---- the class around them
    @staticmethod
    def hard_expr(i):
        ty, lit = i['ty'], i['hard']
        return repr(lit) if ty[0] == 'str' else ('True' if lit == 'true' else 'False') if ty[0] == 'bool' else lit

    @staticmethod
    def klass(L, ind, simple, cls, M, packet):
        """slots, constructor, properties (+ packet methods); M: merged instruction list; packet: None | (family member, action member)"""
        L.add(ind, f"class {simple}{'(Packet)' if packet else ''}:")
        ind += 1
        L.add(ind, "_byte_size: int = 0")
        params, body, props, reprs = [], [], [], ['byte_size']
        for i in M:
            k = i['k']
            if k in ('field', 'array', 'length') and i['name'] is not None:
                n = i['name']
                pt = pytype(i['ty']) if k != 'length' else 'int'
                st, pa = pt, pt
                if k == 'array':
                    st, pa = f"tuple[{pt}, ...]", f"Iterable[{pt}]"
                if i['optional']:
                    st, pa = f"Optional[{st}]", f"Optional[{pa}]"
                L.add(ind, f"_{n}: {st}")
                if k == 'length':
                    continue
                props.append((n, st))
                reprs.append(n)
                params.append(f"{n}: {pa}" + (' = None' if i['optional'] else ''))
                if i.get('hard') is not None:
                    expr = Render.hard_expr(i)
                elif k == 'array':
                    expr = f"None if {n} is None else tuple({n})" if i['optional'] else f"tuple({n})"
                else:
                    expr = n
                body.append(f"self._{n} = {expr}")
                if i['len'][0] == 'ref':
                    body.append(f"self._{i['len'][1]} = len(self._{n})" + (f" if self._{n} is not None else None" if i['optional'] else ''))
            elif k == 'switch':
                dn = i['field'] + '_data'
                it = f"'{cls}.{pascal(i['field'])}Data'"
                L.add(ind, f"_{dn}: {it}")
                props.append((dn, it))
                reprs.append(dn)
                params.append(f"{dn}: {it} = None")
                body.append(f"self._{dn} = {dn}")
        L.add(ind, "def __init__(self" + (', *' if params else '') + ''.join(', ' + p for p in params) + "):")
        for b in body or ['pass']:
            L.add(ind + 1, b)
        L.add(ind, "@property")
        L.add(ind, "def byte_size(self) -> int:")
        L.add(ind + 1, "return self._byte_size")
        for n, st in props:
            L.add(ind, "@property")
            L.add(ind, f"def {n}(self) -> {st}:")
            L.add(ind + 1, f"return self._{n}")
        if packet:
            L.add(ind, "@staticmethod")
            L.add(ind, "def family() -> PacketFamily:")
            L.add(ind + 1, f"return PacketFamily.{packet[0]}")
            L.add(ind, "@staticmethod")
            L.add(ind, "def action() -> PacketAction:")
            L.add(ind + 1, f"return PacketAction.{packet[1]}")
            L.add(ind, "def write(self, writer):")
            L.add(ind + 1, f"{cls}.serialize(writer, self)")


# ------------------------------------------------------------------------------------------------ extractor
class ClassRecogniser:
    def __init__(self, pkg, cd, full, src, path):
        self.pkg, self.cd, self.cls, self.src, self.path = pkg, cd, full, src, path
        self.method = 'class'

    def fail(self, node, why=''):
        ln = getattr(node, 'lineno', None)
        if ln is None and isinstance(node, list) and node:
            ln = getattr(node[0], 'lineno', 0)
        raise Unrecognised(self.cls, self.method, ln or 0, dump(node), why)

    def seg(self, node):
        return ast.get_source_segment(self.src, node)

    def is_ff(self, stmt):
        """writer.add_byte(0xFF), spelled exactly so"""
        if isinstance(stmt, ast.Expr):
            m = m_method(stmt.value, 'writer', 1)
            if m and m[0] == 'add_byte' and m_const(m[1][0], int) == 255 and self.seg(m[1][0]) == '0xFF':
                return True
        return False

    # ---- class skeleton (loose: the rendered class is compared afterwards)
    def split(self):
        body = [s for s in self.cd.body if not is_doc(s)]
        self.funcs, self.slots, self.nested, self.aliases = {}, [], [], []
        for s in body:
            if isinstance(s, ast.FunctionDef):
                if s.name in self.funcs:
                    self.fail(s, 'method defined twice')
                self.funcs[s.name] = s
            elif isinstance(s, ast.AnnAssign) and m_name(s.target) and s.simple == 1:
                if s.value is None:
                    self.slots.append((s.target.id, s.annotation))
                elif not (s.target.id == '_byte_size' and m_const(s.value, int) == 0):
                    self.fail(s, 'unexpected class attribute')
            elif isinstance(s, ast.ClassDef):
                self.nested.append(s)
            elif isinstance(s, ast.Assign) and len(s.targets) == 1 and m_name(s.targets[0]):
                self.aliases.append(s)
            else:
                self.fail(s, 'unexpected statement in class body')
        for need in ('__init__', 'serialize', 'deserialize', '__repr__', 'byte_size'):
            if need not in self.funcs:
                self.fail(self.cd, f'no {need} method')

    def slot_pytype(self, name):
        """element / value type named by the slot annotation `_name: [Optional[] [tuple[]] T [, ...]]]`"""
        for n, a in self.slots:
            if n == '_' + name:
                if isinstance(a, ast.Subscript) and m_name(a.value, 'Optional'):
                    a = a.slice
                if isinstance(a, ast.Subscript) and m_name(a.value, 'tuple') and isinstance(a.slice, ast.Tuple) and len(a.slice.elts) == 2:
                    a = a.slice.elts[0]
                return a.id if isinstance(a, ast.Name) else None
        return None

    def extract_init(self):
        self.method = '__init__'
        fn = self.funcs['__init__']
        a = fn.args
        if a.posonlyargs or a.vararg or a.kwarg or a.defaults or [x.arg for x in a.args] != ['self']:
            self.fail(fn, 'constructor signature')
        self.params = [x.arg for x in a.kwonlyargs]
        self.hard, self.refs, self.tupled = {}, {}, {}
        for s in fn.body:
            if is_doc(s):
                continue
            if not (isinstance(s, ast.Assign) and len(s.targets) == 1):
                self.fail(s, 'constructor statement')
            n = m_slot(s.targets[0], 'self')
            v = s.value
            if n is None:
                self.fail(s, 'constructor statement')
            if isinstance(v, ast.Constant) and type(v.value) in (int, str, bool):
                self.hard[n] = ('true' if v.value else 'false') if type(v.value) is bool else v.value if type(v.value) is str else self.seg(v)
                continue
            if isinstance(v, ast.IfExp):                 # `len(self._f) if self._f is not None else None` / `None if f is None else tuple(f)`
                if m_call(v.body, 'len', 1):
                    v = v.body
                elif m_call(v.orelse, 'tuple', 1):
                    self.tupled[n] = 'optional'
                    continue
            args = m_call(v, 'len', 1)
            if args and m_slot(args[0], 'self'):
                self.refs[n] = m_slot(args[0], 'self')
            elif m_call(v, 'tuple', 1):
                self.tupled[n] = 'plain'
            elif not m_name(v, n):
                self.fail(s, 'constructor statement')
        # slots that are no constructor parameters: length fields
        self.length_slots = [n[1:] for n, _ in self.slots if n[1:] not in self.params]

    # ---- serialize
    def value_expr(self, e):
        """the value argument of a write statement -> dict(name | lit, elem, cast, kind, offset)"""
        r = dict(name=None, lit=None, elem=False, cast=None, kind='plain', offset=0)
        if isinstance(e, ast.BinOp) and isinstance(e.op, (ast.Sub, ast.Add)) and m_const(e.right, int) is not None:
            r['offset'] = e.right.value if isinstance(e.op, ast.Sub) else -e.right.value
            e = e.left
        if isinstance(e, ast.IfExp) and m_const(e.body, int) == 1 and m_const(e.orelse, int) == 0:
            r['kind'] = 'bool'
            e = e.test
        elif m_call(e, 'int', 1):
            r['kind'] = 'enum'
            e = e.args[0]
        if m_call(e, 'cast', 2):
            r['cast'] = dotted(e.args[0])
            e = e.args[1]
        if isinstance(e, ast.Subscript) and m_name(e.slice, 'i'):
            r['elem'] = True
            e = e.value
        if m_slot(e):
            r['name'] = m_slot(e)
        elif isinstance(e, ast.Constant) and type(e.value) in (int, str):
            r['lit'] = e.value if type(e.value) is str else self.seg(e)
        else:
            self.fail(e, 'value expression of a write statement')
        return r

    def write_stmt(self, st):
        """-> dict(ty, value..., len, padded)"""
        if not isinstance(st, ast.Expr):
            self.fail(st, 'write statement expected')
        m = m_method(st.value, 'writer')
        if m:
            meth, args = m
            ty = ty_of_write(meth)
            if ty is None or len(args) != (3 if 'fixed' in meth else 1):
                self.fail(st, 'writer method')
            v = self.value_expr(args[0])
            ln, padded = ('none',), False
            if 'fixed' in meth:
                if m_const(args[1], int) is not None:
                    ln = ('lit', args[1].value)
                elif m_slot(args[1]):
                    ln = ('ref', m_slot(args[1]))
                else:
                    self.fail(st, 'length expression')
                padded = m_const(args[2], bool)
                if padded is None:
                    self.fail(st, 'padded flag')
            if v['kind'] == 'bool':
                ty = ('bool', ty[1]) if ty[0] == 'int' else self.fail(st, 'bool conversion of a non-integer')
            elif v['kind'] == 'enum':
                ty = ('enum', None, ty[1]) if ty[0] == 'int' else self.fail(st, 'enum conversion of a non-integer')
            return dict(v, ty=ty, len=ln, padded=padded)
        # Struct.serialize(writer, value)
        c = st.value
        if isinstance(c, ast.Call) and isinstance(c.func, ast.Attribute) and c.func.attr == 'serialize' and m_name(c.func.value) \
                and len(c.args) == 2 and m_name(c.args[0], 'writer') and not c.keywords:
            v = self.value_expr(c.args[1])
            return dict(v, ty=('struct', c.func.value.id), len=('none',), padded=False)
        self.fail(st, 'write statement expected')

    def group_S(self, stmts, i, optional, opt_first):
        """[none check] [length check] (write | for loop)  ->  (instruction, next index)"""
        start = i
        none_checked = None
        maxlen = 0
        if i < len(stmts) and isinstance(stmts[i], ast.If) and m_cmp(stmts[i].test, ast.Is) and m_slot(stmts[i].test.left):
            none_checked = m_slot(stmts[i].test.left)
            i += 1
        checked = None
        if i < len(stmts) and isinstance(stmts[i], ast.If):
            c = m_cmp(stmts[i].test, (ast.Gt, ast.NotEq))
            if c and m_call(c[0], 'len', 1) and m_slot(c[0].args[0]) and m_const(c[1], int) is not None:
                checked = (m_slot(c[0].args[0]), c[1].value)
                i += 1
        if i >= len(stmts):
            self.fail(stmts[start:], 'incomplete field group')
        st = stmts[i]
        if isinstance(st, ast.For):
            if not (m_name(st.target, 'i') and m_call(st.iter, 'range', 1) and not st.orelse):
                self.fail(st, 'array loop')
            a = st.iter.args[0]
            if m_const(a, int) is not None:
                ln = ('lit', a.value)
            elif m_slot(a):
                ln = ('ref', m_slot(a))
            elif m_call(a, 'len', 1) and m_slot(a.args[0]):
                ln = ('none',)
            else:
                self.fail(st, 'array size expression')
            b = list(st.body)
            delimited, trailing = False, None
            if len(b) == 2 and isinstance(b[0], ast.If) and len(b[0].body) == 1 and self.is_ff(b[0].body[0]):
                delimited, trailing, b = True, False, b[1:]
            elif len(b) == 2 and self.is_ff(b[1]):
                delimited, trailing, b = True, True, b[:1]
            if len(b) != 1:
                self.fail(st, 'array loop body')
            w = self.write_stmt(b[0])
            if not w['elem'] or w['name'] is None or w['len'] != ('none',) or w['offset']:
                self.fail(st, 'array element write')
            ty = self.fix_enum(w, st)
            ins = dict(k='array', name=w['name'], ty=ty, len=ln, padded=False, optional=optional, opt_first=opt_first if optional else None,
                       hard=None, maxlen=checked[1] if (checked and ln[0] == 'ref') else 0, delimited=delimited, trailing=trailing, count=None)
            return ins, i + 1
        w = self.write_stmt(st)
        if w['elem']:
            self.fail(st, 'indexed value outside an array loop')
        name = w['name']
        ty = self.fix_enum(w, st)
        if name is not None and name in self.length_slots:
            if ty[0] != 'int':
                self.fail(st, 'length field of a non-integer type')
            return dict(k='length', name=name, t=ty[1], offset=w['offset'], optional=optional, opt_first=opt_first if optional else None,
                        ref_by=self.refs.get(name)), i + 1
        if w['offset']:
            self.fail(st, 'offset on a field that is no length field')
        hard = w['lit'] if name is None else self.hard.get(name)
        if name is None and ty[0] == 'bool':
            hard = {'1': 'true', '0': 'false'}.get(w['lit'])
        ins = dict(k='field', name=name, ty=ty, len=w['len'], padded=w['padded'], optional=optional, opt_first=opt_first if optional else None,
                   hard=hard, maxlen=checked[1] if (checked and w['len'][0] == 'ref') else 0)
        return ins, i + 1

    def fix_enum(self, w, node):
        ty = w['ty']
        if ty[0] == 'enum':
            en = w['cast'] or self.slot_pytype(w['name'] or '')
            if en is None or en in ('int', 'str', 'bool', 'bytes'):
                self.fail(node, 'enum conversion of a slot that is not annotated with an enum type')
            ty = ('enum', en, ty[2])
        return ty

    def case_key(self, e, node):
        """the expression a case compares the field with -> (key source text, integer, enum name or None)"""
        if m_const(e, int) is not None and type(e.value) is int:
            return self.seg(e), e.value, None
        if isinstance(e, ast.Attribute) and m_name(e.value):
            en, mem = e.value.id, e.attr
            vals = self.pkg.enums.get(en)
            if vals is None or mem not in dict(vals):
                self.fail(node, f'case value {en}.{mem}: no such generated enum member')
            return f"{en}.{mem}", dict(vals)[mem], en
        self.fail(node, 'case value expression')

    def switch_S(self, st):
        """if data._f == V: ... elif ...: ... else: ...   or the bare unmatched guard"""
        cases = []
        bare = m_cmp(st.test, ast.IsNot)
        if bare and m_slot(bare[0]) and m_slot(bare[0]).endswith('_data'):
            return dict(k='switch', field=m_slot(bare[0])[:-5], cases=[], fenum=None)
        field, fenum = None, None
        node = st
        while True:
            c = m_cmp(node.test, ast.Eq)
            if not (c and m_slot(c[0])):
                self.fail(node, 'switch case test')
            if field is None:
                field = m_slot(c[0])
            elif field != m_slot(c[0]):
                self.fail(node, 'switch case on another field')
            keysrc, z, en = self.case_key(c[1], node)
            cases.append(dict(key=('val', z), keysrc=keysrc, cls=self.case_body_S(node.body, field, node), en=en))
            if len(node.orelse) == 1 and isinstance(node.orelse[0], ast.If) and m_cmp(node.orelse[0].test, ast.Eq):
                node = node.orelse[0]
                continue
            break
        tail = node.orelse
        if not tail:
            self.fail(node, 'switch without default case and without unmatched guard')
        ccls = self.case_body_S(tail, field, node)
        msg_enum = self.message_enum(tail, node)
        if ccls is not None or msg_enum is not None:
            # a default case with data, or an empty default case of an enum switch (its message names the enum member)
            cases.append(dict(key=('default',), keysrc=None, cls=ccls, en=None))
        # else: the unmatched guard, or an empty default case on an integer field (textually the same): S cannot tell
        fenum = self.slot_pytype(field)
        fenum = None if fenum in (None, 'int') else fenum
        return dict(k='switch', field=field, cases=cases, fenum=fenum)

    def message_enum(self, body, node):
        """`Enum(data._f).name` inside the raise of a None guard -> Enum, `str(data._f)` -> None"""
        try:
            exc = body[0].body[0].exc
            mid = exc.args[0].left.right
        except (AttributeError, IndexError):
            self.fail(node, 'case guard')
        if isinstance(mid, ast.Attribute) and mid.attr == 'name' and isinstance(mid.value, ast.Call) and m_name(mid.value.func):
            return mid.value.func.id
        return None

    def case_body_S(self, body, field, node):
        """-> class name of the case data, None for an empty case"""
        dn = field + '_data'
        if len(body) == 1 and isinstance(body[0], ast.If) and m_cmp(body[0].test, ast.IsNot) and m_slot(body[0].test.left) == dn:
            return None
        if len(body) == 2 and isinstance(body[0], ast.If) and isinstance(body[1], ast.Expr):
            c = body[1].value
            if isinstance(c, ast.Call) and isinstance(c.func, ast.Attribute) and c.func.attr == 'serialize' and len(c.args) == 2 \
                    and m_name(c.args[0], 'writer') and m_slot(c.args[1]) == dn and dotted(c.func.value):
                return dotted(c.func.value)
        self.fail(node, 'switch case body')

    def extract_S(self, body):
        out, i = [], 0
        while i < len(body):
            st = body[i]
            if isinstance(st, ast.Assign) and len(st.targets) == 1:
                t = st.targets[0]
                if m_attr(t, 'writer', 'string_sanitization_mode') and m_const(st.value, bool) is not None:
                    out.append(dict(k='setmode', b=st.value.value))
                    i += 1
                    continue
                if m_name(t, 'reached_missing_optional'):
                    v = st.value
                    first = True
                    if isinstance(v, ast.BoolOp) and isinstance(v.op, ast.Or) and len(v.values) == 2 and m_name(v.values[0], 'reached_missing_optional'):
                        first, v = False, v.values[1]
                    c = m_cmp(v, ast.Is)
                    if not (c and m_slot(c[0])) or i + 1 >= len(body) or not isinstance(body[i + 1], ast.If) or body[i + 1].orelse:
                        self.fail(st, 'missing-optional guard')
                    ins, j = self.group_S(body[i + 1].body, 0, True, first)
                    if j != len(body[i + 1].body) or ins['name'] != m_slot(c[0]):
                        self.fail(body[i + 1], 'missing-optional guard must enclose exactly one field')
                    out.append(ins)
                    i += 2
                    continue
                self.fail(st, 'assignment')
            if self.is_ff(st):
                out.append(dict(k='break'))
                i += 1
                continue
            if isinstance(st, ast.If):
                t = st.test
                c = m_cmp(t, ast.Eq)
                if c and m_call(c[0], 'len', 1) and m_name(c[0].args[0], 'writer') and m_name(c[1], 'old_writer_length'):
                    if len(st.body) != 1 or st.orelse:
                        self.fail(st, 'dummy guard')
                    w = self.write_stmt(st.body[0])
                    if w['name'] is not None or w['len'] != ('none',):
                        self.fail(st, 'dummy write')
                    lit = {'1': 'true', '0': 'false'}.get(w['lit']) if w['ty'][0] == 'bool' else w['lit']
                    out.append(dict(k='dummy', ty=w['ty'], lit=lit, guarded=True))
                    i += 1
                    continue
                if (c and m_slot(c[0])) or (m_cmp(t, ast.IsNot) and m_slot(t.left)):
                    out.append(self.switch_S(st))
                    i += 1
                    continue
            ins, i = self.group_S(body, i, False, None)
            out.append(ins)
        return out

    # ---- deserialize
    def read_expr(self, e, node):
        """-> dict(ty, len, padded, offset)"""
        r = dict(len=('none',), padded=False, offset=0)
        wrap = None
        c = m_cmp(e, ast.NotEq)
        if c and m_const(c[1], int) == 0:
            wrap, e = ('bool',), c[0]
        elif isinstance(e, ast.Call) and m_name(e.func) and e.func.id != 'bytes' and len(e.args) == 1 and not e.keywords:
            wrap, e = ('enum', e.func.id), e.args[0]
        if isinstance(e, ast.BinOp) and isinstance(e.op, (ast.Add, ast.Sub)) and m_const(e.right, int) is not None:
            r['offset'] = e.right.value if isinstance(e.op, ast.Add) else -e.right.value
            e = e.left
        m = m_method(e, 'reader')
        if m:
            meth, args = m
            ty = ty_of_read(meth)
            if ty is None or len(args) != (2 if 'fixed' in meth else 0):
                self.fail(node, 'reader method')
            if 'fixed' in meth:
                if m_const(args[0], int) is not None:
                    r['len'] = ('lit', args[0].value)
                elif m_name(args[0]):
                    r['len'] = ('ref', args[0].id)
                else:
                    self.fail(node, 'length expression')
                r['padded'] = m_const(args[1], bool)
                if r['padded'] is None:
                    self.fail(node, 'padded flag')
            if wrap:
                if ty[0] != 'int':
                    self.fail(node, 'conversion of a non-integer')
                ty = ('bool', ty[1]) if wrap[0] == 'bool' else ('enum', wrap[1], ty[1])
            return dict(r, ty=ty)
        if wrap or r['offset']:
            self.fail(node, 'read expression')
        a = m_call(e, 'bytes', 1)
        if a:
            return dict(r, ty=('blob',))
        if isinstance(e, ast.Call) and isinstance(e.func, ast.Attribute) and e.func.attr == 'deserialize' and m_name(e.func.value) \
                and len(e.args) == 1 and m_name(e.args[0], 'reader') and not e.keywords:
            return dict(r, ty=('struct', e.func.value.id))
        self.fail(node, 'read expression')

    def group_D(self, stmts, i, optional):
        st = stmts[i]
        count = None
        if isinstance(st, ast.Expr):
            rd = self.read_expr(st.value, st)
            if rd['offset']:
                self.fail(st, 'offset on an unnamed field')
            return dict(k='field', name=None, ty=rd['ty'], len=rd['len'], padded=rd['padded'], optional=optional, opt_first=None, hard=None, maxlen=None), i + 1
        if not (isinstance(st, ast.Assign) and len(st.targets) == 1 and m_name(st.targets[0])):
            self.fail(st, 'statement of deserialize')
        name = st.targets[0].id
        a = m_call(st.value, 'int', 1)
        if a and name.endswith('_length') and isinstance(a[0], ast.BinOp) and isinstance(a[0].op, ast.Div) and m_const(a[0].right, int) is not None \
                and i + 1 < len(stmts) and isinstance(stmts[i + 1], ast.Assign) and isinstance(stmts[i + 1].value, ast.List):
            count = ('rem', a[0].right.value)
            i += 1
            st = stmts[i]
            if not (len(st.targets) == 1 and m_name(st.targets[0], name[:-7])):
                self.fail(st, 'array length variable')
            name = name[:-7]
        if isinstance(st.value, ast.List) and not st.value.elts:
            if i + 1 >= len(stmts):
                self.fail(st, 'array without loop')
            lp = stmts[i + 1]
            if isinstance(lp, ast.While) and not lp.orelse:
                if count is not None:
                    self.fail(lp, 'length variable with a while loop')
                count, ln = ('while',), ('none',)
            elif isinstance(lp, ast.For) and m_name(lp.target, 'i') and m_call(lp.iter, 'range', 1) and not lp.orelse:
                a = lp.iter.args[0]
                if count is not None:
                    if not m_name(a, name + '_length'):
                        self.fail(lp, 'array loop bound')
                    ln = ('none',)
                elif m_const(a, int) is not None:
                    count, ln = ('expr',), ('lit', a.value)
                elif m_name(a):
                    count, ln = ('expr',), ('ref', a.id)
                else:
                    self.fail(lp, 'array loop bound')
            else:
                self.fail(lp, 'array loop')
            b = lp.body
            if not b or not isinstance(b[0], ast.Expr):
                self.fail(lp, 'array loop body')
            m = m_method(b[0].value, name, 1)
            if not m or m[0] != 'append':
                self.fail(lp, 'array loop body')
            rd = self.read_expr(m[1][0], b[0])
            if rd['len'] != ('none',) or rd['offset']:
                self.fail(lp, 'array element read')
            delimited, trailing = False, None
            if len(b) == 2:
                delimited = True
                if isinstance(b[1], ast.If):
                    trailing = False
                elif count[0] != 'while':
                    trailing = True
            elif len(b) != 1:
                self.fail(lp, 'array loop body')
            return dict(k='array', name=name, ty=rd['ty'], len=ln, padded=False, optional=optional, opt_first=None, hard=None, maxlen=None,
                        delimited=delimited, trailing=trailing, count=count), i + 2
        rd = self.read_expr(st.value, st)
        if name not in self.ctor_names:
            if rd['ty'][0] != 'int':
                self.fail(st, 'a value that is not passed to the constructor must be a length field')
            return dict(k='length', name=name, t=rd['ty'][1], offset=rd['offset'], optional=optional, opt_first=None, ref_by=None), i + 1
        if rd['offset']:
            self.fail(st, 'offset on a field that is no length field')
        return dict(k='field', name=name, ty=rd['ty'], len=rd['len'], padded=rd['padded'], optional=optional, opt_first=None, hard=None, maxlen=None), i + 1

    def switch_D(self, dn, stmts, i):
        """after `f_data: Cls.FData = None`: the optional if / elif / else chain -> (instruction, next index)"""
        field = dn[:-5]
        cases = []
        if i < len(stmts) and isinstance(stmts[i], ast.If):
            c = m_cmp(stmts[i].test, ast.Eq)
            if c and m_name(c[0], field):
                node = stmts[i]
                while True:
                    c = m_cmp(node.test, ast.Eq)
                    if not (c and m_name(c[0], field)):
                        self.fail(node, 'switch case test')
                    keysrc, z, en = self.case_key(c[1], node)
                    cases.append(dict(key=('val', z), keysrc=keysrc, cls=self.case_body_D(node.body, dn, node), en=en))
                    if len(node.orelse) == 1 and isinstance(node.orelse[0], ast.If):
                        node = node.orelse[0]
                        continue
                    break
                if node.orelse:
                    cases.append(dict(key=('default',), keysrc=None, cls=self.case_body_D(node.orelse, dn, node), en=None))
                i += 1
        return dict(k='switch', field=field, cases=cases, fenum=None), i

    def case_body_D(self, body, dn, node):
        if len(body) == 1 and isinstance(body[0], ast.Assign) and len(body[0].targets) == 1 and m_name(body[0].targets[0], dn):
            v = body[0].value
            if isinstance(v, ast.Constant) and v.value is None:
                return None
            if isinstance(v, ast.Call) and isinstance(v.func, ast.Attribute) and v.func.attr == 'deserialize' and len(v.args) == 1 \
                    and m_name(v.args[0], 'reader') and not v.keywords and dotted(v.func.value):
                return dotted(v.func.value)
        self.fail(node, 'switch case body')

    def extract_D(self, body):
        out, i = [], 0
        while i < len(body):
            st = body[i]
            if isinstance(st, ast.Assign) and len(st.targets) == 1 and m_attr(st.targets[0], 'reader', 'chunked_reading_mode') \
                    and m_const(st.value, bool) is not None:
                out.append(dict(k='setmode', b=st.value.value))
                i += 1
                continue
            if isinstance(st, ast.Expr):
                m = m_method(st.value, 'reader', 0)
                if m and m[0] == 'next_chunk':
                    out.append(dict(k='break'))
                    i += 1
                    continue
            if isinstance(st, ast.AnnAssign) and m_name(st.target) and isinstance(st.value, ast.Constant) and st.value.value is None:
                n = st.target.id
                if isinstance(st.annotation, ast.Subscript) and m_name(st.annotation.value, 'Optional'):
                    if i + 1 >= len(body) or not isinstance(body[i + 1], ast.If) or body[i + 1].orelse:
                        self.fail(st, 'optional field without its remaining-guard')
                    ins, j = self.group_D(body[i + 1].body, 0, True)
                    if j != len(body[i + 1].body) or ins['name'] != n:
                        self.fail(body[i + 1], 'remaining-guard must enclose exactly one field')
                    out.append(ins)
                    i += 2
                    continue
                if n.endswith('_data') and isinstance(st.annotation, ast.Attribute):
                    ins, i = self.switch_D(n, body, i + 1)
                    out.append(ins)
                    continue
                self.fail(st, 'annotated assignment')
            if isinstance(st, ast.If):
                c = m_cmp(st.test, ast.Eq)
                if c and m_attr(c[0], 'reader', 'position') and m_name(c[1], 'reader_start_position'):
                    if len(st.body) != 1 or st.orelse or not isinstance(st.body[0], ast.Expr):
                        self.fail(st, 'dummy guard')
                    rd = self.read_expr(st.body[0].value, st)
                    if rd['len'] != ('none',) or rd['offset']:
                        self.fail(st, 'dummy read')
                    out.append(dict(k='dummy', ty=rd['ty'], lit=None, guarded=True))
                    i += 1
                    continue
                self.fail(st, 'if statement of deserialize')
            ins, i = self.group_D(body, i, False)
            out.append(ins)
        return out

    def method_body(self, name):
        """the statements between the fixed prologue and epilogue of serialize / deserialize (checked exactly later)"""
        self.method = name
        fn = self.funcs[name]
        b = [s for s in fn.body if not is_doc(s)]
        if not b or not isinstance(b[-1], ast.Try):
            self.fail(fn, 'no try/finally wrapper')
        tb = b[-1].body
        if name == 'serialize':
            return tb
        if len(tb) < 4 or not (isinstance(tb[-3], ast.Assign) and isinstance(tb[-3].value, ast.Call)):
            self.fail(fn, 'deserialize epilogue')
        ctor = tb[-3].value
        self.ctor_names = [k.arg for k in ctor.keywords]
        return tb[1:-3]

    # ---- all together
    def merge(self, S, D):
        """one list with every component, for the class skeleton; S and D must be aligned"""
        self.method = 'class'
        D2 = list(D)
        M = []
        if len(S) != len(D):
            self.fail(self.cd, f'serialize has {len(S)} instructions, deserialize has {len(D)}')
        for s, d in zip(S, D2):
            sk, dk = s['k'], d['k']
            if sk != dk or s.get('name') != d.get('name') or s.get('field') != d.get('field'):
                self.fail(self.cd, f'serialize and deserialize are not aligned: {short(s)} / {short(d)}')
            m = dict(s)
            if sk == 'array':
                m['count'] = d['count']
            if sk == 'switch':
                m['cases'] = d['cases']
            M.append(m)
        return M

    def packet_ids(self):
        self.method = 'class'
        if not self.cd.bases:
            for n in ('family', 'action', 'write'):
                if n in self.funcs:
                    self.fail(self.funcs[n], 'packet method in a class that is no Packet')
            return None
        out = []
        for n, en in (('family', 'PacketFamily'), ('action', 'PacketAction')):
            fn = self.funcs.get(n)
            try:
                r = [s for s in fn.body if not is_doc(s)][0].value
                assert m_name(r.value, en)
                out.append(r.attr)
            except (AttributeError, IndexError, AssertionError):
                self.fail(fn or self.cd, f'packet {n}()')
        return tuple(out)

    def compare(self, expected_src, packet):
        """AST identity of the real class (docstrings dropped, nested classes and aliases apart) with the rendered one"""
        exp = strip_docs(ast.parse(expected_src)).body[0]
        act = self.cd
        abody = []
        for s in act.body:                 # docstrings dropped on shallow copies: the nested classes are recognised from the untouched tree
            if is_doc(s) or isinstance(s, (ast.ClassDef, ast.Assign)):
                continue
            if isinstance(s, ast.FunctionDef) and s.body and is_doc(s.body[0]):
                s = copy.copy(s)
                s.body = s.body[1:] or [ast.Pass()]
            abody.append(s)
        ebody = exp.body
        if dump(act.bases) != dump(exp.bases) or act.keywords or act.decorator_list:
            self.method = 'class'
            self.fail(act, 'class header')
        for k in range(max(len(abody), len(ebody))):
            a = abody[k] if k < len(abody) else None
            e = ebody[k] if k < len(ebody) else None
            if a is None or e is None or dump(a) != dump(e):
                self.method = getattr(a, 'name', None) or getattr(e, 'name', None) or 'class'
                self.diff(a, e)

    def diff(self, a, e):
        """report the innermost first differing statement"""
        if a is None:
            raise Unrecognised(self.cls, self.method, self.cd.lineno, '<nothing>', 'expected: ' + ast.unparse(e)[:300])
        if e is None:
            self.fail(a, 'not expected here')
        if type(a) is type(e):
            for fld in ('body', 'orelse', 'finalbody'):
                la, le = getattr(a, fld, None), getattr(e, fld, None)
                if isinstance(la, list) and isinstance(le, list):
                    for k in range(max(len(la), len(le))):
                        x = la[k] if k < len(la) else None
                        y = le[k] if k < len(le) else None
                        if x is None or y is None or dump(x) != dump(y):
                            if x is not None and y is not None and type(x) is type(y) and hasattr(x, 'body') and not isinstance(x, ast.ClassDef):
                                # same kind of compound statement: is the difference in the header?
                                hx, hy = header_dump(x), header_dump(y)
                                if hx == hy:
                                    return self.diff(x, y)
                            if x is None:
                                raise Unrecognised(self.cls, self.method, getattr(a, 'lineno', 0), '<nothing>', 'expected: ' + ast.unparse(y)[:300])
                            self.fail(x, 'expected: ' + (ast.unparse(y)[:300] if y is not None else '<nothing>'))
        self.fail(a, 'expected: ' + ast.unparse(e)[:300])

    def run(self):
        """-> list of class records (this class first, then its case-data classes)"""
        self.split()
        self.extract_init()
        D = self.extract_D(self.method_body('deserialize'))
        S = self.extract_S(self.method_body('serialize'))
        self.check_tostr(S)
        M = self.merge(S, D)
        self.check_locals(M)
        packet = self.packet_ids()
        L = Lines()
        Render.klass(L, 0, self.cd.name, self.cls, M, packet)
        Render.serialize(L, 1, self.cls, S)
        Render.deserialize(L, 1, self.cls, D)
        L.add(1, "def __repr__(self):")
        L.add(2, 'return f"' + self.cls + '(' + ', '.join(n + "={repr(self._" + n + ")}" for n in ['byte_size'] + Render.public_names(M)) + ')"')
        self.compare(L.text(), packet)
        self.check_aux(M)
        rec = dict(name=self.cls, path=self.path, S=S, D=D, packet=packet,
                   objmodel=dict(byte_size=True,
                                 tuple_copied=[i['name'] for i in M if i['k'] == 'array'],
                                 optional_tuple_copied=[i['name'] for i in M if i['k'] == 'array' and i['optional']],
                                 length_slots={i['name']: i['ref_by'] for i in M if i['k'] == 'length'},
                                 readonly_properties=['byte_size'] + Render.public_names(M),
                                 hardcoded={i['name']: i['hard'] for i in M if i['k'] == 'field' and i['name'] and i['hard'] is not None}))
        out = [rec]
        for nd in self.nested:
            out += ClassRecogniser(self.pkg, nd, self.cls + '.' + nd.name, self.src, self.path).run()
        return out

    def check_locals(self, M):
        """Field names become local variables of `deserialize` and parameters of `__init__`.  The statement shapes only mean what
        the model says if such a name does not capture a name the templates themselves use (`i` of the array loops, `reader`,
        `result`, `int`, a referenced class ...) and if the locals are pairwise distinct."""
        self.method = 'deserialize'
        locs, types = [], {self.cls.split('.')[0]}
        for i in M:
            if i['k'] in ('field', 'array', 'length') and i['name'] is not None:
                locs.append(i['name'])
                if i['k'] == 'array' and i['count'][0] == 'rem':
                    locs.append(i['name'] + '_length')
            elif i['k'] == 'switch':
                locs.append(i['field'] + '_data')
            ty = i.get('ty')
            if ty and ty[0] in ('enum', 'struct'):
                types.add(ty[1])
        reserved = {'reader', 'old_chunked_reading_mode', 'reader_start_position', 'int', 'bytes', 'range'} | types
        for n in locs:
            if n in reserved:
                self.fail(self.funcs['deserialize'], f"field name '{n}' captures a name the generated deserialize uses itself")
            if locs.count(n) > 1:
                self.fail(self.funcs['deserialize'], f"two locals of deserialize are called '{n}'")
        # `i` is the variable of the counted array loops: a value called i is lost when such a loop runs after it was read
        seen_i = False
        for i in M:
            if i['k'] == 'array' and i['count'][0] != 'while' and (seen_i or i['name'] == 'i'):
                self.fail(self.funcs['deserialize'], "the value read into 'i' is overwritten by the loop variable of a later array loop")
            if i.get('name') == 'i':
                seen_i = True
        self.method = '__init__'
        for n in Render.public_names(M):
            if n in ('self', 'len', 'tuple'):
                self.fail(self.funcs['__init__'], f"constructor parameter '{n}' captures a name the generated constructor uses itself")

    def check_tostr(self, S):
        """the to-string form used in the guards' messages must fit the type of the switch field"""
        self.method = 'serialize'
        for i in S:
            if i['k'] == 'switch':
                for c in i['cases']:
                    if c['en'] is not None and c['en'] != i['fenum']:
                        self.fail(self.funcs['serialize'], f"case value {c['keysrc']} does not belong to the enum {i['fenum']} of field {i['field']}")

    def check_aux(self, M):
        """the Union aliases and the nested classes: exactly those of the switches, in order"""
        self.method = 'class'
        exp_alias, exp_nested = [], []
        for i in M:
            if i['k'] == 'switch':
                iface = pascal(i['field']) + 'Data'
                mem = [c['cls'] for c in i['cases'] if c['cls'] is not None]
                exp_alias.append(f"{iface} = Union[" + ', '.join([repr(m) for m in mem] + ['None']) + "]")
                for m in mem:
                    if not m.startswith(self.cls + '.' + iface) or '.' in m[len(self.cls) + 1:]:
                        self.fail(self.cd, f'case class {m} is not named {self.cls}.{iface}<suffix>')
                    exp_nested.append(m[len(self.cls) + 1:])
        act_alias = [dump(a) for a in self.aliases]
        if act_alias != [dump(ast.parse(x).body[0]) for x in exp_alias]:
            self.fail(self.aliases or self.cd, 'case-data Union aliases: expected ' + '; '.join(exp_alias))
        if [n.name for n in self.nested] != exp_nested:
            self.fail(self.cd, f'nested classes {[n.name for n in self.nested]}, expected {exp_nested}')
        # order inside the class body: slots, methods, then per switch alias followed by its classes
        order = [('alias' if isinstance(s, ast.Assign) else 'class' if isinstance(s, ast.ClassDef) else 'other') for s in self.cd.body if not is_doc(s)]
        tail = [o for o in order if o != 'other']
        if order[len(order) - len(tail):] != tail:
            self.fail(self.cd, 'aliases / nested classes must follow the methods')


def header_dump(n):
    """dump of a compound statement without its blocks"""
    parts = []
    for f, v in ast.iter_fields(n):
        if f in ('body', 'orelse', 'finalbody', 'handlers'):
            continue
        parts.append(f + '=' + dump(v))
    return type(n).__name__ + '(' + ', '.join(parts) + ')'


def short(i):
    return {k: v for k, v in i.items() if k in ('k', 'name', 'field')}


# ------------------------------------------------------------------------------------------------ package level
class Package:
    def __init__(self, sources):
        self.sources = sources
        self.enums = {}          # name -> [(python member name, ordinal)]
        self.classes = []
        self.unrecognised = []
        self.packets = []

    def module(self, path, src):
        """-> ('enum' | 'class' | 'init', ClassDef | None, imported names)"""
        try:
            tree = ast.parse(src)
        except SyntaxError as e:
            raise Unrecognised(path, 'module', e.lineno or 0, repr(e.text), 'generated file is not valid Python: ' + str(e.msg))
        imported = set()
        cds = []
        for s in tree.body:
            if isinstance(s, ast.ImportFrom):
                imported.update(a.asname or a.name for a in s.names)
            elif isinstance(s, ast.ClassDef):
                cds.append(s)
            elif not is_doc(s):
                raise Unrecognised(path, 'module', s.lineno, dump(s), 'unexpected module-level statement')
        if path.endswith('__init__.py'):
            if cds:
                raise Unrecognised(path, 'module', cds[0].lineno, cds[0].name, 'class in a package file')
            return 'init', None, imported
        if len(cds) != 1:
            raise Unrecognised(path, 'module', 0, str([c.name for c in cds]), 'a generated module holds exactly one top-level class')
        cd = cds[0]
        if any(m_name(b, 'IntEnum') for b in cd.bases):
            return 'enum', cd, imported
        return 'class', cd, imported

    def enum(self, path, cd, src):
        if not (len(cd.bases) == 1 and m_name(cd.bases[0], 'IntEnum') and len(cd.keywords) == 1 and cd.keywords[0].arg == 'metaclass'
                and m_name(cd.keywords[0].value, 'ProtocolEnumMeta') and not cd.decorator_list):
            raise Unrecognised(cd.name, 'class', cd.lineno, dump(cd.bases), 'enum class header')
        vals = []
        for s in cd.body:
            if is_doc(s):
                continue
            if isinstance(s, ast.Assign) and len(s.targets) == 1 and m_name(s.targets[0]) and m_const(s.value, int) is not None:
                vals.append((s.targets[0].id, s.value.value))
            elif isinstance(s, ast.Assign) and len(s.targets) == 1 and m_name(s.targets[0]) and isinstance(s.value, ast.UnaryOp) \
                    and isinstance(s.value.op, ast.USub) and m_const(s.value.operand, int) is not None:
                vals.append((s.targets[0].id, -s.value.operand.value))
            else:
                raise Unrecognised(cd.name, 'class', s.lineno, dump(s), 'enum member')
        if cd.name in self.enums:
            raise Unrecognised(cd.name, 'class', cd.lineno, cd.name, 'enum generated twice')
        self.enums[cd.name] = vals

    def check_names(self, cd, imported, path):
        """every free name of the class is a builtin, imported into the module, or bound inside the class"""
        bound = {cd.name} | set(dir(builtins))
        used = []
        for n in ast.walk(cd):
            if isinstance(n, ast.Name):
                if isinstance(n.ctx, ast.Store):
                    bound.add(n.id)
                else:
                    used.append(n)
            elif isinstance(n, ast.arg):
                bound.add(n.arg)
            elif isinstance(n, (ast.ClassDef, ast.FunctionDef)):
                bound.add(n.name)
        for n in used:
            if n.id not in bound and n.id not in imported:
                raise Unrecognised(cd.name, 'module', n.lineno, n.id, f'name {n.id} is used but not imported in {path}')

    def run(self):
        mods = []
        for path in sorted(self.sources):
            if not path.endswith('.py'):
                self.unrecognised.append(Unrecognised(path, 'module', 0, path, 'unexpected generated file'))
                continue
            try:
                kind, cd, imported = self.module(path, self.sources[path])
                if kind == 'enum':
                    self.enum(path, cd, self.sources[path])
                mods.append((path, kind, cd, imported))
            except Unrecognised as u:
                self.unrecognised.append(u)
        for path, kind, cd, imported in mods:
            if kind != 'class':
                continue
            try:
                self.check_names(cd, imported, path)
                recs = ClassRecogniser(self, cd, cd.name, self.sources[path], path).run()
            except Unrecognised as u:
                self.unrecognised.append(u)
                continue
            self.classes += recs
            if recs[0]['packet']:
                fam, act = recs[0]['packet']
                fv, av = dict(self.enums.get('PacketFamily', [])).get(fam), dict(self.enums.get('PacketAction', [])).get(act)
                if fv is None or av is None:
                    self.unrecognised.append(Unrecognised(cd.name, 'class', cd.lineno, f"{fam}/{act}", 'packet family / action is no generated enum member'))
                else:
                    self.packets.append((cd.name, fv, av))
        return self


def recover_sources(sources):
    """{relative path: text} -> dict(classes=[dict(name, S, D, packet, objmodel, path)], enums, packets, unrecognised=[Unrecognised])"""
    p = Package(sources).run()
    return dict(classes=p.classes, enums=p.enums, packets=p.packets, unrecognised=p.unrecognised)


# ------------------------------------------------------------------------------------------------ Coq terms
def _cs(s):
    if not all(32 <= ord(c) < 127 for c in s):
        raise ValueError(f"non-ASCII text in a recovered instruction: {s!r}")
    return '"' + s.replace('"', '""') + '"'


def _cso(s):
    return 'None' if s is None else f"(Some {_cs(str(s))})"


def _cb(b):
    return 'true' if b else 'false'


def _cz(n):
    return str(n) if n >= 0 else f"({n})"


def coq_ty(ty):
    k = ty[0]
    it = lambda t: 'T' + t.capitalize()
    if k == 'int':
        return f"(EInt {it(ty[1])})"
    if k == 'bool':
        return f"(EBool {it(ty[1])})"
    if k == 'enum':
        return f"(EEnum {_cs(ty[1])} {it(ty[2])})"
    if k == 'str':
        return f"(EStr {_cb(ty[1])})"
    if k == 'blob':
        return "EBlob"
    return f"(EStruct {_cs(ty[1])})"


def coq_field(f):
    ln = f['len']
    l = 'LNone' if ln[0] == 'none' else f"(LLit {_cz(ln[1])})" if ln[0] == 'lit' else f"(LRef {_cs(ln[1])})"
    return (f"(mkField {_cso(f['name'])} {coq_ty(f['ty'])} {l} {_cb(f['padded'])} {_cb(f['optional'])} {_cb(f['opt_first'])} "
            f"{_cso(f['hard'])} {_cz(f['maxlen'] or 0)})")


def coq_instr(i):
    """a recovered instruction as an `einstr` term; components the side cannot see get a fixed filler (erased again by Recover.v)"""
    k = i['k']
    if k == 'field':
        return f"EField {coq_field(i)}"
    if k == 'array':
        c = i['count']
        cnt = 'ACExpr' if c is None or c[0] == 'expr' else 'ACWhile' if c[0] == 'while' else f"(ACRemaining {_cz(c[1])})"
        return f"EArray {coq_field(i)} {_cb(i['delimited'])} {_cb(i['trailing'])} {cnt}"
    if k == 'length':
        return f"ELength {_cs(i['name'])} T{i['t'].capitalize()} {_cz(i['offset'])} {_cb(i['optional'])} {_cb(i['opt_first'])} {_cso(i['ref_by'])}"
    if k == 'dummy':
        return f"EDummy {coq_ty(i['ty'])} {_cs(i['lit'] or '')} {_cb(i['guarded'])}"
    if k == 'switch':
        cases = '; '.join(f"mkCase {'CKDefault' if c['key'][0] == 'default' else '(CKValue ' + _cz(c['key'][1]) + ')'} {_cso(c['cls'])}" for c in i['cases'])
        return f"ESwitch {_cs(i['field'])} [{cases}]"
    if k == 'setmode':
        return f"ESetMode {_cb(i['b'])}"
    if k == 'break':
        return "EBreak"
    raise ValueError(k)


def coq_class(rec):
    return (f"({_cs(rec['name'])},\n    [" + ";\n     ".join(coq_instr(i) for i in rec['S']) + "],\n    [" +
            ";\n     ".join(coq_instr(i) for i in rec['D']) + "])")


def coq_classes(recs):
    return "[" + ";\n   ".join(coq_class(r) for r in recs) + "]"


if __name__ == '__main__':
    import json
    import os
    import sys
    root = sys.argv[1]
    srcs = {}
    for dp, _, fs in os.walk(root):
        for f in fs:
            if f.endswith('.py'):
                p = os.path.join(dp, f)
                srcs[os.path.relpath(p, root)] = open(p, encoding='utf-8').read()
    r = recover_sources(srcs)
    for u in r['unrecognised']:
        print('UNRECOGNISED', json.dumps(u.as_dict())[:600])
    for c in r['classes']:
        print(c['name'])
        for side in 'SD':
            for i in c[side]:
                print('   ', side, coq_instr(i))
    print(len(r['classes']), 'classes,', len(r['unrecognised']), 'unrecognised')
