#!/bin/bash
# run_seed.sh <seed-dir-name> <ID> [tier] : apply a seeded change to /repo, run the check, undo it straight afterwards
D=/verif/seeded/$1; ID=$2; TIER=${3:-quick}
git -C /repo status --short | grep -q . && { echo "/repo not clean"; exit 2; }
git -C /repo apply $D/patch.diff || exit 2
trap 'git -C /repo checkout -q -- .; git -C /repo clean -fdq' EXIT
cd /verif && ./bin/check $ID $TIER 2>&1 | tail -5
echo "exit=${PIPESTATUS[0]}"
