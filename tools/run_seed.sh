#!/bin/bash
# run_seed.sh <seed-dir-name> [tier] : the literal procedure - apply a stored seeded change to /repo ITSELF, run the property's check, undo it
# straight afterwards (needs a clean /repo; nothing else may use /repo meanwhile).  tools/seed_rerun.sh does the same for many seeds on scratch
# worktrees (VERIF_REPO) and is what the recorded meta.json files come from.
N=$1; D=/verif/seeded/$N; ID=${N%%-*}; TIER=${2:-quick}
git -C /repo status --short | grep -q . && { echo "/repo not clean"; exit 2; }
git -C /repo apply $D/patch.diff || exit 2
trap 'git -C /repo checkout -q -- .; git -C /repo clean -fdq' EXIT
cd /verif && ./bin/check $ID $TIER 2>&1 | grep -E "^(OK|VIOLATION|KNOWN)"
echo "exit=${PIPESTATUS[0]}"
