"""T' extractor: the import program of every module under <src>/eolib (static and generated), as data for
Model/PyImport.v.  Fail-closed: a top-level statement outside the recognised forms makes the module 'unreadable'."""
import ast
import os


class Unreadable(Exception):
    pass


def absolute(module, level, cur, is_pkg):
    """resolve a relative import target to an absolute dotted path"""
    if level == 0:
        return module
    parts = cur.split('.')
    base = parts if is_pkg else parts[:-1]
    base = base[:len(base) - (level - 1)] if level > 1 else base
    return '.'.join(base + ([module] if module else []))


def is_rebind_loop(node):
    """for _name in ('a', 'b'): globals()[_name] = _importlib.import_module('.' + _name, __name__)"""
    if not (isinstance(node, ast.For) and isinstance(node.target, ast.Name) and isinstance(node.iter, (ast.Tuple, ast.List)) and not node.orelse):
        return None
    names = []
    for e in node.iter.elts:
        if not (isinstance(e, ast.Constant) and isinstance(e.value, str)):
            return None
        names.append(e.value)
    if len(node.body) != 1 or not isinstance(node.body[0], ast.Assign):
        return None
    a = node.body[0]
    t = a.targets[0]
    var = node.target.id
    ok_target = (len(a.targets) == 1 and isinstance(t, ast.Subscript) and isinstance(t.value, ast.Call) and isinstance(t.value.func, ast.Name)
                 and t.value.func.id == 'globals' and isinstance(t.slice, ast.Name) and t.slice.id == var)
    v = a.value
    ok_value = (isinstance(v, ast.Call) and isinstance(v.func, ast.Attribute) and v.func.attr == 'import_module' and len(v.args) == 2
                and isinstance(v.args[0], ast.BinOp) and isinstance(v.args[0].op, ast.Add) and isinstance(v.args[0].left, ast.Constant)
                and v.args[0].left.value == '.' and isinstance(v.args[0].right, ast.Name) and v.args[0].right.id == var
                and isinstance(v.args[1], ast.Name) and v.args[1].id == '__name__')
    return names if ok_target and ok_value else None


def module_program(path, cur, is_pkg):
    tree = ast.parse(open(path, encoding='utf-8').read())
    out = []
    for node in tree.body:
        if isinstance(node, ast.Expr) and isinstance(node.value, ast.Constant):
            continue                                   # docstring
        if isinstance(node, ast.ImportFrom):
            tgt = absolute(node.module, node.level, cur, is_pkg)
            if any(a.name == '*' for a in node.names):
                out.append(('star', tgt))
            else:
                out.append(('from', tgt, [(a.name, a.asname or a.name) for a in node.names]))
        elif isinstance(node, ast.Import):
            for a in node.names:
                if a.asname:
                    out.append(('import', a.asname, a.name, a.name))
                else:
                    out.append(('import', a.name.split('.')[0], a.name.split('.')[0], a.name))
        elif isinstance(node, (ast.ClassDef, ast.FunctionDef, ast.AsyncFunctionDef)):
            out.append(('def', node.name))
            for d in getattr(node, 'decorator_list', []):
                pass
        elif isinstance(node, ast.Assign) and all(isinstance(t, ast.Name) for t in node.targets):
            for t in node.targets:
                if t.id == '__all__':
                    if not (isinstance(node.value, (ast.List, ast.Tuple)) and all(isinstance(e, ast.Constant) and isinstance(e.value, str) for e in node.value.elts)):
                        raise Unreadable(f"{path}: __all__ is not a literal list")
                    out.append(('all', [e.value for e in node.value.elts]))
                else:
                    out.append(('def', t.id))
        elif isinstance(node, ast.AnnAssign) and isinstance(node.target, ast.Name):
            if node.value is not None:
                out.append(('def', node.target.id))
        else:
            names = is_rebind_loop(node)
            if names is None:
                raise Unreadable(f"{path}:{getattr(node, 'lineno', '?')}: unsupported top-level statement {type(node).__name__}")
            out.append(('def', node.target.id))         # the loop variable stays bound (private name)
            out.append(('rebind', names))
    return out


def extract(src_root):
    """-> (program: list of (modpath, stmts), unreadable: list of messages)"""
    prog, bad = [], []
    base = os.path.join(src_root, 'eolib')
    for dp, dns, fns in sorted(os.walk(base)):
        dns.sort()
        dns[:] = [d for d in dns if d != '__pycache__']
        rel = os.path.relpath(dp, src_root).replace(os.sep, '.')
        for fn in sorted(fns):
            if not fn.endswith('.py'):
                continue
            is_pkg = fn == '__init__.py'
            cur = rel if is_pkg else rel + '.' + fn[:-3]
            try:
                prog.append((cur, module_program(os.path.join(dp, fn), cur, is_pkg)))
            except (Unreadable, SyntaxError) as e:
                bad.append(str(e))
        # a directory without __init__.py is a namespace package: importable, empty body
        if '__init__.py' not in fns and any(f.endswith('.py') for f in fns) or ('__init__.py' not in fns and dns):
            if rel not in [p for p, _ in prog]:
                prog.append((rel, []))
    return prog, bad
