"""Validity campaign for the random spec-tree generator: `python tools/specgen_campaign.py <seed> <n>` generates n random trees, runs the REAL generator on each and imports the
result; every tree must be accepted and importable (a rejected / unimportable tree is a defect of SpecGen, i.e. a source of false alarms in the thorough tiers)."""
import sys, json, random, time
import os; sys.path.insert(0, os.path.dirname(os.path.abspath(__file__)))
from vlib import Scratch
from genharness import *
from gencheck import explicit_defaults
seed0 = int(sys.argv[1]); n = int(sys.argv[2])
S = Scratch()
R = GenRunner(S, workers=8)
trees = []
for k in range(n):
    rng = random.Random(seed0 * 7919 + k)
    G = SpecGen(rng, wire_ok=(k % 2 == 0))
    t = G.tree()
    if k % 3 == 2:
        t = explicit_defaults(t, rng)
    trees.append(t)
t0 = time.time()
res = R.run([dict(id=k, files=tree_xml(t), jobs=[dict(op='deser', cls='NoSuchClassOnPurpose', data=[], chunked=False)], seed=0) for k, t in enumerate(trees)], timeout=3000)
rej = [(k, res[k].get('error')) for k in res if not res[k].get('accepted')]
imp = [(k, res[k].get('import_error')) for k in res if res[k].get('import_error')]
drv = [(k, res[k].get('driver_error')) for k in res if res[k].get('driver_error')]
print(f"seed0={seed0} trees={n} time={time.time()-t0:.0f}s rejected={len(rej)} import_errors={len(imp)} driver_errors={len(drv)}")
for k, e in rej[:8]: print('  REJ', k, str(e)[:160])
for k, e in imp[:8]: print('  IMP', k, str(e)[:200])
for k, e in drv[:3]: print('  DRV', k, str(e)[:200])
json.dump([tree_xml(trees[k]) for k, _ in (rej + imp)[:10]], open(f'/tmp/specgen_campaign_{seed0}.json', 'w'))
