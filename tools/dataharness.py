"""Harness for the data layer (EoWriter / EoReader): running operation histories on the implementation, Coq terms for
ops and observations, input generators, the windows-1252 table validation, and a model-independent transcription of the
documented chunked-reading model used as the property oracle."""
import os
import re
from vlib import *

CHAR_MAX, SHORT_MAX, THREE_MAX, INT_MAX = 253, 253 ** 2, 253 ** 3, 253 ** 4
LIMITS = {'byte': 256, 'char': CHAR_MAX, 'short': SHORT_MAX, 'three': THREE_MAX, 'int': INT_MAX}
SIZES = {'byte': 1, 'char': 1, 'short': 2, 'three': 3, 'int': 4}

EDGE_CPS = [0x00, 0x20, 0x21, 0x22, 0x41, 0x4F, 0x50, 0x79, 0x7D, 0x7E, 0x7F, 0x80, 0x81, 0x8D, 0x9F, 0xA0, 0xFE, 0xFF, 0x100, 0x152,
            0x178, 0x20AC, 0x2122, 0x263A, 0xFFFD, 0xD800, 0x10FFFF, 0x301, 0x308, 0x212A, 0x212B]
# canonically decomposed sequences whose composition is a windows-1252 character (the codec works per code point: no normalisation)
DECOMPOSED = [[0x79, 0x308], [0x65, 0x301], [0x41, 0x30A], [0x59, 0x308], [0x6E, 0x303]]
EDGE_BYTES = [0x00, 0x01, 0x02, 0x21, 0x22, 0x7E, 0x7F, 0x80, 0x81, 0xFD, 0xFE, 0xFF]


def pystr(cps):
    return ''.join(chr(c) for c in cps)


def cps(s):
    return [ord(c) for c in s]


# ---------------------------------------------------------------------------------------- windows-1252 table
def parse_cp_table():
    txt = open(os.path.join(COQ, 'Model/Cp1252.v')).read()
    m = re.search(r'Definition cp_table[^:]*:[^=]*:=\s*\[(.*?)\]\.', txt, flags=re.S)
    ents = re.findall(r'Some\s+(\d+)|None', m.group(1))
    tab = []
    for e in re.finditer(r'Some\s+(\d+)|None', m.group(1)):
        tab.append(int(e.group(1)) if e.group(1) else None)
    assert len(tab) == 32
    return tab


def check_cp1252(C):
    """The Coq table (transcribed by parsing Model/Cp1252.v) against CPython's codec on ALL code points / bytes."""
    tab = parse_cp_table()
    rev = {c: 128 + i for i, c in enumerate(tab) if c is not None}

    def enc(c):
        if 0 <= c < 128 or 160 <= c <= 255:
            return c
        return rev.get(c, 63)

    def dec(b):
        if b < 128 or b >= 160:
            return b
        return tab[b - 128] if tab[b - 128] is not None else 0xFFFD
    allcp = ''.join(map(chr, range(0x110000)))
    real = allcp.encode('windows-1252', 'replace')
    bad = None
    if len(real) != 0x110000:
        bad = f"encode('windows-1252','replace') is not one byte per code point (len {len(real)})"
    else:
        for c in range(0x110000):
            if real[c] != enc(c):
                bad = f"cp_enc({c}) = {enc(c)} but CPython encodes it to {real[c]}"
                break
    d = bytes(range(256)).decode('windows-1252', 'replace')
    for b in range(256):
        if ord(d[b]) != dec(b) and not bad:
            bad = f"cp_dec({b}) = {dec(b)} but CPython decodes it to {ord(d[b])}"
    if bad:
        C.broken.append(dict(kind='correspondence', stream='cp1252-table', msg=bad))
    C.stream('cp1252.table-vs-CPython', 0x110000 + 256, 0x110000 + 256, exhaustive=True, sample=dict(cp=0x20AC, byte=enc(0x20AC)))
    # E1: the Coq definitions themselves on all bytes and a code point sample (ties the parsed transcription to the Gallina)
    sample = sorted(set(list(range(0, 0x300)) + [c for c in tab if c] + EDGE_CPS + [C.rng.randrange(0x110000) for _ in range(300)]))
    ecases = [(c, real[c]) for c in sample]
    dcases = [(b, ord(d[b])) for b in range(256)]
    specs = [dict(label='M.cp_enc', ty='Z * Z', cases=ecases, term=lambda c: f"({c[0]}, {c[1]})", chk="fun c => EO.Model.Cp1252.cp_enc (fst c) =? snd c"),
             dict(label='M.cp_dec', ty='Z * Z', cases=dcases, term=lambda c: f"({c[0]}, {c[1]})", chk="fun c => EO.Model.Cp1252.cp_dec (fst c) =? snd c")]
    corr_streams(C, C.pid.lower() + 'cp', specs, "Require EO.Model.Cp1252.\n")


# ---------------------------------------------------------------------------------------- writer
def cwop(op):
    k = op[0]
    if k == 'byte':
        return f"(WByte {cz(op[1])})"
    if k == 'bytes':
        return f"(WBytes {clist(op[1])})"
    if k in ('char', 'short', 'three', 'int'):
        return f"(W{k.capitalize()} {cz(op[1])})"
    if k == 'string':
        return f"(WString {clist(op[1])})"
    if k == 'enc':
        return f"(WEnc {clist(op[1])})"
    if k == 'fixed':
        return f"(WFixed {clist(op[1])} {cz(op[2])} {cbool(op[3])})"
    if k == 'fixedenc':
        return f"(WFixedEnc {clist(op[1])} {cz(op[2])} {cbool(op[3])})"
    if k == 'san':
        return f"(WSetSan {cbool(op[1])})"
    raise ValueError(op)


def apply_wop(w, op):
    k = op[0]
    if k == 'byte':
        return w.add_byte(op[1])
    if k == 'bytes':
        return w.add_bytes(bytes(op[1]))
    if k == 'char':
        return w.add_char(op[1])
    if k == 'short':
        return w.add_short(op[1])
    if k == 'three':
        return w.add_three(op[1])
    if k == 'int':
        return w.add_int(op[1])
    if k == 'string':
        return w.add_string(pystr(op[1]))
    if k == 'enc':
        return w.add_encoded_string(pystr(op[1]))
    if k == 'fixed':
        return w.add_fixed_string(pystr(op[1]), op[2], op[3])
    if k == 'fixedenc':
        return w.add_fixed_encoded_string(pystr(op[1]), op[2], op[3])
    if k == 'san':
        w.string_sanitization_mode = op[1]
        return None
    raise ValueError(op)


def exc_class(e):
    if isinstance(e, Timeout):
        return 'EFuel'
    if type(e).__name__ == 'SerializationError':
        return 'ESerialization'
    if isinstance(e, ValueError):
        return 'EValue'
    if type(e) is RuntimeError:
        return 'ERuntime'
    if isinstance(e, AttributeError):
        return 'EAttribute'
    if isinstance(e, TypeError):
        return 'EType'
    return 'EUnexpected'


def run_writer(wmod, ops):
    """-> list of (('ok',None)|('err',E), bytes after, mode after) ; one entry per op"""
    w = wmod.EoWriter()
    obs = []
    kept = []            # outputs handed out earlier, held the way a reader holds them (memoryview): later writes must not touch them
    for op in ops:
        try:
            r = apply_wop(w, op)
            res = ('ok', None) if r is None else ('err', 'EUnexpected')
        except Exception as e:
            res = ('err', 'EAliased' if isinstance(e, BufferError) else exc_class(e))
        out = w.to_bytearray()
        if len(kept) < 4:
            kept.append((memoryview(out), list(out)))
        obs.append((res, list(out), bool(w.string_sanitization_mode), len(w)))
    if obs and any(list(mv) != snap for mv, snap in kept) and obs[-1][0][0] == 'ok':
        obs[-1] = (('err', 'EAliased'),) + obs[-1][1:]
    for mv, _ in kept:
        mv.release()
    return obs


def cwobs(o):
    r = "(Ok tt)" if o[0][0] == 'ok' else f"(Err {'EUnexpected' if o[0][1] == 'EAliased' else o[0][1]})"
    return f"({r}, {clist(o[1])}, {cbool(o[2])})"


def cp_image_py(c):
    return ord(chr(c).encode('windows-1252', 'replace').decode('windows-1252', 'replace'))


def writer_oracle(ops, obs):
    """Property C09 on the implementation, independent of the Coq model. Returns None or a description."""
    prev, san = [], False
    for i, (op, o) in enumerate(zip(ops, obs)):
        res, data, mode, ln = o
        k = op[0]
        where = f"op #{i} {op!r} (sanitisation {'on' if san else 'off'})"
        if ln != len(data):
            return f"{where}: len(writer) = {ln} but to_bytearray() has {len(data)} bytes"
        if k == 'san':
            if res[0] != 'ok' or data != prev or mode != op[1]:
                return f"{where}: setting the mode changed the contents or did not take effect"
            san = mode
            continue
        if mode != san:
            return f"{where}: the write changed the sanitisation mode"
        must_fail = False
        size = None
        if k in LIMITS:
            v = op[1]
            if v >= LIMITS[k]:
                must_fail = True
            elif v >= 0:
                size = SIZES[k]
        elif k == 'bytes':
            size = len(op[1])
        else:
            s = op[1]
            if k in ('fixed', 'fixedenc'):
                n, p = op[2], op[3]
                if (p and len(s) > n) or (not p and len(s) != n):
                    must_fail = True
                size = n
            else:
                size = len(s)
        if res[0] == 'err':
            if res[1] == 'EAliased':
                return f"{where}: an output handed out earlier by to_bytearray() shares the writer's buffer (it was changed by, or it blocked, a later write)"
            if res[1] != 'EValue':
                return f"{where}: raised {res[1]}, only ValueError is allowed"
            if data != prev:
                return f"{where}: raised ValueError but the writer's contents changed from {prev[-8:]} to {data[-8:]} (not atomic)"
            if not must_fail and not (k in LIMITS and op[1] < 0):
                return f"{where}: a valid write was rejected"
        else:
            if must_fail:
                return f"{where}: accepted although it violates its limit/length"
            if data[:len(prev)] != prev:
                return f"{where}: earlier contents were modified"
            out = data[len(prev):]
            if size is not None and len(out) != size:
                return f"{where}: appended {len(out)} bytes, declared size is {size}"
            if k in ('string', 'fixed', 'enc', 'fixedenc'):
                s = op[1]
                img = list(pystr(s).encode('windows-1252', 'replace'))
                if san:
                    img = [0x79 if b == 0xFF else b for b in img]
                npad = 0
                if k in ('fixed', 'fixedenc') and op[3]:
                    npad = op[2] - len(s)
                if san and out.count(0xFF) != npad:
                    return f"{where}: emitted {out.count(0xFF)} 0xFF byte(s) with sanitisation on, padding accounts for {npad}"
                if k in ('string', 'fixed') and out != img + [0xFF] * npad:
                    return f"{where}: emitted {out}, expected the windows-1252 image {img + [0xFF] * npad}"
                if k in ('enc', 'fixedenc') and out != py_encode_string(img + [0xFF] * npad):
                    return f"{where}: emitted {out}, expected the EO-encoded windows-1252 image {py_encode_string(img + [0xFF] * npad)}"
        prev = data
    return None


def py_encode_string(bs):
    """independent transcription of the EO string encoding (invert, then reverse)"""
    flippy = len(bs) % 2 == 1
    out = []
    for c in bs:
        f = 0
        if flippy:
            f = 0x2E if c < 0x50 else -0x2E
        out.append(0x9F - c - f if 0x22 <= c <= 0x7E else c)
        flippy = not flippy
    return out[::-1]


def gen_string(rng, maxlen=12):
    n = rng.choice([0, 1, 2, 3, rng.randrange(0, maxlen + 1)])
    s = [rng.choice(EDGE_CPS) if rng.random() < 0.45 else rng.randrange(0x20, 0x17F) for _ in range(n)]
    if n >= 2 and rng.random() < 0.15:
        k = rng.randrange(0, n - 1)
        s[k:k + 2] = rng.choice(DECOMPOSED)
    if rng.random() < 0.05:
        s = s + [ord(c) for c in rng.choice(['{0}', '{}', '{x}', '%s', '{0[a]}'])]
    return s


def gen_int(rng, kind):
    lim = LIMITS[kind]
    r = rng.random()
    if r < 0.5:
        return rng.randrange(0, lim)
    if r < 0.8:
        return rng.choice([0, 1, 252, 253, 254, 255, 256, lim - 2, lim - 1, lim, lim + 1, SHORT_MAX - 1, SHORT_MAX, THREE_MAX - 1, THREE_MAX,
                           INT_MAX - 1, INT_MAX, INT_MAX + 1, 2 ** 31, 2 ** 32, 2 ** 64, 10 ** 30])
    if r < 0.9:
        return rng.choice([-1, -2, -253, -(2 ** 31)])
    return rng.randrange(0, 2 * lim)


def gen_wop(rng):
    k = rng.choice(['byte', 'bytes', 'char', 'short', 'three', 'int', 'string', 'fixed', 'fixed', 'enc', 'fixedenc', 'fixedenc', 'san'])
    if k in LIMITS:
        return (k, gen_int(rng, k))
    if k == 'bytes':
        return (k, [rng.choice(EDGE_BYTES) if rng.random() < 0.5 else rng.randrange(256) for _ in range(rng.randrange(0, 6))])
    if k == 'san':
        return (k, rng.random() < 0.6)
    s = gen_string(rng)
    if k in ('string', 'enc'):
        return (k, s)
    n = len(s) + rng.choice([0, 0, 0, 1, 2, 5, -1, -2]) if rng.random() < 0.9 else rng.randrange(0, 20)
    return (k, s, max(n, 0) if rng.random() < 0.95 else n, rng.random() < 0.5)


# ---------------------------------------------------------------------------------------- reader
def crop(op):
    k = op[0]
    simple = {'byte': 'RByte', 'char': 'RChar', 'short': 'RShort', 'three': 'RThree', 'int': 'RInt', 'string': 'RString', 'enc': 'REnc',
              'getchunked': 'RGetChunked', 'remaining': 'RRemaining', 'position': 'RPosition', 'nextchunk': 'RNextChunk'}
    if k in simple:
        return simple[k]
    if k == 'bytes':
        return f"(RBytes {cz(op[1])})"
    if k == 'fixed':
        return f"(RFixed {cz(op[1])} {cbool(op[2])})"
    if k == 'fixedenc':
        return f"(RFixedEnc {cz(op[1])} {cbool(op[2])})"
    if k == 'setchunked':
        return f"(RSetChunked {cbool(op[1])})"
    if k == 'slice':
        return f"(RSlice {copt(op[1], cz)} {copt(op[2], cz)})"
    raise ValueError(op)


def apply_rop(r, op):
    """-> canonical output ('Z', n) | ('Bytes', l) | ('Str', cps) | ('Bool', b) | ('Unit',) | ('New', reader)"""
    k = op[0]
    if k == 'byte':
        return ('Z', r.get_byte())
    if k == 'bytes':
        return ('Bytes', list(r.get_bytes(op[1])))
    if k == 'char':
        return ('Z', r.get_char())
    if k == 'short':
        return ('Z', r.get_short())
    if k == 'three':
        return ('Z', r.get_three())
    if k == 'int':
        return ('Z', r.get_int())
    if k == 'string':
        return ('Str', cps(r.get_string()))
    if k == 'enc':
        return ('Str', cps(r.get_encoded_string()))
    if k == 'fixed':
        return ('Str', cps(r.get_fixed_string(op[1], op[2])))
    if k == 'fixedenc':
        return ('Str', cps(r.get_fixed_encoded_string(op[1], op[2])))
    if k == 'setchunked':
        r.chunked_reading_mode = op[1]
        return ('Unit',)
    if k == 'getchunked':
        return ('Bool', bool(r.chunked_reading_mode))
    if k == 'remaining':
        return ('Z', r.remaining)
    if k == 'position':
        return ('Z', r.position)
    if k == 'nextchunk':
        x = r.next_chunk()
        return ('Unit',) if x is None else ('Err', 'EUnexpected')
    if k == 'slice':
        if op[1] is None and op[2] is None:
            n = r.slice()
        elif op[2] is None:
            n = r.slice(op[1])
        else:
            n = r.slice(op[1], op[2])
        return ('New', n)
    raise ValueError(op)


def run_reader(rmod, data, ops, factory=None):
    """ops: list of (handle, op).  -> list of (out, position, remaining, mode) for the addressed reader after each op"""
    pool = [(factory or rmod.EoReader)(bytes(data))]
    obs = []
    for h, op in ops:
        r = pool[h]
        try:
            out = apply_rop(r, op)
            if out[0] == 'New':
                pool.append(out[1])
                out = ('New',)
            elif out[0] == 'Z' and (not isinstance(out[1], int) or isinstance(out[1], bool)):
                out = ('Err', 'EUnexpected')
        except Exception as e:
            out = ('Err', exc_class(e))
        try:
            st = (int(r.position), int(r.remaining), bool(r.chunked_reading_mode))
        except Exception:
            st = (-999, -999, False)
        obs.append((out,) + st)
    return obs


def crout(o):
    k = o[0]
    if k == 'Z':
        return f"(OZ {cz(o[1])})"
    if k == 'Bytes':
        return f"(OBytes {clist(o[1])})"
    if k == 'Str':
        return f"(OStr {clist(o[1])})"
    if k == 'Bool':
        return f"(OBool {cbool(o[1])})"
    if k == 'Unit':
        return "OUnit"
    if k == 'New':
        return "ONew"
    if k == 'Err':
        return f"(OErr {o[1]})"
    raise ValueError(o)


def crobs(o):
    return f"({crout(o[0])}, {cz(o[1])}, {cz(o[2])}, {cbool(o[3])})"


class SpecReader:
    """The documented chunked-reading model, transcribed from the EoReader docstrings / eo-protocol chunks.md,
    deliberately without any cache: the oracle of C05 (independent of the Coq model and of the implementation)."""

    def __init__(self, data):
        self.data, self.pos, self.chunked, self.start = list(data), 0, False, 0

    def chunk_end(self):
        for i in range(self.start, len(self.data)):
            if self.data[i] == 0xFF:
                return i
        return len(self.data)

    @property
    def remaining(self):
        if self.chunked:
            e = self.chunk_end()
            return e - min(self.pos, e)
        return len(self.data) - self.pos

    def take(self, n):
        n = min(n, self.remaining)
        out = self.data[self.pos:self.pos + n]
        self.pos += n
        return out

    @staticmethod
    def number(bs):
        r = 0
        for i, b in enumerate(bs[:4]):
            if b == 0xFE:
                break
            r += (b - 1) * 253 ** i
        return r

    @staticmethod
    def text(bs):
        return cps(bytes(bs).decode('windows-1252', 'replace'))

    @staticmethod
    def unpad(bs):
        return bs[:bs.index(0xFF)] if 0xFF in bs else bs

    @staticmethod
    def decode(bs):
        bs = list(reversed(bs))
        flippy = len(bs) % 2 == 1
        out = []
        for c in bs:
            f = 0
            if flippy:
                f = 0x2E if c < 0x50 else -0x2E
            out.append(0x9F - c - f if 0x22 <= c <= 0x7E else c)
            flippy = not flippy
        return out

    def step(self, op):
        k = op[0]
        if k == 'byte':
            b = self.take(1)
            return ('Z', b[0] if b else 0)
        if k == 'bytes':
            return ('Bytes', self.take(op[1]))
        if k in SIZES:
            return ('Z', self.number(self.take(SIZES[k])))
        if k == 'string':
            return ('Str', self.text(self.take(self.remaining)))
        if k == 'enc':
            return ('Str', self.text(self.decode(self.take(self.remaining))))
        if k == 'fixed':
            if op[1] < 0:
                return ('Err', 'EValue')
            b = self.take(op[1])
            return ('Str', self.text(self.unpad(b) if op[2] else b))
        if k == 'fixedenc':
            if op[1] < 0:
                return ('Err', 'EValue')
            b = self.decode(self.take(op[1]))
            return ('Str', self.text(self.unpad(b) if op[2] else b))
        if k == 'setchunked':
            self.chunked = op[1]
            return ('Unit',)
        if k == 'getchunked':
            return ('Bool', self.chunked)
        if k == 'remaining':
            return ('Z', self.remaining)
        if k == 'position':
            return ('Z', self.pos)
        if k == 'nextchunk':
            if not self.chunked:
                return ('Err', 'ERuntime')
            e = self.chunk_end()
            self.pos = e + 1 if e < len(self.data) else e
            self.start = self.pos
            return ('Unit',)
        if k == 'slice':
            i = self.pos if op[1] is None else op[1]
            n = max(0, len(self.data) - i) if op[2] is None else op[2]
            if i < 0 or n < 0:
                return ('Err', 'EValue')
            return ('New', SpecReader(self.data[i:][:n]))
        raise ValueError(op)


def run_spec(data, ops):
    pool = [SpecReader(data)]
    obs = []
    for h, op in ops:
        r = pool[h]
        out = r.step(op)
        if out[0] == 'New':
            pool.append(out[1])
            out = ('New',)
        obs.append((out, r.pos, r.remaining, r.chunked))
    return obs


def reader_oracle(data, ops, obs):
    """C05 on the implementation: equals the documented model; position within data; remaining >= 0."""
    exp = run_spec(data, ops)
    lens = [len(data)]
    for i, ((h, op), o, e) in enumerate(zip(ops, obs, exp)):
        if o != e:
            return f"data={data} ops={ops[:i + 1]}: op #{i} {op} on reader {h} observed (out, position, remaining, chunked) = {o}, documented model gives {e}"
    return None


READ_KINDS = ['byte', 'bytes', 'char', 'short', 'three', 'int', 'string', 'fixed', 'enc', 'fixedenc', 'setchunked', 'getchunked',
              'remaining', 'position', 'nextchunk', 'slice']


def gen_rop(rng, nlen):
    k = rng.choice(READ_KINDS + ['nextchunk', 'setchunked', 'char', 'byte'])
    if k == 'bytes':
        return (k, rng.choice([0, 1, 2, 3, 5, nlen, nlen + 3]))
    if k in ('fixed', 'fixedenc'):
        return (k, rng.choice([0, 1, 2, 3, 5, nlen + 1, -1 if rng.random() < 0.2 else 4]), rng.random() < 0.5)
    if k == 'setchunked':
        return (k, rng.random() < 0.65)
    if k == 'slice':
        i = rng.choice([None, 0, 1, 2, 3, nlen, nlen + 2, -1 if rng.random() < 0.15 else 1])
        n = None if i is None and rng.random() < 0.7 else rng.choice([None, 0, 1, 2, 5, nlen + 4, -1 if rng.random() < 0.15 else 3])
        return (k, i, n)
    return (k,)


def gen_data(rng, maxlen=24):
    n = rng.choice([0, 1, 2, rng.randrange(0, maxlen + 1), rng.randrange(0, maxlen + 1)])
    dens = rng.choice([0.0, 0.1, 0.35])
    return [0xFF if rng.random() < dens else (rng.choice(EDGE_BYTES) if rng.random() < 0.4 else rng.randrange(256)) for _ in range(n)]


def gen_history(rng, maxops=30):
    data = gen_data(rng)
    ops, nreaders = [], 1
    for _ in range(rng.randrange(1, maxops + 1)):
        h = rng.randrange(nreaders) if rng.random() < 0.5 else nreaders - 1
        op = gen_rop(rng, len(data))
        ops.append((h, op))
        if op[0] == 'slice' and (op[1] is None or op[1] >= 0) and (op[2] is None or op[2] >= 0) and nreaders < 5:
            nreaders += 1
        elif op[0] == 'slice' and (op[1] is None or op[1] >= 0) and (op[2] is None or op[2] >= 0):
            ops.pop()
    return data, ops


# ---------------------------------------------------------------------------------------- items (C04 / C06)
def citem(it):
    k = it[0]
    if k in ('byte', 'char', 'short', 'three', 'int'):
        return f"(I{k.capitalize()} {cz(it[1])})"
    if k == 'bytes':
        return f"(IBytes {clist(it[1])})"
    if k == 'rest':
        return f"(IRest {clist(it[1])})"
    if k == 'fixed':
        return f"(IFixed {clist(it[1])})"
    if k == 'padded':
        return f"(IPadded {clist(it[1])} {cz(it[2])})"
    if k == 'encfixed':
        return f"(IEncFixed {clist(it[1])})"
    if k == 'encpadded':
        return f"(IEncPadded {clist(it[1])} {cz(it[2])})"
    if k == 'str':
        return f"(IStr {clist(it[1])})"
    if k == 'encstr':
        return f"(IEncStr {clist(it[1])})"
    raise ValueError(it)


def item_wop(it):
    k = it[0]
    if k in ('byte', 'char', 'short', 'three', 'int', 'bytes'):
        return it
    if k == 'rest':
        return ('bytes', it[1])
    if k == 'fixed':
        return ('fixed', it[1], len(it[1]), False)
    if k == 'padded':
        return ('fixed', it[1], it[2], True)
    if k == 'encfixed':
        return ('fixedenc', it[1], len(it[1]), False)
    if k == 'encpadded':
        return ('fixedenc', it[1], it[2], True)
    if k == 'str':
        return ('string', it[1])
    if k == 'encstr':
        return ('enc', it[1])
    raise ValueError(it)


def item_rop(it, reader=None):
    k = it[0]
    if k in ('byte', 'char', 'short', 'three', 'int'):
        return (k,)
    if k == 'bytes':
        return ('bytes', len(it[1]))
    if k == 'rest':
        return ('bytes', reader.remaining)
    if k == 'fixed':
        return ('fixed', len(it[1]), False)
    if k == 'padded':
        return ('fixed', it[2], True)
    if k == 'encfixed':
        return ('fixedenc', len(it[1]), False)
    if k == 'encpadded':
        return ('fixedenc', it[2], True)
    if k == 'str':
        return ('string',)
    if k == 'encstr':
        return ('enc',)
    raise ValueError(it)


def item_expected(it):
    k = it[0]
    if k in ('byte', 'char', 'short', 'three', 'int'):
        return ('Z', it[1])
    if k in ('bytes', 'rest'):
        return ('Bytes', it[1])
    return ('Str', [cp_image_py(c) for c in it[1]])


def gen_item(rng, trailing_ok, kinds=None):
    kinds = kinds or ['byte', 'bytes', 'char', 'short', 'three', 'int', 'fixed', 'padded', 'encfixed', 'encpadded'] + (['str', 'encstr', 'rest'] if trailing_ok else [])
    k = rng.choice(kinds)
    if k in LIMITS:
        lim = LIMITS[k]
        return (k, rng.choice([0, 1, lim - 1, lim - 2, 252, min(253, lim - 1), min(254, lim - 1), min(SHORT_MAX - 1, lim - 1), min(SHORT_MAX, lim - 1),
                               rng.randrange(0, lim), rng.randrange(0, lim)]))
    if k in ('bytes', 'rest'):
        return (k, [rng.choice(EDGE_BYTES) if rng.random() < 0.5 else rng.randrange(256) for _ in range(rng.randrange(0, 6))])
    s = gen_string(rng, 8)
    if k in ('padded', 'encpadded'):
        s = [c for c in s if c != 0xFF]
    if k in ('encfixed', 'encpadded', 'encstr'):
        s = [c for c in s if c != 0x7E]
    if k in ('padded', 'encpadded'):
        return (k, s, len(s) + rng.choice([0, 0, 1, 3]))
    return (k, s)
