#!/bin/bash
# confirm_seed.sh <ID> <mK> : confirm a seeded change in its scratch worktree, then store it under /verif/seeded/<ID>-<mK>/
ID=$1; M=$2; WT=/tmp/seed/$ID-wt; OUT=/tmp/seed/$ID-out/$M
set -u
git -C $WT checkout -q -- . && git -C $WT status --short | head -3
echo "== pristine demo"; /venv/bin/python $OUT/demo.py $WT 2>&1 | grep -v condarc | tail -2; P0=${PIPESTATUS[0]}
git -C $WT apply $OUT/patch.diff || { echo APPLY-FAILED; exit 1; }
echo "== tests with patch"; (cd $WT && PYTHONPATH=$WT/src /venv/bin/python -m pytest -q -p no:cacheprovider --continue-on-collection-errors 2>&1 | grep -v condarc | tail -2)
echo "== demo with patch"; /venv/bin/python $OUT/demo.py $WT 2>&1 | grep -v condarc | tail -3; P1=${PIPESTATUS[0]}
git -C $WT checkout -q -- .
echo "pristine_exit=$P0 patched_exit=$P1"
mkdir -p /verif/seeded/$ID-$M && cp $OUT/patch.diff $OUT/demo.py /verif/seeded/$ID-$M/ && cp $OUT/notes.md /verif/seeded/$ID-$M/notes.md 2>/dev/null
